#!/bin/sh
# Run once after a fresh restore, offline: compile the SHA-256 override and pre-build the harness.
set -e
cd "$(dirname "$0")"
export CARGO_NET_OFFLINE=true
mkdir -p work evidence replays
(cd spec && javac -cp /opt/veriftools/tla/tla2tools.jar Prim.java)
[ -f harness/Cargo.lock ] || cp /repo/Cargo.lock harness/Cargo.lock
(cd harness && cargo build --release --offline --bins) || { cp /repo/Cargo.lock harness/Cargo.lock; (cd harness && cargo build --release --offline --bins); }
echo setup done
