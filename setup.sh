#!/bin/sh
# Run once after a fresh restore, offline: compile the SHA-256 override and pre-build the harness
# binaries of the registered engines (each check rebuilds what it needs anyway; this only warms the caches).
set -e
cd "$(dirname "$0")"
export CARGO_NET_OFFLINE=true
mkdir -p work evidence replays
(cd spec && javac -cp /opt/veriftools/tla/tla2tools.jar Prim.java)
[ -f harness/Cargo.lock ] || cp /repo/Cargo.lock harness/Cargo.lock
BINS="$(cat setup.bins)"
ARGS=""
for b in $BINS; do ARGS="$ARGS --bin $b"; done
(cd harness && cargo build --release --offline $ARGS) || { cp /repo/Cargo.lock harness/Cargo.lock; (cd harness && cargo build --release --offline $ARGS); }
# the two extra build variants of C05
(cd harness && CARGO_TARGET_DIR=target-nofast cargo build --release --offline --features nofast --bin run --bin ops)
(cd harness && CARGO_TARGET_DIR=target-diag cargo build --release --offline --features diag --bin run --bin ops)
if [ -x pyharness/build.sh ]; then pyharness/build.sh || echo "python wheel build failed (the py checks will retry)"; fi
echo setup done
