"""Shared machinery for /verif/check.py and the engines.

Everything a check needs that is not property-specific: building the Rust
harness from /repo's working tree, running TLC (model checking, S->I case
generation, I->S trace validation), caching keyed by the built binary / the
spec sources, known findings, evidence files, VIOLATION lines.
"""
import hashlib, json, os, re, shutil, subprocess, sys, time

sys.setrecursionlimit(200000)

VERIF = os.path.dirname(os.path.dirname(os.path.abspath(__file__)))
REPO = os.environ.get("VERIF_REPO", "/repo")
SPEC = os.path.join(VERIF, "spec")
# VERIF_WORK / VERIF_HARNESS / VERIF_OUT are only used by tools/try_seed.sh to run the checks against a
# scratch copy of the repository (seeded mutants) without touching /repo, the caches or the evidence files
WORK = os.environ.get("VERIF_WORK", os.path.join(VERIF, "work"))
HARNESS = os.environ.get("VERIF_HARNESS", os.path.join(VERIF, "harness"))
OUTDIR = os.environ.get("VERIF_OUT", VERIF)
TLA_JAR = "/opt/veriftools/tla/tla2tools.jar"
TLA_CP = TLA_JAR + ":/opt/veriftools/tla/CommunityModules-deps.jar"
NCPU = os.cpu_count() or 4


class ToolError(Exception):
    """Infrastructure failure (build, TLC crash, timeout): exit code 2, never a verdict."""


def log(*a):
    print("[verif]", *a, file=sys.stderr, flush=True)


def sha256_file(path):
    h = hashlib.sha256()
    with open(path, "rb") as f:
        for chunk in iter(lambda: f.read(1 << 20), b""):
            h.update(chunk)
    return h.hexdigest()


def sha256_str(s):
    return hashlib.sha256(s.encode()).hexdigest()


def run(cmd, cwd=None, env=None, timeout=None, check=True, capture=True, stdin=None):
    e = dict(os.environ)
    e.update({"CARGO_NET_OFFLINE": "true"})
    if env:
        e.update(env)
    try:
        p = subprocess.run(cmd, cwd=cwd, env=e, timeout=timeout, input=stdin,
                           stdout=subprocess.PIPE if capture else None,
                           stderr=subprocess.STDOUT if capture else None, text=True)
    except subprocess.TimeoutExpired as ex:
        raise ToolError("timeout after %ss: %s" % (timeout, " ".join(cmd[:6])))
    if check and p.returncode != 0:
        raise ToolError("command failed (%d): %s\n%s" % (p.returncode, " ".join(cmd[:8]), (p.stdout or "")[-4000:]))
    return p


# ---------------------------------------------------------------------------
# building

_built = {}

VARIANTS = {
    # name -> cargo features of the harness crate
    "default": [],
    "nofast": ["nofast"],
    "diag": ["diag"],
}


def ensure_prim():
    cls = os.path.join(SPEC, "Prim.class")
    src = os.path.join(SPEC, "Prim.java")
    if not os.path.exists(cls) or os.path.getmtime(cls) < os.path.getmtime(src):
        run(["javac", "-cp", TLA_JAR, "Prim.java"], cwd=SPEC)


def build_harness(variant="default", bins=None):
    """cargo build of the harness (path dependency on /repo => rebuilt from the
    working tree).  `bins`: names of the binaries needed (default: all).  Returns a
    dict bin-name -> path of a private copy of the binary (so later builds of another
    feature variant do not overwrite it)."""
    key = (variant, tuple(sorted(bins)) if bins else None)
    if key in _built:
        return _built[key]
    lock_src = os.path.join(REPO, "Cargo.lock")
    lock_dst = os.path.join(HARNESS, "Cargo.lock")
    if not os.path.exists(lock_dst):
        shutil.copy(lock_src, lock_dst)
    feats = VARIANTS[variant]
    cmd = ["cargo", "build", "--release", "--offline"]
    if bins:
        for b in bins:
            cmd += ["--bin", b]
    else:
        cmd += ["--bins"]
    if feats:
        cmd += ["--features", ",".join(feats)]
    t0 = time.time()
    # every feature variant has its own target directory, so concurrent checks never swap binaries under each other
    tdir = os.path.join(HARNESS, "target" if variant == "default" else "target-" + variant)
    benv = {"CARGO_TARGET_DIR": tdir}
    p = run(cmd, cwd=HARNESS, env=benv, timeout=3600, check=False)
    if p.returncode != 0 and "Cargo.lock" in (p.stdout or ""):
        shutil.copy(lock_src, lock_dst)
        p = run(cmd, cwd=HARNESS, env=benv, timeout=3600, check=False)
    if p.returncode != 0:
        raise ToolError("harness build failed (%s):\n%s" % (variant, p.stdout[-6000:]))
    outdir = os.path.join(WORK, "bin", variant)
    os.makedirs(outdir, exist_ok=True)
    rel = os.path.join(tdir, "release")
    res = {}
    names = bins or [n for n in os.listdir(rel)
                     if os.path.isfile(os.path.join(rel, n)) and os.access(os.path.join(rel, n), os.X_OK) and "." not in n]
    for name in names:
        path = os.path.join(rel, name)
        dst = os.path.join(outdir, name)
        if not os.path.exists(dst) or sha256_file(dst) != sha256_file(path):
            tmp = "%s.tmp%d" % (dst, os.getpid())
            shutil.copy2(path, tmp)
            os.replace(tmp, dst)
        res[name] = dst
    log("harness[%s] %s built in %.1fs" % (variant, ",".join(names), time.time() - t0))
    _built[key] = res
    return res


def bin_hash(path):
    return sha256_file(path)[:24]


# ---------------------------------------------------------------------------
# cache

def cache_path(kind, key):
    d = os.path.join(WORK, "cache", kind)
    os.makedirs(d, exist_ok=True)
    return os.path.join(d, sha256_str(key)[:32])


def spec_hash(modules):
    """hash of the given spec files (module names without extension, or file names) plus BigInt/Prim"""
    h = hashlib.sha256()
    for m in sorted(set(modules)):
        for ext in ("", ".tla", ".cfg"):
            p = os.path.join(SPEC, m + ext)
            if os.path.isfile(p):
                h.update(p.encode())
                h.update(open(p, "rb").read())
    return h.hexdigest()[:24]


def all_spec_hash():
    return spec_hash([f for f in os.listdir(SPEC) if f.endswith((".tla", ".cfg", ".java"))])


# ---------------------------------------------------------------------------
# TLC

class TlcResult:
    def __init__(self, out, rc, wall):
        self.out = out
        self.rc = rc
        self.wall = wall
        self.generated = 0
        self.distinct = 0
        m = re.findall(r"(\d+) states generated, (\d+) distinct states found", out)
        if m:
            self.generated, self.distinct = int(m[-1][0]), int(m[-1][1])
        self.invariant_violated = "Invariant" in out and "is violated" in out
        self.error = ("Error:" in out) or rc not in (0,)
        self.lines = out.splitlines()

    def tagged(self, tag):
        """PrintT(<<"TAG", "json">>) lines -> list of parsed json payloads"""
        res = []
        pre = '<<"%s", "' % tag
        for ln in self.lines:
            ln = ln.strip()
            if ln.startswith(pre) and ln.endswith('">>'):
                body = ln[len(pre):-3]
                body = body.replace('\\"', '"').replace("\\\\", "\\")
                try:
                    res.append(json.loads(body))
                except Exception as ex:
                    raise ToolError("unparsable %s line: %s (%s)" % (tag, ln[:300], ex))
        return res

    def tagged_raw(self, tag):
        res = []
        pre = '<<"%s", ' % tag
        for ln in self.lines:
            ln = ln.strip()
            if ln.startswith(pre):
                res.append(ln)
        return res


def run_tlc(module, cfg=None, env=None, workers=1, timeout=1800, xmx="4g", simulate=None,
            deque=False, extra=None, name=None):
    """Run TLC on SPEC/<module>.tla.  Returns TlcResult.  Raises ToolError on timeout."""
    ensure_prim()
    name = name or module
    meta = os.path.join(WORK, "tlc", "%s-%d-%d" % (name, os.getpid(), int(time.time() * 1000) % 100000000))
    os.makedirs(meta, exist_ok=True)
    jopts = "-Xss1g"
    if deque:
        jopts += " -Dtlc2.tool.queue.IStateQueue=StateDeque"
    cmd = ["java", "-XX:+UseParallelGC", "-Xmx" + xmx, "-Xss1g"]
    if deque:
        cmd.append("-Dtlc2.tool.queue.IStateQueue=StateDeque")
    cmd += ["-cp", TLA_CP, "tlc2.TLC", "-workers", str(workers), "-metadir", meta,
            "-noGenerateSpecTE", "-checkpoint", "0", "-config", cfg or (module + ".cfg")]
    # -checkpoint 0: no periodic checkpoints (StateDeque throws UnsupportedOperationException at the first one, i.e.
    # after 30 minutes of a trace validation on a loaded machine)
    if simulate:
        cmd += ["-simulate", simulate]
    if extra:
        cmd += extra
    cmd.append(module + ".tla")
    t0 = time.time()
    e = dict(env or {})
    try:
        p = run(cmd, cwd=SPEC, env=e, timeout=timeout, check=False)
    finally:
        pass
    shutil.rmtree(meta, ignore_errors=True)
    return TlcResult(p.stdout or "", p.returncode, time.time() - t0)


def tlc_ok_or_raise(res, what, allow_rc=(0,)):
    """A TLC run that is infrastructure (parse error, evaluation error, assumption failure)
    is a tool error, not a verdict."""
    if res.rc not in allow_rc:
        # the message proper is often buried under the printed behaviour: pull the Error: paragraphs out
        errs = []
        ls = res.lines
        for i, ln in enumerate(ls):
            if ln.startswith("Error:") and "behavior up to this point" not in ln:
                errs.append(" | ".join(x.strip() for x in ls[i:i + 6])[:700])
        if errs:
            raise ToolError("TLC failed for %s (rc=%d): %s" % (what, res.rc, " || ".join(errs[:4])))
        raise ToolError("TLC failed for %s (rc=%d):\n%s" % (what, res.rc, res.out[-5000:]))


# ---------------------------------------------------------------------------
# results

class Violation:
    def __init__(self, prop, desc, replay):
        self.prop = prop
        self.desc = desc            # short text
        self.replay = replay        # json-able object describing the failing input / expected / observed
        self.finding = None         # id of known finding if matched


class Outcome:
    """What one check run found and covered."""

    def __init__(self, prop, level="model_checking"):
        self.prop = prop
        self.level = level
        self.violations = []
        self.known = {}             # finding id -> count
        self.drift = []
        self.states = 0
        self.transitions = 0
        self.traces = 0             # traces validated against impl / cases replayed into impl
        self.evaluations = 0
        self.nontrivial = 0
        self.rule = ""
        self.samples = []
        self.assumptions = []
        self.exhaustive = False
        self.extra = {}

    def add_tlc(self, res):
        self.states += res.distinct
        self.transitions += res.generated

    def sample(self, s, cap=6):
        if len(self.samples) < cap:
            self.samples.append(s)


def load_known():
    p = os.path.join(VERIF, "KNOWN_FINDINGS.json")
    if not os.path.exists(p):
        return {"findings": [], "fixed": []}
    return json.load(open(p))


def write_evidence(out, tier, seed, wall):
    cov = {
        "states": int(out.states), "transitions": int(out.transitions),
        "traces_validated_against_impl": int(out.traces),
        "evaluations": int(max(out.evaluations, 1)),
        "distinct_nontrivial": int(out.nontrivial),
        "rule": out.rule, "samples": out.samples or ["(none)"],
        "exhaustive": bool(out.exhaustive),
    }
    cov.update(out.extra)
    ev = {
        "property_id": out.prop, "tier": tier, "seed": int(seed), "level": out.level,
        "coverage": cov, "assumptions": out.assumptions + (["DRIFT: " + d for d in out.drift[:20]]),
        "wall_s": round(wall, 2),
        "violations": len([v for v in out.violations if not v.finding]),
    }
    if out.known:
        ev["known_findings_reproduced"] = out.known
    os.makedirs(os.path.join(OUTDIR, "evidence"), exist_ok=True)
    path = os.path.join(OUTDIR, "evidence", out.prop + ".json")
    with open(path + ".tmp", "w") as f:
        json.dump(ev, f, indent=1, sort_keys=True)
    os.replace(path + ".tmp", path)
    return path


def write_replay(prop, idx, payload):
    d = os.path.join(OUTDIR, "replays")
    os.makedirs(d, exist_ok=True)
    path = os.path.join(d, "%s-%d.json" % (prop, idx))
    with open(path, "w") as f:
        json.dump(payload, f, indent=1, sort_keys=True)
    return path


# ---------------------------------------------------------------------------
# json helpers shared with the harness conventions

def n_le(n):
    """non-negative int -> little-endian base-256 digit list (normalised)"""
    out = []
    while n > 0:
        out.append(n & 255)
        n >>= 8
    return out


def le_n(d):
    n = 0
    for i, x in enumerate(d or []):
        n |= x << (8 * i)
    return n


def atom(b):
    return {"a": list(b)}


def pair(f, r):
    return {"f": f, "r": r}


def tree_hex(t):
    if "a" in t:
        return "0x" + bytes(t["a"]).hex() if t["a"] else "()"
    return "(" + tree_hex(t["f"]) + " . " + tree_hex(t["r"]) + ")"
