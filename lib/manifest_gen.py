#!/usr/bin/env python3
"""Regenerates /verif/MANIFEST.json from the table below (single source of truth for the interface)."""
import json, os, sys
sys.path.insert(0, os.path.dirname(os.path.dirname(os.path.abspath(__file__))))

# property -> (engine, technique, level text, level note, design ref)
CLAIMED = {
    "C21": ("varint", "TLC model checking of Varint.tla + spec->impl case replay + TLC trace validation of recorded calls",
            "The varint codec is specified in TLA+ (Varint.tla over BigInt.tla); TLC checks the bijection/minimality laws on every "
            "encoding of <=2 bytes, boundary-structured encodings up to 9 bytes and all width-boundary values, emits the expected "
            "result of each as a case that is replayed into read_varint/write_varint, and validates recorded random calls line by "
            "line (TraceVarint). An exhaustive <=3 (quick) / <=4 (thorough) byte sweep of the implementation checks the laws.",
            "Trusted: TLC, the BigInt module (self-checked by MCBigInt), the harness's JSON projection. Values outside 56 bits are outside the format.",
            "DESIGN.md section 5 C21"),
}

NOT_YET = "not claimed yet in this round: the specification module / engine for it is still being built (DESIGN.md A.7)"
NA = {
    "C32": "agreement with independent implementations of BLS12-381/secp/keccak cannot be decided by a TLA+ specification, and no independent library (py_ecc, python-ecdsa, pycryptodome) is installed; see DESIGN.md section 6",
}

ENGINES = {
    "varint": ("spec/Varint.tla spec/MCVarint.tla spec/TraceVarint.tla harness/src/bin/varint.rs engines/varint.py", "TLA+ codec spec, TLC MC + S->I replay + I->S trace validation"),
}


def main():
    props = [json.loads(l)["id"] for l in open(os.path.join(os.path.dirname(__file__), "..", "properties.jsonl"))]
    checks = []
    for pid in props:
        if pid in CLAIMED:
            eng, tech, text, note, ref = CLAIMED[pid]
            checks.append({
                "property_id": pid,
                "quick_cmd": "./check.py %s --tier quick" % pid,
                "thorough_cmd": "./check.py %s --tier thorough" % pid,
                "evidence_file": "/verif/evidence/%s.json" % pid,
                "replay_cmd_template": "./check.py replay {path}",
                "engine": eng,
                "level_claimed": {"category": "model_checking", "text": text, "design_ref": ref},
                "level_note": note,
                "technique": tech,
            })
    na = []
    for pid in props:
        if pid not in CLAIMED:
            na.append({"property_id": pid, "reason": NA.get(pid, NOT_YET)})
    engines = []
    for name, (path, kind) in ENGINES.items():
        engines.append({"name": name, "path": path, "kind_free_text": kind,
                        "serves_properties": [p for p in props if p in CLAIMED and CLAIMED[p][0] == name]})
    m = {
        "version": 1,
        "setup_cmd": "./setup.sh",
        "hooks": {
            "guard": "--cfg clvmr_verif",
            "enable": "RUSTFLAGS in /verif/harness/.cargo/config.toml: --cfg clvmr_verif (the harness has a path dependency on /repo)",
            "baseline_off_cmd": "cd /repo && cargo nextest run --workspace --no-fail-fast --tool-config-file pb:/w/lib/nextest.toml --profile pb --test-threads 8 --offline || cargo test --workspace --no-fail-fast --offline",
            "source_commits": [],
            "add_only": True,
        },
        "engines": engines,
        "checks": checks,
        "not_applicable": na,
        "notes": "Model-based verification with explicit TLA+ specifications under /verif/spec; see DESIGN.md. Exit 2 = tool error (no verdict).",
    }
    with open(os.path.join(os.path.dirname(__file__), "..", "MANIFEST.json"), "w") as f:
        json.dump(m, f, indent=1)
    print("MANIFEST.json: %d checks, %d not_applicable" % (len(checks), len(na)))


if __name__ == "__main__":
    main()
