#!/usr/bin/env python3
"""Regenerates /verif/MANIFEST.json from the table below (single source of truth for the interface)."""
import json, os, sys
HERE = os.path.dirname(os.path.abspath(__file__))

TB = ("Trusted: TLC and its Json/IOUtils modules, BigInt.tla (self-checked by MCBigInt), the JDK SHA-256 behind Prim!SHA256, "
      "the harness's JSON projection of values. ")
RUNNOTE = (TB + "Bounded by generated inputs (not a proof); cryptographic operator results are recorded witnesses; runs above the "
           "evaluation caps of Ops.tla (bignum operands) are abstained and counted.")

def run_text(what):
    return ("Interp.tla is the run_program machine (three stacks, guards, budget, as-if allocator counters) over Ops.tla (every "
            "non-cryptographic operator with both cost models, reproducing all pinned op-tests vectors). The harness records runs of "
            "generated programs under the configurations the property relates; TLC (TraceRun.tla) re-executes the machine on every "
            "recorded run, one state per machine step, and decides " + what + ".")

# property -> (engine, technique, level text, level note, design ref)
CLAIMED = {
    "C01": ("run", "TLC trace validation: Interp.tla machine re-executed on recorded runs",
            run_text("that result, cost and failure of every recorded default-flag classic-operator run equal the specification's"),
            RUNNOTE + " The historical Python clvm package is not installed: the reference is the TLA+ transcription (DESIGN.md C01).", "5 C01"),
    "C19": ("incremental", "TLC model checking of add/undo histories + replay into Serializer + TLC trace validation",
            "Incremental.tla specifies add/undo histories, the assembled tree, a self-contained back-reference decoder and the three "
            "clauses; MCIncremental enumerates all histories at small scope and each is replayed into the real Serializer; recorded "
            "random histories are validated by TraceIncremental, which also classifies failing histories (classes F6a/F6b/F6c are "
            "known findings, computed by TLC from the history); IncrementalMech.tla models the shadow tree and derives those "
            "histories from the design.",
            TB + "Known findings mask other defects only inside their input classes.", "5 C19"),
    "C20": ("serde2026", "TLC model checking of decoder/probe/serializer machines + case replay + TLC trace validation",
            "Ser2026.tla transcribes the 2026 decoder, length probe and serializer as machines plus declarative definitions; "
            "MCSer2026 checks round trip, probe = consumed, strict subset of lenient and rejection of the magic prefix by the classic "
            "size rule over all small trees and structured byte strings and emits every case for replay; recorded ser/de/len/magic "
            "events are validated by TraceSer2026.", TB + "Allocator limits inside the decoder are not modelled.", "5 C20"),
    "C21": ("varint", "TLC model checking of Varint.tla + spec->impl case replay + TLC trace validation of recorded calls",
            "The varint codec is specified in TLA+ (Varint.tla over BigInt.tla); TLC checks the bijection/minimality laws on every "
            "encoding of <=2 bytes, boundary-structured encodings up to 9 bytes and all width-boundary values, emits the expected "
            "result of each as a case that is replayed into read_varint/write_varint, and validates recorded random calls line by "
            "line (TraceVarint). An exhaustive <=3 (quick) / <=4 (thorough) byte sweep of the implementation checks the laws.",
            TB + "Values outside 56 bits are outside the format.", "5 C21"),
    "C22": ("hash", "TLC model checking of the hashing machines + case replay + TLC trace validation (SHA-256 via the one override)",
            "TreeHash.tla defines TH recursively and transcribes tree_hash_costed, tree_hash_from_stream and parse_triples as "
            "machines; MCHash runs them in lockstep on all small trees/DAGs (every machine = TH) and emits cases; recorded hash "
            "events (eight implementations per tree) are compared with TH by TraceHash.", TB, "5 C22"),
    "C24": ("hash", "TLC model checking of the intern machine against the declarative meaning + replay + trace validation",
            "Intern.tla models intern_tree with its maps and states the C24 clauses declaratively; MCHash checks machine = meaning "
            "on all small heaps with sharing; recorded intern events are checked clause by clause by TraceHash.", TB, "5 C24"),
}


def _rp(pid, what, note_extra=""):
    CLAIMED[pid] = ("run", "TLC trace validation: Interp.tla re-executed on recorded runs + relation between recorded variants decided by TraceRun.tla",
                    run_text(what), RUNNOTE + note_extra, "5 " + pid)

_rp("C02", "the budget relations between the recorded variants of each case (budgets C-1, C, C+1, 2C+7, 1, 2^64-1 and random ones against the unlimited run): success implies cost <= M and the same result/cost, every failing smaller budget fails with CostExceeded, M >= C succeeds and M < C fails unless the specification saw a cost-exempt guard, and succeeding budgets are upward closed")
_rp("C03", "that the recorded outcome is identical for a fresh allocator, an allocator with unrelated earlier allocations and runs (failed runs, validated BLS points), and a program/environment rebuilt with every atom as concat-of-halves heap bytes or as a substring view")
_rp("C04", "that the recorded result, cost, error message and the three allocator counters are identical with and without ENABLE_GC")
_rp("C07", "that a success under F+restriction flags (random subsets, and MEMPOOL_MODE) implies the same success under F, and a success under F implies the same success under F+RELAXED_BLS")
_rp("C08", "that whenever the extension-aware dialect succeeds, the recorded run of an extension-unaware wrapper dialect (no softfork extension known, 4-byte secp opcodes unassigned) succeeds with the same result, cost and allocator counters")
_rp("C11", "that when both cost models succeed the recorded result trees are identical")
_rp("C23", "that the recorded cost of (sha256tree (q . X)) is less than that of the ChiaLisp sha256tree program on X under both cost models (both runs re-executed by the machine)")
_rp("C25", "that no recorded run (ChiaDialect, unaware wrapper, RuntimeDialect; all flag sets; random budgets) panics or reports InternalError", " Level is closer to exploration: the specification adds the conformance check of every returned outcome.")
_rp("C30", "that RuntimeDialect with the standard table gives the same outcome as ChiaDialect (flags minus ENABLE_GC/DISABLE_OP) on every run in which the specification machine saw no guard and no operator outside the table")
_rp("C31", "on the guard_enter/guard_exit events of the cfg-guarded hook that a completed guard leaves nil, restores the three counters to their values at entry and has consumed exactly its declared cost unless it is cost-exempt")
CLAIMED["C05"] = ("run", "TLC comparison (TraceSame.tla) of traces recorded by three separately built harness binaries + TLC trace validation of the default build",
    "The default, no-fastpath and counters+pre-eval (observe-only callback) builds of the harness record the same seeded cases (fast-path-biased programs, direct operator calls); TLC requires the three traces to be identical line by line (result, cost, error message, counters) and validates the default build's runs against Interp.tla.",
    RUNNOTE, "5 C05")
OPSNOTE = TB + "Cryptographic operators and bignum operands above the evaluation caps of Ops.tla are abstained (counted)."
CLAIMED["C06"] = ("ops", "TLC trace validation of direct operator calls against Ops.tla + pair relation decided by TraceOps.tla",
    "div, divmod, mod, modpow (and other operators) are called through ChiaDialect::op with and without MALACHITE on the same arguments, flags and budget; TLC re-evaluates each call with Ops.tla (which has no notion of a backend) and requires the two recorded outcomes (value, cost, error kind) to be identical.", OPSNOTE, "5 C06")
CLAIMED["C09"] = ("ops", "TLC trace validation of op_unknown calls against the code's rule and against the published rule (OpUnknownPublished)",
    "Unknown opcodes (0-6 bytes over a boundary alphabet, argument lengths up to 2^20 carried symbolically, pairs, strict mode, budgets around the cost, both cost models) are called through ChiaDialect::op; TLC decides each call with the published rule (exact product); the pre-hard-fork wrapping product is known finding F4.", OPSNOTE, "5 C09")
CLAIMED["C10"] = ("ops", "TLC trace validation of operator calls against the cost formulas of Ops.tla (which reproduce every pinned op-tests cost)",
    "Every op-tests vector under its flag sets plus random argument lists per operator (budgets at C-1/C/C+1, both cost models, accumulator-size stress) are re-evaluated by Ops.tla in TLC; a successful call whose cost or value differs, or a differing budget verdict, is a violation.", OPSNOTE, "5 C10")
CLAIMED["C17"] = ("serdebr", "TLC model checking of decoder machines and serializer relation + case replay + TLC trace validation",
    "SerBackrefs.tla: vec-stack decoder, legacy decoder, length probe as machines, declarative DecodeBR, serializer as a relation (plus an exact model of the path search as diagnostic); MCSerBackrefs checks every relation output decodes back, is canonical and not longer than classic; recorded serializer outputs are checked by TraceSerBackrefs (decodes to the tree, canonical, length, run-to-run equality, re-serialization).", TB, "5 C17")
CLAIMED["C18"] = ("serdebr", "TLC model checking (three decoder machines in lockstep) + case replay + TLC trace validation",
    "The current decoder, the legacy decoder and the length probe are three machines of SerBackrefs.tla run in lockstep on all structured byte strings up to 8 bytes (same accept set, tree, pair count incl. ghost pairs, probe = consumed); every case is replayed into the implementation; recorded decoder calls on generated/mutated inputs are validated by TraceSerBackrefs.", TB, "5 C18")

ALNOTE = TB + "num-bigint/malachite byte conversions are assumed. Known finding F5 masks other defects only inside its input class (new_substr of an inline small atom with a non-canonical slice)."
CLAIMED["C12"] = ("alloc", "TLC model checking (mechanism refines property model) + behaviour replay + TLC trace validation",
    "Alloc.tla is the property (every atom a separately stored byte string, three counters, checkpoints); AllocMech.tla transcribes allocator.rs (u8/atom/pair vectors, inline small atoms, ghost counters, transparent restore, maybe_restore_with_node). MCAlloc checks, over all bounded histories of public operations on a boundary alphabet, that the mechanism refines the model (and reproduces finding F5 at design level when the code's substr-of-inline-atom copy is switched on); every behaviour is replayed on a real Allocator with the counters compared after each call; recorded random histories are validated by TraceAlloc.", ALNOTE, "5 C12")
CLAIMED["C13"] = ("alloc", "TLC model checking with small caps + behaviour replay + TLC trace validation near the real caps (allocator level and whole-program level)",
    "MCAlloc with small caps checks: caps never exceeded, an operation fails with the right error exactly when completing it would exceed the cap, a failed call changes nothing. Recorded histories on allocators pre-loaded to within 0..3 of the real caps (add_ghost_atom/add_ghost_pair, new_limited) are validated by TraceAlloc; generated programs run on such pre-loaded allocators are re-executed by the Interp machine (which carries the as-if counters and the caps) and the hook's per-step counter maxima are checked against the caps.", ALNOTE, "5 C13")
CLAIMED["C14"] = ("alloc", "TLC model checking (reads, immutability, canonical integers) + exhaustive short byte strings + replay + trace validation",
    "MCAlloc checks on every reachable state that reading any still-valid node returns what it was created with, atom_eq = byte equality, small_number defined iff minimal encoding < 2^26, and integer constructors store the minimal two's-complement encoding (+-2^k+-1 at 20 bit positions); all byte strings <= 2 bytes in both representations are swept; recorded histories carry the projection of all valid nodes, compared by TraceAlloc.", ALNOTE, "5 C14")
SENOTE = TB + "Atoms above 2^28 bytes only in the thorough tier (zero-filled buffers); known finding F8 (4 GiB atom) is reachable only there."
CLAIMED["C15"] = ("serde", "TLC model checking of encode/decode machines + case replay + TLC trace validation",
    "SerClassic.tla: recursive Encode, prefix arithmetic over BigInt up to 2^34, the decode machine, canonical and length machines. MCSerClassic checks round trip, canonicity and the three lengths on all trees <= 7 nodes, the converse on all short byte strings, and the prefix lemma at every class boundary; every case is replayed; recorded ser/len/de/canon/reser events incl. symbolic giant atoms are validated by TraceSerClassic.", SENOTE, "5 C15")
CLAIMED["C16"] = ("serde", "TLC model checking (decode machine = recursive descent, projections) + case replay + TLC trace validation",
    "node_from_bytes, parse_triples and tree_hash_from_stream are projections of one decode machine in SerClassic.tla; MCSerClassic checks termination and canonical <=> definition on all structured byte strings up to 5-8 bytes and emits accept/consumed/tree/triples/hash/canonical for replay; recorded random, mutated and truncated inputs are validated by TraceSerClassic.", SENOTE + " The allocator pair limit (62.5M pairs) is outside the modelled domain.", "5 C16")
CLAIMED["C29"] = ("serde", "TLC model checking of the limited encoder machine + exhaustive limits replay + trace validation",
    "EncodeLimited(t, L) = Encode(t) if it fits else OutOfMemory; the encoder machine over a limited writer is model-checked against it for all small trees and all L in 0..len+1, all cases are replayed into node_to_bytes_limit / node_to_bytes_backrefs_limit; recorded calls on random trees with every limit are validated by TraceSerClassic.", TB, "5 C29")

PYNOTE = TB + "The wheel is rebuilt from /repo/wheel by every check (cargo decides staleness; the .py files are re-copied). Inputs near the 500 MB LIMIT_HEAP limit are not reached."
CLAIMED["C26"] = ("py", "TLC trace validation: Python and Rust runs of the same serialized input re-executed by Interp.tla + py=rust relation; codec events against the serde specs",
    "For generated (program bytes, env bytes, budget, 32-bit flag word) the harness records the Rust replica of the binding's steps and the Python call; TracePyRun.tla re-executes the Interp machine for both (flag truncation and heap limit computed in TLA+) and requires the same cost/result or the same error message; ser_*/deser_*/LazyNode views are recorded for Python and Rust and compared with each other and with SerClassic/SerBackrefs/Ser2026 by TracePy.tla.", PYNOTE, "5 C26")
CLAIMED["C27"] = ("py", "TLC model checking of LazyConv.tla (explicit Python heap with address reuse) + case replay into the wheel + TLC trace validation",
    "LazyConv.tla models clvm_tree_to_lazy_node with object addresses, fresh temporaries on .pair access, freeing and address reuse, and the address-keyed memo: TLC finds the wrong-tree counterexample for the pre-fix design and proves result = source when visited objects are kept alive (the repaired code); all enumerated trees are replayed through every wrapper class of the wheel; recorded conversions of random trees through 11 wrappers are validated by TracePy.tla.", PYNOTE, "5 C27")
CLAIMED["C28"] = ("py", "TLC trace validation of the pure-Python helpers against SerClassic/BigInt/TreeHash/Interp",
    "Recorded calls of sexp_to_bytes, the stream deserializers, int_to_bytes/int_from_bytes, curry/uncurry/curry_hash and runs of curried programs are validated by TracePy.tla / TracePyRun.tla: bytes = Encode, accept set and tree = the classic decode machine and the Rust decoder, integers = ZToAtom/ZFromAtom, curry_hash = TH(curried program), uncurry(curry) = identity, curried run = module run on prepended arguments (both re-executed by Interp).", PYNOTE, "5 C28")


def _more(pid, tech, text):
    e, t, x, n, r = CLAIMED[pid]
    CLAIMED[pid] = (e, t + tech, x + " " + text, n, r)

MCI = ("MCInterp.tla additionally enumerates a bounded universe of programs (every operator at its arities over boundary alphabets, "
       "apply / ((X)) / improper forms, guards, unknown operators) under the configurations of all relational properties: TLC checks the "
       "properties as invariants of the specification (self-composition) and every (program, configuration, budget) is replayed into "
       "run_program; programs on which the code disagrees are re-recorded and decided by TraceRun.tla.")
for _p in ("C01", "C02", "C07", "C08", "C11", "C25", "C30", "C31"):
    _more(_p, " + TLC model checking of a bounded program universe (MCInterp.tla) replayed into run_program", MCI)
_more("C01", " + RefEval.tla (big-step reference semantics = machine, MCRefEval)",
      "RefEval.tla is a big-step transcription of the reference evaluator; TLC checks machine = reference on the same universe (named adapters list the deliberate deviations).")
MCO = ("MCOps.tla enumerates every non-cryptographic operator x argument lists of arity 0..3 over boundary alphabets (limb boundaries, long atoms, shift counts) "
       "x both cost models x budgets {unlimited, cost, cost-1}; TLC checks design-level laws and every case is replayed into ChiaDialect::op.")
for _p in ("C01", "C02", "C10", "C11", "C25"):
    _more(_p, " + TLC enumeration of operator calls (MCOps.tla) replayed into ChiaDialect::op", MCO)
_more("C01", "", "For C01 the MCOps cases with classic operators and default flags count (success/failure, cost, value).")
_more("C02", "", "Budgets also include every value across a guard's window (entry cost E .. E + declared + 3, from the hook events) and the failure threshold T-1, T, T+1 of failing runs (smallest budget under which the run fails for its own reason).")
_more("C10", "", "Every random call and every MCOps case is repeated with the argument tree stored with maximal node sharing (no operator's cost or result may depend on sharing).")
_more("C30", "", "Both dialects are also run under budgets around the cost of successful runs and around the failure threshold of failing ones.")
_more("C04", "", "GC result kinds include atoms that begin in bytes older than the candidate's checkpoint; limited allocators (limit = the run's own maximum) are part of the profile.")
_more("C07", " + MCF9.tla (design-level reproduction of finding F9)",
      "The restriction-sensitive generator covers modpow, operand sizes at the LIMITS/DISABLE_OP bounds (incl. sign-byte spellings), BLS scalars, unknown operators, non-canonical guard arguments, invalid points and 21-deep guards; MCF9.tla shows at design level that CANONICAL_INTS alone is not a pure restriction (known finding F9) and that it is one together with NO_UNKNOWN_OPS.")
_more("C09", " + MCUnknown.tla (TLC) + ApaUnknown.tla (Apalache, unbounded integers)",
      "MCUnknown enumerates opcode x argument-length classes (invariants: code rule = published rule outside the corner, dispatch, classes) and every case is replayed; ApaUnknown proves over unbounded integers that the checked rule equals the published one, that the wrapping rule equals it below 2^64, and that only the corner (product >= 2^64 with low 64 bits <= 2^32-1) differs, and exhibits a corner witness.")
_more("C21", " + ApaVarint.tla (Apalache: widths partition the 56-bit range)",
      "ApaVarint proves for all integers that exactly one minimal width fits each in-range value and that widths are nested.")
_more("C23", " + MCShaTree.tla (TLC) + ApaShaTree.tla (Apalache, inductive over all trees)",
      "Trees are also run with equal sub-trees stored as one node and as doubling trees (cost must not depend on sharing enough to exceed ChiaLisp); MCShaTree checks the linearity constants of both costs on all small trees, ApaShaTree proves by induction over (pairs, atoms, bytes) that the native cost formula stays below the ChiaLisp one for every tree under both cost models.")
_more("C05", "", "Restriction shapes (256-byte factors, products over 1024 bytes with LIMITS) and deep environment paths (7/15/23/31 steps) are part of the profile.")
_more("C06", "", "A check-order block crosses every zero-divisor spelling, pair and oversized operands (256/257/2048/2049 bytes) with budgets around the operator's cost.")
_more("C13", "", "A heap excess at run level that is explained by the call site of known finding F5 (bytes copied by substr on inline atoms, counted by the harness) is reported as F5; any other excess is a violation.")
_more("C26", "", "Every deser case is repeated through the documented wrappers clvm_rs.serde.deserialize / serialize with the same options.")
_more("C27", "", "Storage classes with a short-lived second reference to fresh children (one object as both children, LRU views, last-held slot) are among the wrappers.")

NOT_YET = "not claimed yet in this round: the specification module / engine for it is still being built (DESIGN.md A.7)"
NA = {
    "C32": "agreement with independent implementations of BLS12-381/secp/keccak cannot be decided by a TLA+ specification, and no independent library (py_ecc, python-ecdsa, pycryptodome) is installed; see DESIGN.md section 6",
}

ENGINES = {
    "run": ("spec/Interp.tla spec/Ops.tla spec/Sexp.tla spec/TraceRun.tla harness/src/bin/run.rs engines/run.py", "run_program machine in TLA+, TLC trace validation of recorded runs and variant relations"),
    "ops": ("spec/Ops.tla spec/TraceOps.tla harness/src/bin/ops.rs engines/ops.py", "operators in TLA+, direct operator calls validated by TLC"),
    "alloc": ("spec/Alloc.tla spec/AllocMech.tla spec/MCAlloc.tla spec/TraceAlloc.tla harness/src/bin/alloc.rs engines/alloc.py", "allocator property model + mechanism refinement, replay and trace validation"),
    "serde": ("spec/SerClassic.tla spec/MCSerClassic.tla spec/TraceSerClassic.tla harness/src/bin/serde.rs engines/serde.py", "classic serialization"),
    "serdebr": ("spec/SerBackrefs.tla spec/MCSerBackrefs.tla spec/TraceSerBackrefs.tla harness/src/bin/serdebr.rs engines/serdebr.py", "back-reference serialization"),
    "incremental": ("spec/Incremental.tla spec/IncrementalMech.tla spec/MCIncremental.tla spec/TraceIncremental.tla harness/src/bin/incser.rs engines/incremental.py", "incremental serializer histories"),
    "serde2026": ("spec/Ser2026.tla spec/MCSer2026.tla spec/TraceSer2026.tla harness/src/bin/serde2026.rs engines/serde2026.py", "serde_2026 format"),
    "varint": ("spec/Varint.tla spec/MCVarint.tla spec/TraceVarint.tla harness/src/bin/varint.rs engines/varint.py", "varint codec"),
    "hash": ("spec/TreeHash.tla spec/Intern.tla spec/MCHash.tla spec/TraceHash.tla harness/src/bin/hash.rs engines/hash.py", "tree hashing and interning"),
    "py": ("pyharness/ engines/py.py", "Python wheel"),
}


def main():
    props = [json.loads(l)["id"] for l in open(os.path.join(HERE, "..", "properties.jsonl"))]
    checks = []
    for pid in props:
        if pid in CLAIMED:
            eng, tech, text, note, ref = CLAIMED[pid]
            checks.append({
                "property_id": pid,
                "quick_cmd": "./check.py %s --tier quick" % pid,
                "thorough_cmd": "./check.py %s --tier thorough" % pid,
                "evidence_file": "/verif/evidence/%s.json" % pid,
                "replay_cmd_template": "./check.py replay {path}",
                "engine": eng,
                "level_claimed": {"category": "model_checking", "text": text, "design_ref": "DESIGN.md section " + ref},
                "level_note": note,
                "technique": tech,
            })
    na = [{"property_id": pid, "reason": NA.get(pid, NOT_YET)} for pid in props if pid not in CLAIMED]
    engines = []
    for name, (path, kind) in ENGINES.items():
        serves = [p for p in props if p in CLAIMED and CLAIMED[p][0] == name]
        if serves:
            engines.append({"name": name, "path": path, "kind_free_text": kind, "serves_properties": serves})
    hooks_commits = []
    try:
        import subprocess
        o = subprocess.run(["git", "-C", "/repo", "log", "--format=%H %s"], capture_output=True, text=True).stdout
        hooks_commits = [l.split()[0] for l in o.splitlines() if l.split(" ", 1)[1].startswith("verif hook")]
    except Exception:
        pass
    m = {
        "version": 1,
        "setup_cmd": "./setup.sh",
        "hooks": {
            "guard": "--cfg clvmr_verif",
            "enable": "rustflags in /verif/harness/.cargo/config.toml: --cfg clvmr_verif (the harness has a path dependency on /repo)",
            "baseline_off_cmd": "cd /repo && (cargo nextest run --workspace --no-fail-fast --tool-config-file pb:/w/lib/nextest.toml --profile pb --test-threads 8 --offline || cargo test --workspace --no-fail-fast --offline)",
            "source_commits": hooks_commits,
            "add_only": True,
        },
        "engines": engines,
        "checks": checks,
        "not_applicable": na,
        "notes": "Model-based verification with explicit TLA+ specifications under /verif/spec; see DESIGN.md. Exit 2 = tool error (no verdict).",
    }
    with open(os.path.join(HERE, "..", "MANIFEST.json"), "w") as f:
        json.dump(m, f, indent=1)
    print("MANIFEST.json: %d checks, %d not_applicable" % (len(checks), len(na)))


if __name__ == "__main__":
    main()
