#!/usr/bin/env python3
"""Python side of the `py` engine (C26, C27, C28): calls the clvm_rs wheel (the package assembled
from /repo/wheel under --pkg) on the inputs the Rust harness `pyref` produced and records what the
wheel answers, in the JSON conventions of /verif/CONVENTIONS.md.  Exceptions are data.

  driver.py runs --pkg DIR  --in rust.ndjson  --out trace.ndjson   add the `py` end events to recorded runs
  driver.py codec --pkg DIR --in codec.ndjson --out trace.ndjson   add `py` to deser/len/triples events
  driver.py conv --pkg DIR  --in trees.ndjson --out trace.ndjson   C27: one `conv` event per tree and wrapper
  driver.py convcases --pkg DIR --in cases.ndjson --out mism.ndjson replay of MCLazyConv CASE lines
  driver.py pure --pkg DIR  --in X.ndjson     --out trace.ndjson   C28: pyser / pydeser / int events
  driver.py curry --pkg DIR --in curry.ndjson --out trace.ndjson --cases cases.ndjson
"""
import io, json, sys

MAX_NESTED_DEPTH = 48
sys.setrecursionlimit(10000)

# ---------------------------------------------------------------------------
# trees: Python form = bytes | (left, right);  JSON form see CONVENTIONS.md


def tree_from_json(j):
    if "t" in j:
        nodes = []
        for n in j["t"]:
            if "a" in n:
                nodes.append(bytes(n["a"]))
            else:
                nodes.append((nodes[n["p"][0] - 1], nodes[n["p"][1] - 1]))
        return nodes[-1]
    # nested (shallow by construction), iterative anyway
    ops = [("v", j)]
    vals = []
    while ops:
        k, x = ops.pop()
        if k == "v":
            if "a" in x:
                vals.append(bytes(x["a"]))
            else:
                ops.append(("b", None))
                ops.append(("v", x["r"]))
                ops.append(("v", x["f"]))
        else:
            r = vals.pop()
            f = vals.pop()
            vals.append((f, r))
    return vals.pop()


def tree_depth(t):
    m = 0
    st = [(t, 1)]
    while st:
        x, d = st.pop()
        if d > m:
            m = d
        if isinstance(x, tuple):
            st.append((x[0], d + 1))
            st.append((x[1], d + 1))
    return m


def tree_to_json(t):
    flat = tree_depth(t) > MAX_NESTED_DEPTH
    ops = [("v", t)]
    vals = []
    tab = []
    while ops:
        k, x = ops.pop()
        if k == "v":
            if isinstance(x, tuple):
                ops.append(("b", None))
                ops.append(("v", x[1]))
                ops.append(("v", x[0]))
            else:
                if flat:
                    tab.append({"a": list(x)})
                    vals.append(len(tab))
                else:
                    vals.append({"a": list(x)})
        else:
            r = vals.pop()
            f = vals.pop()
            if flat:
                tab.append({"p": [f, r]})
                vals.append(len(tab))
            else:
                vals.append({"f": f, "r": r})
    return {"t": tab} if flat else vals.pop()


class ViewError(Exception):
    pass


def walk(obj, strict_views=False):
    """the tree an object with the atom/pair protocol denotes (iterative).  With strict_views the
    LazyNode contract is checked on the way: exactly one of atom / pair, pair is a 2-tuple."""
    ops = [("v", obj)]
    vals = []
    while ops:
        k, x = ops.pop()
        if k == "v":
            a = x.atom
            p = x.pair
            if strict_views:
                if (a is None) == (p is None):
                    raise ViewError("atom and pair both %s" % ("None" if a is None else "set"))
                if p is not None and not (isinstance(p, tuple) and len(p) == 2):
                    raise ViewError("pair is not a 2-tuple")
                if a is not None and not isinstance(a, bytes):
                    raise ViewError("atom is not bytes")
            if p is not None and a is None:
                ops.append(("b", None))
                ops.append(("v", p[1]))
                ops.append(("v", p[0]))
            else:
                vals.append(bytes(a))
        else:
            r = vals.pop()
            f = vals.pop()
            vals.append((f, r))
    return vals.pop()


def n_le(n):
    out = []
    while n > 0:
        out.append(n & 255)
        n >>= 8
    return out


def le_n(d):
    n = 0
    for i, x in enumerate(d or []):
        n |= x << (8 * i)
    return n


def exc_json(e):
    return {"ok": False, "exc": type(e).__name__, "msg": str(e.args[0]) if e.args else ""}


# error message -> EvalErr variant name (the reverse of the Display strings of src/error.rs)
MSG_KIND = {
    "bad encoding": "SerializationError",
    "invalid backreference during deserialisation": "SerializationBackreferenceError",
    "Out of Memory": "OutOfMemory",
    "path into atom": "PathIntoAtom",
    "too many pairs": "TooManyPairs",
    "Too Many Atoms": "TooManyAtoms",
    "cost exceeded or below zero": "CostExceeded",
    "unknown softfork extension": "UnknownSoftforkExtension",
    "softfork specified cost mismatch": "SoftforkCostMismatch",
    "clvm raise": "Raise",
    "Invalid Nil Terminator in operand list": "InvalidNilTerminator",
    "Division by zero": "DivisionByZero",
    "Value Stack Limit Reached": "ValueStackLimitReached",
    "Environment Stack Limit Reached": "EnvironmentStackLimitReached",
    "Shift too large": "ShiftTooLarge",
    "Reserved operator": "Reserved",
    "invalid operator": "Invalid",
    "unimplemented operator": "Unimplemented",
    "bls_pairing_identity failed": "BLSPairingIdentityFailed",
    "bls_verify failed": "BLSVerifyFailed",
    "Secp256 Verify Error: failed": "Secp256Failed",
    "softfork stack depth exceeded": "SoftforkStackDepthExceeded",
}
MSG_PREFIX = [("Internal Error: ", "InternalError"), ("InvalidOperatorArg: ", "InvalidOpArg"),
              ("InvalidAllocatorArg: ", "InvalidAllocArg")]


def kind_of_msg(msg):
    if msg in MSG_KIND:
        return MSG_KIND[msg]
    for p, k in MSG_PREFIX:
        if isinstance(msg, str) and msg.startswith(p):
            return k
    return "?"


class Emit:
    def __init__(self, path):
        self.f = open(path, "w")
        self.n = 0

    def __call__(self, ev):
        self.f.write(json.dumps(ev, separators=(",", ":")) + "\n")
        self.n += 1

    def close(self):
        self.f.close()


def lines(path):
    with open(path) as f:
        for ln in f:
            if ln.strip():
                yield json.loads(ln)


# ---------------------------------------------------------------------------
# C26: runs


def py_run(m, pb, eb, budget, word):
    try:
        cost, node = m.run_serialized_chia_program(pb, eb, budget, word)
        return {"ok": True, "cost": n_le(cost), "val": tree_to_json(walk(node, True))}
    except ValueError as e:
        if len(e.args) == 2 and isinstance(e.args[0], str):
            try:
                en = tree_to_json(walk(e.args[1], True))
            except Exception as e2:
                en = {"exc": repr(e2)}
            return {"ok": False, "msg": e.args[0], "kind": kind_of_msg(e.args[0]), "enode": en}
        if len(e.args) == 1 and isinstance(e.args[0], str):
            return {"ok": False, "msg": e.args[0], "kind": kind_of_msg(e.args[0]), "pre": True}
        return {"ok": False, "pyexc": repr(e)}
    except BaseException as e:
        return {"ok": False, "pyexc": repr(e)}


def cmd_runs(m, inp, out):
    cur = None
    for e in lines(inp):
        if e["ev"] == "begin":
            cur = e
            out(e)
        elif e["ev"] == "end":
            out(e)
            vn = e.get("vn", "")
            r = py_run(m, bytes(cur["pbytes"]), bytes(cur["ebytes"]), le_n(cur["budget"]), le_n(cur["flagword"]))
            r.update({"ev": "end", "case": e["case"], "variant": vn + "py",
                      "rels": [{"k": "py_eq_rust", "to": vn + "rust"}] + list(e.get("pyrels") or [])})
            out(r)
        elif e["ev"] == "prefail":
            e["py"] = py_run(m, bytes(e["pbytes"]), bytes(e["ebytes"]), le_n(e["budget"]), le_n(e["flagword"]))
            out(e)
        else:
            out(e)


# ---------------------------------------------------------------------------
# C26: codecs


def ser_all(m, node, level):
    def f(fn, **kw):
        try:
            return list(fn(node, **kw))
        except BaseException as e:
            return [999]        # an impossible byte string marks an error (the field stays a sequence for TLC)
    kw = {} if level is None else {"level": int(level)}
    return {"ser_legacy": f(m.ser_legacy), "ser_backrefs": f(m.ser_backrefs), "ser_2026": f(m.ser_2026, **kw)}


def cmd_codec(m, inp, out):
    for e in lines(inp):
        blob = bytes(e["blob"])
        if e["ev"] == "deser":
            fn = getattr(m, e["fn"])
            kw = {}
            if e["fn"] in ("deser_2026", "deser_auto"):
                if e.get("opt_max") is not None:
                    kw["max_atom_len"] = int(e["opt_max"])
                if e.get("opt_strict") is not None:
                    kw["strict"] = e["opt_strict"]
            try:
                node = fn(blob, **kw)
                py = {"ok": True, "tree": tree_to_json(walk(node, True))}
                py.update(ser_all(m, node, e.get("opt_level")))
            except ViewError as ex:
                py = {"ok": False, "views": str(ex)}
            except ValueError as ex:
                py = {"ok": False, "msg": ex.args[0] if ex.args else ""}
            except BaseException as ex:
                py = {"ok": False, "pyexc": repr(ex)}
            e["py"] = py
            # the same call through the documented wrappers clvm_rs.serde.deserialize / serialize
            from clvm_rs import serde as S
            fmt = {"deser_legacy": "legacy", "deser_backrefs": "backrefs", "deser_2026": "2026", "deser_auto": "auto"}[e["fn"]]
            kw2 = {}
            if e.get("opt_max") is not None:
                kw2["max_atom_len"] = int(e["opt_max"])
            if e.get("opt_strict") is not None:
                kw2["strict"] = e["opt_strict"]
            try:
                node = S.deserialize(blob, fmt, **kw2)
                pw = {"ok": True, "tree": tree_to_json(walk(node, True))}

                def f(fm, **kw):
                    try:
                        return list(S.serialize(node, fm, **kw))
                    except BaseException:
                        return [999]
                lk = {} if e.get("opt_level") is None else {"level": int(e["opt_level"])}
                pw.update({"ser_legacy": f("legacy"), "ser_backrefs": f("backrefs"), "ser_2026": f("2026", **lk)})
            except ViewError as ex:
                pw = {"ok": False, "views": str(ex)}
            except ValueError as ex:
                pw = {"ok": False, "msg": ex.args[0] if ex.args else ""}
            except BaseException as ex:
                pw = {"ok": False, "pyexc": repr(ex)}
            e["pyw"] = pw
        elif e["ev"] == "len":
            try:
                e["py"] = {"ok": True, "len": m.serialized_length(blob)}
            except ValueError as ex:
                e["py"] = {"ok": False, "msg": ex.args[0] if ex.args else ""}
            except BaseException as ex:
                e["py"] = {"ok": False, "pyexc": repr(ex)}
        elif e["ev"] == "triples":
            try:
                t, h = m.deserialize_as_tree(blob, e["hashes"])
                e["py"] = {"ok": True, "triples": [list(x) for x in t], "hashes": [] if h is None else [list(x) for x in h]}
            except ValueError as ex:
                e["py"] = {"ok": False, "msg": ex.args[0] if ex.args else ""}
            except BaseException as ex:
                e["py"] = {"ok": False, "pyexc": repr(ex)}
        out(e)


# ---------------------------------------------------------------------------
# C27: clvm_tree_to_lazy_node over every kind of CLVM object


class FreshStorage:
    """a CLVMStorage whose `.pair` builds NEW child objects on every access (like LazyNode)"""
    __slots__ = ("t",)

    def __init__(self, t):
        self.t = t

    @property
    def atom(self):
        return None if isinstance(self.t, tuple) else self.t

    @property
    def pair(self):
        if isinstance(self.t, tuple):
            return (FreshStorage(self.t[0]), FreshStorage(self.t[1]))
        return None


class FreshSameStorage:
    """fresh children on every access; ONE object serves as both children of a pair (x . x)"""
    __slots__ = ("t",)

    def __init__(self, t):
        self.t = t

    @property
    def atom(self):
        return None if isinstance(self.t, tuple) else self.t

    @property
    def pair(self):
        if isinstance(self.t, tuple):
            left = FreshSameStorage(self.t[0])
            right = left if self.t[1] == self.t[0] else FreshSameStorage(self.t[1])
            return (left, right)
        return None


class LruStorage:
    """children are views taken from a small bounded LRU cache shared by the whole tree: a view lives as long as
    it stays in the cache (a second, short-lived reference) and is rebuilt after eviction"""
    __slots__ = ("t", "path", "cache")

    def __init__(self, t, path, cache):
        self.t = t
        self.path = path
        self.cache = cache          # (dict path -> view, list of paths in LRU order, capacity)

    @property
    def atom(self):
        return None if isinstance(self.t, tuple) else self.t

    def _child(self, t, path):
        d, order, cap = self.cache
        v = d.get(path)
        if v is None:
            v = LruStorage(t, path, self.cache)
            d[path] = v
            order.append(path)
            while len(order) > cap:
                d.pop(order.pop(0), None)
        else:
            order.remove(path)
            order.append(path)
        return v

    @property
    def pair(self):
        if isinstance(self.t, tuple):
            return (self._child(self.t[0], self.path + "f"), self._child(self.t[1], self.path + "r"))
        return None


class LastHeldStorage:
    """fresh children; the most recently built pair of children is also held in one shared slot until the next
    `.pair` access anywhere in the tree overwrites it"""
    __slots__ = ("t", "slot")

    def __init__(self, t, slot):
        self.t = t
        self.slot = slot

    @property
    def atom(self):
        return None if isinstance(self.t, tuple) else self.t

    @property
    def pair(self):
        if isinstance(self.t, tuple):
            p = (LastHeldStorage(self.t[0], self.slot), LastHeldStorage(self.t[1], self.slot))
            self.slot[0] = p
            return p
        return None


class StableStorage:
    """a CLVMStorage that creates its children once and keeps them"""
    __slots__ = ("t", "_p")

    def __init__(self, t):
        self.t = t
        self._p = None

    @property
    def atom(self):
        return None if isinstance(self.t, tuple) else self.t

    @property
    def pair(self):
        if isinstance(self.t, tuple):
            if self._p is None:
                self._p = (StableStorage(self.t[0]), StableStorage(self.t[1]))
            return self._p
        return None


class SharedStorage:
    """hash-consed objects: equal sub-trees are one Python object (a DAG)"""
    __slots__ = ("atom", "pair")

    def __init__(self, atom, pair):
        self.atom = atom
        self.pair = pair


def shared_of(t):
    memo = {}
    ops = [("v", t)]
    vals = []
    while ops:
        k, x = ops.pop()
        if k == "v":
            if isinstance(x, tuple):
                ops.append(("b", None))
                ops.append(("v", x[1]))
                ops.append(("v", x[0]))
            else:
                key = ("a", x)
                if key not in memo:
                    memo[key] = SharedStorage(x, None)
                vals.append(memo[key])
        else:
            r = vals.pop()
            f = vals.pop()
            key = ("p", id(f), id(r))
            if key not in memo:
                memo[key] = SharedStorage(None, (f, r))
            vals.append(memo[key])
    return vals.pop()


def program_of(Program, t):
    """Program built with new_atom / new_pair (iteratively)"""
    ops = [("v", t)]
    vals = []
    while ops:
        k, x = ops.pop()
        if k == "v":
            if isinstance(x, tuple):
                ops.append(("b", None))
                ops.append(("v", x[1]))
                ops.append(("v", x[0]))
            else:
                vals.append(Program.new_atom(x))
        else:
            r = vals.pop()
            f = vals.pop()
            vals.append(Program.new_pair(f, r))
    return vals.pop()


WRAPPERS = ["program", "program_to", "program_parse", "program_from_bytes", "clvmtree", "stable", "shared",
            "lazynode", "lazynode_backrefs", "fresh", "to_bytes_2026", "fresh_same", "fresh_lru2", "fresh_lru5", "fresh_held"]
FRESH_WRAPPERS = {"lazynode", "lazynode_backrefs", "fresh", "fresh_same", "fresh_lru2", "fresh_lru5", "fresh_held"}
# one Python tree whose leaves are LazyNode handles of SEVERAL allocators (separate deser_* calls); these kinds
# derive their own source tree from the generated one (the `src` of the event is the tree the object denotes)
MIXED_WRAPPERS = ["mixed_d1", "mixed_d2", "mixed_d3", "mixed_fresh_d2", "mixed_program_d2", "mixed_similar",
                  "mixed_similar_list", "mixed_twice", "mixed_siblings"]


class PairObj:
    """an ordinary Python pair object holding two arbitrary CLVM objects (possibly LazyNode handles)"""
    __slots__ = ("l", "r")
    atom = None

    def __init__(self, l, r):
        self.l = l
        self.r = r

    @property
    def pair(self):
        return (self.l, self.r)


class FreshPairObj:
    """like PairObj, but nested pair objects are rebuilt on every `.pair` access; spec = (spec, spec) | leaf object"""
    __slots__ = ("spec",)
    atom = None

    def __init__(self, spec):
        self.spec = spec

    @property
    def pair(self):
        return tuple(FreshPairObj(x) if isinstance(x, tuple) else x for x in self.spec)


def classic_of(Program, t):
    return bytes(program_of(Program, t))


def lazy_leaf(mods, t, i):
    """a LazyNode for tree t out of its own allocator; the deserializer rotates with i"""
    m, Program, _ = mods
    b = classic_of(Program, t)
    k = i % 3
    if k == 0:
        return m.deser_legacy(b)
    if k == 1:
        return m.deser_backrefs(bytes(m.ser_backrefs(m.deser_legacy(b))))
    return m.deser_2026(bytes(m.ser_2026(m.deser_legacy(b))))


def mixed_spec(mods, t, depth, counter):
    """nested tuples down to `depth`, LazyNode leaves (each from a separate deserialization) below"""
    if depth == 0 or not isinstance(t, tuple):
        counter[0] += 1
        return lazy_leaf(mods, t, counter[0])
    return (mixed_spec(mods, t[0], depth - 1, counter), mixed_spec(mods, t[1], depth - 1, counter))


def pairs_of(spec, mk):
    return mk(pairs_of(spec[0], mk), pairs_of(spec[1], mk)) if isinstance(spec, tuple) else spec


def vary(t, k):
    """the same shape with every atom changed (k appended): equal NodePtr numbering, different values"""
    ops = [("v", t)]
    vals = []
    while ops:
        op, x = ops.pop()
        if op == "v":
            if isinstance(x, tuple):
                ops.append(("b", None))
                ops.append(("v", x[1]))
                ops.append(("v", x[0]))
            else:
                vals.append(x + bytes([k]))
        else:
            r = vals.pop()
            f = vals.pop()
            vals.append((f, r))
    return vals.pop()


def mixed_object(mods, kind, t):
    """-> (object, the tree it denotes)"""
    m, Program, CLVMTree = mods
    cnt = [0]
    if kind in ("mixed_d1", "mixed_d2", "mixed_d3"):
        d = int(kind[-1])
        if not isinstance(t, tuple):
            t = (t, vary(t, 7))
        return pairs_of(mixed_spec(mods, t, d, cnt), PairObj), t
    if kind == "mixed_fresh_d2":
        if not isinstance(t, tuple):
            t = (t, vary(t, 7))
        return FreshPairObj(mixed_spec(mods, t, 2, cnt)), t
    if kind == "mixed_program_d2":
        if not isinstance(t, tuple):
            t = (t, vary(t, 7))
        return pairs_of(mixed_spec(mods, t, 2, cnt), Program.new_pair), t
    if kind == "mixed_similar":
        # two deserializations of the same shape with different atoms, side by side
        t2 = vary(t, 1)
        return PairObj(m.deser_legacy(classic_of(Program, t)), m.deser_legacy(classic_of(Program, t2))), (t, t2)
    if kind == "mixed_similar_list":
        items = [t, vary(t, 1), vary(t, 2), vary(t, 3)]
        obj = m.deser_legacy(b"\x80")
        den = b""
        for i, it in reversed(list(enumerate(items))):
            obj = PairObj(lazy_leaf(mods, it, i), obj)
            den = (it, den)
        return obj, den
    if kind == "mixed_twice":
        b = classic_of(Program, t)
        return PairObj(m.deser_legacy(b), m.deser_legacy(b)), (t, t)
    if kind == "mixed_siblings":
        # a LazyNode next to a CLVMTree, a Program and a fresh-children storage of similar trees
        t1, t2, t3, t4 = vary(t, 1), vary(t, 2), vary(t, 3), vary(t, 4)
        obj = PairObj(PairObj(m.deser_legacy(classic_of(Program, t)), CLVMTree.from_bytes(classic_of(Program, t1))),
                      PairObj(Program.wrap(m.deser_legacy(classic_of(Program, t2))), PairObj(FreshStorage(t3), m.deser_backrefs(classic_of(Program, t4)))))
        return obj, ((t, t1), (t2, (t3, t4)))
    raise ValueError(kind)


def wrap(mods, kind, t, classic):
    m, Program, CLVMTree = mods
    if kind == "program":
        return program_of(Program, t)
    if kind == "program_to":
        return Program.to(t) if tree_depth(t) < 400 else program_of(Program, t)
    if kind == "program_parse":
        return Program.parse(io.BytesIO(classic))
    if kind == "program_from_bytes":
        return Program.from_bytes(classic)
    if kind == "clvmtree":
        return CLVMTree.from_bytes(classic)
    if kind == "stable":
        return StableStorage(t)
    if kind == "shared":
        return shared_of(t)
    if kind == "lazynode":
        return m.deser_legacy(classic)
    if kind == "lazynode_backrefs":
        return m.deser_backrefs(bytes(m.ser_backrefs(m.deser_legacy(classic))))
    if kind == "fresh":
        return FreshStorage(t)
    if kind == "fresh_same":
        return FreshSameStorage(t)
    if kind in ("fresh_lru2", "fresh_lru5"):
        return LruStorage(t, "", ({}, [], int(kind[-1])))
    if kind == "fresh_held":
        return LastHeldStorage(t, [None])
    raise ValueError(kind)


def conv_one(mods, kind, t, classic):
    m = mods[0]
    try:
        if kind.startswith("mixed_"):
            obj, den = mixed_object(mods, kind, t)
            blob = m.ser_2026(m.clvm_tree_to_lazy_node(obj))
            res = walk(m.deser_2026(blob), True)
            return {"ok": True, "blob": list(blob), "res": tree_to_json(res), "src": tree_to_json(den)}
        if kind == "to_bytes_2026":
            blob = program_of(mods[1], t).to_bytes_2026()
        else:
            obj = wrap(mods, kind, t, classic)
            blob = m.ser_2026(m.clvm_tree_to_lazy_node(obj))
        res = walk(m.deser_2026(blob), True)
        return {"ok": True, "blob": list(blob), "res": tree_to_json(res)}
    except BaseException as e:
        return {"ok": False, "pyexc": repr(e)}


def cmd_conv(mods, inp, out, kinds):
    for e in lines(inp):
        if e.get("ev") != "tree":
            continue
        t = tree_from_json(e["tree"])
        classic = bytes(e["bytes"])
        for kind in kinds:
            r = conv_one(mods, kind, t, classic)
            r.setdefault("src", e["tree"])      # the mixed kinds denote a tree derived from the generated one
            r.update({"ev": "conv", "case": e["case"], "kind": kind})
            out(r)


def cmd_convcases(mods, inp, out):
    """MCLazyConv CASE lines {tree, correct, res}: the model's verdict per tree is `can go wrong` iff some
    terminal state has correct = false.  The wheel is run on every tree with the fresh-children wrappers;
    a wrong result on a tree the model says cannot go wrong is a mismatch, as is a wrong result under a
    cached-children wrapper (the model says those are always right)."""
    can_fail = {}
    trees = {}
    only = {}
    for c in lines(inp):
        key = json.dumps(c["tree"], sort_keys=True) + "|" + ",".join(c.get("kinds", []))
        trees[key] = c["tree"]
        only[key] = c.get("kinds")
        can_fail[key] = can_fail.get(key, False) or (not c["correct"])
    n = 0
    wrong_fresh = 0
    for key, tj in trees.items():
        t = tree_from_json(tj)
        classic = bytes(program_of(mods[1], t))
        for kind in only[key] or ["lazynode", "fresh", "fresh_same", "fresh_lru2", "fresh_held", "program", "clvmtree", "stable", "mixed_d1", "mixed_similar"]:
            n += 1
            r = conv_one(mods, kind, t, classic)
            want = tree_from_json(r["src"]) if "src" in r else t
            good = r.get("ok") and tree_from_json(r["res"]) == want
            if not good:
                fresh = kind in FRESH_WRAPPERS
                if fresh:
                    wrong_fresh += 1
                # cached-children wrappers are always right in the model; fresh ones only where no behaviour fails
                out({"case": tj, "kind": kind, "model_can_fail": bool(fresh and can_fail[key]), "observed": r})
    out({"done": n, "trees": len(trees), "wrong_fresh": wrong_fresh,
         "model_can_fail": sum(1 for v in can_fail.values() if v)})


# ---------------------------------------------------------------------------
# C28: pure-Python helpers


def cmd_pure(mods, inp, out):
    m, Program, CLVMTree = mods
    import clvm_rs.ser as pser
    import clvm_rs.de as pde
    import clvm_rs.casts as casts
    from clvm_rs.tree_hash import sha256_treehash
    rust_backed = pde.deserialize_as_tree

    def guard(f):
        try:
            return f()
        except ValueError as ex:
            return {"ok": False, "msg": str(ex.args[0]) if ex.args else ""}
        except BaseException as ex:
            return {"ok": False, "pyexc": repr(ex)}

    for e in lines(inp):
        if e["ev"] == "tree":
            t = tree_from_json(e["tree"])
            classic = bytes(e["bytes"])

            errs = {}

            def g(f):
                try:
                    return list(f())
                except BaseException as ex:
                    errs[len(errs)] = repr(ex)
                    return [999]

            def stream():
                f = io.BytesIO()
                program_of(Program, t).stream(f)
                return f.getvalue()
            py = {
                "sexp_to_bytes": g(lambda: pser.sexp_to_bytes(StableStorage(t))),
                "program_bytes": g(lambda: bytes(program_of(Program, t))),
                "program_stream": g(stream),
                "clvmtree_bytes": g(lambda: bytes(CLVMTree.from_bytes(classic))),
                "parsed_bytes": g(lambda: pser.sexp_to_bytes(Program.parse(io.BytesIO(classic)))),
                "tree_hash": g(lambda: program_of(Program, t).tree_hash()),
                "sha256_treehash": g(lambda: sha256_treehash(StableStorage(t))),
            }
            o = {"ev": "pyser", "case": e["case"], "tree": e["tree"], "rust": e["bytes"], "rust_hash": e["hash"], "py": py}
            if errs:
                o["py_errors"] = list(errs.values())
            out(o)
        elif e["ev"] == "pydeser":
            blob = bytes(e["blob"])

            def parse():
                f = io.BytesIO(blob)
                p = Program.parse(f)
                return {"ok": True, "tree": tree_to_json(walk(p)), "used": f.tell()}

            def raw_stream():
                f = io.BytesIO(blob)
                p = pser.sexp_from_stream(f, lambda a, b: (a, b), lambda a: bytes(a))
                return {"ok": True, "tree": tree_to_json(p), "used": f.tell()}

            def tuples(pure):
                pde.deserialize_as_tree = None if pure else rust_backed
                try:
                    tr, hs = pde.deserialize_as_tuples(blob, 0, True)
                finally:
                    pde.deserialize_as_tree = rust_backed
                return {"ok": True, "triples": [list(x) for x in tr], "hashes": [list(h) for h in hs]}

            def ctree(pure):
                pde.deserialize_as_tree = None if pure else rust_backed
                try:
                    ct = CLVMTree.from_bytes(blob)
                finally:
                    pde.deserialize_as_tree = rust_backed
                return {"ok": True, "tree": tree_to_json(walk(ct)), "bytes": list(bytes(ct))}
            e["py"] = {"parse": guard(parse), "stream": guard(raw_stream),
                       "tuples_py": guard(lambda: tuples(True)), "tuples_rs": guard(lambda: tuples(False)),
                       "clvmtree_py": guard(lambda: ctree(True)), "clvmtree_rs": guard(lambda: ctree(False))}
            out(e)
        elif e["ev"] == "int":
            if e["dir"] == "to":
                v = le_n(e["mag"]) * (-1 if e["neg"] else 1)
                try:
                    e["py"] = list(casts.int_to_bytes(v))
                    e["py_program"] = list(Program.int_to_bytes(v))
                    e["py_to"] = list(Program.to(v).atom)
                except BaseException as ex:
                    e["py"] = [999]
                    e["py_error"] = repr(ex)
            else:
                try:
                    v = casts.int_from_bytes(bytes(e["bytes"]))
                    v2 = Program.new_atom(bytes(e["bytes"])).as_int()
                    e["py"] = {"neg": v < 0, "mag": n_le(abs(v))}
                    e["py_as_int"] = {"neg": v2 < 0, "mag": n_le(abs(v2))}
                except BaseException as ex:
                    e["py"] = {"pyexc": repr(ex)}
            out(e)


def cmd_curry(mods, inp, out, cases_path):
    m, Program, CLVMTree = mods
    cases = Emit(cases_path)
    for e in lines(inp):
        if e["ev"] != "currycase":
            continue
        mt = tree_from_json(e["m"])
        args = [tree_from_json(a) for a in e["args"]]
        env = tree_from_json(e["env"])
        mod = program_of(Program, mt)
        pargs = [program_of(Program, a) for a in args]
        ev = {"ev": "curry", "case": e["case"], "m": e["m"], "args": e["args"]}
        try:
            c = mod.curry(*pargs)
            ct = walk(c)
            ev["tree"] = tree_to_json(ct)
            ev["tree_hash"] = list(c.tree_hash())
            ev["curry_hash"] = list(mod.curry_hash(*[a.tree_hash() for a in pargs]))
            um, ua = c.uncurry()
            ev["un_mod"] = tree_to_json(walk(um))
            ev["un_none"] = ua is None
            ev["un_args"] = [] if ua is None else [tree_to_json(walk(a)) for a in ua]
            # also through a serialization round trip (the usual way a curried puzzle is met)
            um2, ua2 = Program.from_bytes(bytes(c)).uncurry()
            ev["un2_mod"] = tree_to_json(walk(um2))
            ev["un2_none"] = ua2 is None
            ev["un2_args"] = [] if ua2 is None else [tree_to_json(walk(a)) for a in ua2]
            ev["ok"] = True
        except BaseException as ex:
            ev["ok"] = False
            ev["pyexc"] = repr(ex)
            out(ev)
            continue
        out(ev)
        # uncurry of things that are not curried programs (the module itself, a near miss)
        for name, t in (("mod", mt), ("nearmiss", (ct[0], (ct[1][0], (ct[1][1][0], b"\x01"))) if isinstance(ct, tuple) else ct)):
            u = {"ev": "uncurry", "case": e["case"], "what": name, "tree": tree_to_json(t)}
            try:
                um, ua = program_of(Program, t).uncurry()
                u["mod"] = tree_to_json(walk(um))
                u["none"] = ua is None
                u["args"] = [] if ua is None else [tree_to_json(walk(a)) for a in ua]
                u["ok"] = True
            except BaseException as ex:
                u["ok"] = False
                u["pyexc"] = repr(ex)
            out(u)
        # the two runs: A = curried program on env, B = module on (args ++ env)
        full_env = env
        for a in reversed(args):
            full_env = (a, full_env)
        flagword = e.get("flagword", [0, 0, 0, 0])
        cases({"case": e["case"], "vn": "A.", "pbytes": list(bytes(c)), "ebytes": list(bytes(program_of(Program, env))),
               "budget": [], "flagword": flagword, "pyrels": []})
        cases({"case": e["case"], "vn": "B.", "pbytes": list(bytes(mod)), "ebytes": list(bytes(program_of(Program, full_env))),
               "budget": [], "flagword": flagword, "pyrels": [{"k": "curry_same", "to": "A.py"}]})
    cases.close()


def main():
    a = sys.argv[1:]

    def opt(k, d=None):
        return a[a.index(k) + 1] if k in a else d
    pkg = opt("--pkg")
    sys.path.insert(0, pkg)
    import clvm_rs
    import clvm_rs.clvm_rs as m
    from clvm_rs.program import Program
    from clvm_rs.clvm_tree import CLVMTree
    if not clvm_rs.__file__.startswith(pkg):
        raise SystemExit("clvm_rs imported from %s, not from %s" % (clvm_rs.__file__, pkg))
    mods = (m, Program, CLVMTree)
    cmd = a[0]
    out = Emit(opt("--out"))
    inp = opt("--in")
    if cmd == "runs":
        cmd_runs(m, inp, out)
    elif cmd == "codec":
        cmd_codec(m, inp, out)
    elif cmd == "conv":
        kinds = (opt("--kinds") or ",".join(WRAPPERS + MIXED_WRAPPERS)).split(",")
        cmd_conv(mods, inp, out, kinds)
    elif cmd == "convcases":
        cmd_convcases(mods, inp, out)
    elif cmd == "pure":
        cmd_pure(mods, inp, out)
    elif cmd == "curry":
        cmd_curry(mods, inp, out, opt("--cases"))
    else:
        raise SystemExit("unknown command " + cmd)
    out.close()


if __name__ == "__main__":
    main()
