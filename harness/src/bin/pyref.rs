//! `py` engine, Rust side (C26, C27, C28): what the Rust core answers for the inputs that the Python
//! driver (/verif/pyharness/driver.py) feeds to the wheel.
//!
//!   pyref gen-run   --seed S --n N --out cases.ndjson     run cases {case,vn,pbytes,ebytes,budget,flagword,pyrels}
//!   pyref run-cases --in cases.ndjson --out rust.ndjson   replicate run_serialized_chia_program in Rust:
//!         {"ev":"begin",case,variant:<vn>rust,dialect:"chia",flagword,flags,budget,pbytes,ebytes,prog,env,al,wit}
//!         {"ev":"end",case,variant,ok,cost,val | kind,msg,enode | panic, atoms,pairs,heap, rels:[], pyrels}
//!      or {"ev":"prefail",case,vn,pbytes,ebytes,flagword,budget,rust:{ok:false,msg,which}}   (input does not deserialize)
//!   pyref gen-codec --seed S --n N --out f    C26 ser_*/deser_*/serialized_length/deserialize_as_tree events, "rust" filled
//!   pyref gen-trees --seed S --n N --out f    trees + classic bytes + tree hash (C27 conv, C28 pyser)
//!   pyref gen-blobs --seed S --n N --out f    byte strings with what the classic Rust decoders answer (C28 pydeser)
//!   pyref gen-ints  --seed S --n N --out f    integers <-> atoms (C28 int)
//!   pyref gen-curry --seed S --n N --out f    module / arguments / environment triples (C28 curry)
//! The program generators are the ones of the `run` engine (copied from run.rs).
#![allow(dead_code)]
use clvm_fuzzing::{make_clvm_program, make_tree_limits};
use clvmr::allocator::{Allocator, NodePtr};
use clvmr::chia_dialect::{ChiaDialect, ClvmFlags};
use clvmr::cost::Cost;
use clvmr::dialect::{Dialect, OperatorSet};
use clvmr::error::EvalErr;
use clvmr::number::{number_from_u8, Number};
use clvmr::reduction::{Reduction, Response};
use clvmr::run_program::run_program;
use clvmr::serde::{
    node_from_bytes, node_from_bytes_backrefs, node_from_stream, node_to_bytes, node_to_bytes_backrefs, parse_triples,
    serialized_length_from_bytes, ParsedTriple,
};
use clvmr::serde_2026::{deserialize_2026, deserialize_2026_body_from_stream, serialize_2026};
use serde_json::{json, Value};
use std::cell::RefCell;
use std::io::Cursor;
use vh::gen::*;
use vh::*;

// ---------------------------------------------------------------------------
// dialect wrappers

/// records the outcome of every cryptographic operator call (witnesses for the specification)
struct Witness<'a, D: Dialect> {
    inner: &'a D,
    log: RefCell<Vec<Value>>,
    /// treat the 4-byte secp opcodes / one-byte crypto opcodes as the wrapped dialect does
    unaware: bool,
}

fn is_crypto(op: &[u8], flag_bits: u32, unaware: bool, runtime: bool) -> bool {
    if op.len() == 4 {
        return !unaware && !runtime && (op == [0x13, 0xd6, 0x1f, 0x00] || op == [0x1c, 0x3a, 0x8f, 0x00]);
    }
    if op.len() != 1 {
        return false;
    }
    match op[0] {
        29 | 30 | 49..=59 => true,
        62 => !runtime && flag_bits & 0x0100 != 0,
        64 | 65 => !runtime && flag_bits & 0x0800 != 0,
        _ => false,
    }
}

impl<D: Dialect> Dialect for Witness<'_, D> {
    fn quote_kw(&self) -> u32 {
        self.inner.quote_kw()
    }
    fn apply_kw(&self) -> u32 {
        self.inner.apply_kw()
    }
    fn softfork_kw(&self) -> u32 {
        self.inner.softfork_kw()
    }
    fn softfork_extension(&self, ext: u32) -> OperatorSet {
        self.inner.softfork_extension(ext)
    }
    fn flags(&self) -> ClvmFlags {
        self.inner.flags()
    }
    fn gc_candidate(&self, a: &Allocator, op: NodePtr) -> bool {
        self.inner.gc_candidate(a, op)
    }
    fn allow_unknown_ops(&self) -> bool {
        self.inner.allow_unknown_ops()
    }
    fn op(&self, a: &mut Allocator, op: NodePtr, args: NodePtr, max_cost: Cost, ext: OperatorSet) -> Response {
        let opb = a.atom(op).as_ref().to_vec();
        let mut fl = self.inner.flags().bits();
        if matches!(ext, OperatorSet::Keccak | OperatorSet::PreHardFork) {
            fl |= 0x0100;
        }
        let crypto = is_crypto(&opb, fl, self.unaware, false);
        let (a0, h0) = (a.atom_count(), a.heap_size());
        let r = self.inner.op(a, op, args, max_cost, ext);
        if crypto {
            let w = match &r {
                Ok(Reduction(cost, node)) => {
                    let al: Vec<Value> = if a.atom_count() > a0 { vec![json!(["A", a.heap_size() - h0])] } else { vec![] };
                    json!({"ok": true, "cost": n_le(*cost as u128), "val": tree_json(a, *node), "al": al, "op": bytes_json(&opb)})
                }
                Err(e) => json!({"ok": false, "kind": err_kind(e), "op": bytes_json(&opb)}),
            };
            self.log.borrow_mut().push(w);
        }
        r
    }
}

// ---------------------------------------------------------------------------
// program generators

fn q(v: Value) -> Value {
    json!({"f": atom_json(&[1]), "r": v})
}

fn int_atom(v: i64) -> Value {
    let b = v.to_be_bytes();
    let mut s = &b[..];
    if v >= 0 {
        while !s.is_empty() && s[0] == 0 && (s.len() == 1 || s[1] & 0x80 == 0) {
            s = &s[1..];
        }
    } else {
        while s.len() > 1 && s[0] == 0xff && s[1] & 0x80 != 0 {
            s = &s[1..];
        }
    }
    atom_json(s)
}

const CLASSIC_OPS: &[u8] = &[3, 4, 5, 6, 7, 8, 9, 10, 11, 12, 13, 14, 16, 17, 18, 19, 20, 21, 22, 23, 24, 25, 26, 27, 32, 33, 34];
const NEWER_OPS: &[u8] = &[48, 60, 61, 63];

struct PG<'r> {
    r: &'r mut Rng,
    /// include operators beyond the classic set
    newer: bool,
    guards: bool,
    crypto: bool,
    unknown: bool,
}

impl PG<'_> {
    fn value(&mut self) -> Value {
        match self.r.below(10) {
            0 => rand_tree(self.r, 5, 6, 20),
            1 => int_atom(self.r.range(-300, 300)),
            2 => int_atom(self.r.range(0, 40)),
            _ => atom_json(&rand_atom_bytes(self.r, 10)),
        }
    }

    fn path(&mut self) -> Value {
        match self.r.below(12) {
            0 => atom_json(&[0, self.r.below(8) as u8 + 1]),       // leading zero byte
            1 => atom_json(&[0]),
            2 => atom_json(&[]),
            3 => atom_json(&[self.r.below(256) as u8, self.r.below(256) as u8]),
            _ => atom_json(&[self.r.below(16) as u8 + 1]),
        }
    }

    fn expr(&mut self, depth: u32) -> Value {
        if depth == 0 || self.r.chance(1, 4) {
            return if self.r.chance(2, 3) { q(self.value()) } else { self.path() };
        }
        let c = self.r.below(100);
        if c < 6 {
            // (a (q . prog) env)
            let p = self.expr(depth - 1);
            let e = if self.r.chance(1, 2) { atom_json(&[1]) } else { self.expr(depth - 1) };
            return list_json(&[atom_json(&[2]), q(p), e]);
        }
        if c < 9 {
            // ((X) . args) form and malformed variants
            let x = atom_json(&[*self.r.pick(&[16u8, 4, 5, 9, 2])]);
            let inner = match self.r.below(5) {
                0 => json!({"f": x, "r": atom_json(&[7])}),
                1 => json!({"f": json!({"f": x, "r": atom_json(&[])}), "r": atom_json(&[])}),
                _ => json!({"f": x, "r": atom_json(&[])}),
            };
            let args = list_json(&[self.value(), self.value()]);
            return json!({"f": inner, "r": args});
        }
        if c < 14 && self.guards {
            return self.guard(depth);
        }
        if c < 19 && self.unknown {
            let len = *self.r.pick(&[1usize, 2, 2, 3, 5, 6]);
            let mut op = self.r.bytes(len);
            if len == 1 {
                op[0] = *self.r.pick(&[15u8, 28, 31, 35, 37, 47, 0x40, 0x80, 0xc1, 0x7f, 0, 62, 63, 64]);
            } else if self.r.chance(1, 6) {
                op[0] = 0xff;
                op[1] = 0xff;
            } else {
                op[0] &= 0x0f;
                if len > 2 {
                    op[1] &= 0x03;
                }
            }
            let n = self.r.below(4) as usize;
            let mut items = vec![atom_json(&op)];
            for _ in 0..n {
                items.push(self.expr(depth - 1));
            }
            return list_json(&items);
        }
        if c < 22 && self.crypto {
            return self.crypto_expr();
        }
        let op = if self.newer && self.r.chance(1, 6) { *self.r.pick(NEWER_OPS) } else { *self.r.pick(CLASSIC_OPS) };
        let arity = match op {
            3 => 3,
            5 | 6 | 7 | 13 | 27 | 32 | 63 => 1,
            4 | 9 | 10 | 19 | 20 | 21 | 22 | 23 | 61 => 2,
            12 => *self.r.pick(&[2usize, 3]),
            48 | 60 => 3,
            8 => self.r.below(3) as usize,
            _ => self.r.below(4) as usize,
        };
        let arity = if self.r.chance(1, 15) { (arity + 1) % 5 } else { arity };
        let mut items = vec![atom_json(&[op])];
        for i in 0..arity {
            let it = match (op, i) {
                (22 | 23, 1) => q(int_atom(self.r.range(-40, 40))),
                (12, 1) | (12, 2) => q(int_atom(self.r.range(-1, 8))),
                (5 | 6, 0) if self.r.chance(1, 2) => q(rand_tree(self.r, 7, 4, 10)),
                _ => self.expr(depth - 1),
            };
            items.push(it);
        }
        let mut t = list_json(&items);
        if self.r.chance(1, 40) {
            // improper operand list
            t = json!({"f": items[0].clone(), "r": atom_json(&[5])});
        }
        t
    }

    /// programs aimed at the fast paths (C05): all-small add/sub at the u64/i64 edges, (sha256 1 n),
    /// small >, inline path lookups at bit 7/15/23, multiply with mixed representations
    fn fast_expr(&mut self, depth: u32) -> Value {
        let big = |r: &mut Rng| -> Value {
            // 26-bit values (inline) near the top, so sums overflow u64/i64 only with many terms; plus 8-byte edge values
            match r.below(6) {
                0 => int_atom(0x3ff_ffff - r.range(0, 2)),
                1 => int_atom(r.range(0, 300)),
                2 => atom_json(&[0x7f, 0xff, 0xff, 0xff, 0xff, 0xff, 0xff, 0xff - r.below(2) as u8]),
                3 => atom_json(&[0x00, 0xff, 0xff, 0xff, 0xff, 0xff, 0xff, 0xff, 0xff - r.below(2) as u8]),
                4 => int_atom(-(r.range(0, 300))),
                _ => int_atom(r.range(0, 0x3ff_ffff)),
            }
        };
        match self.r.below(8) {
            0 | 1 => {
                let op = *self.r.pick(&[16u8, 17]);
                let n = 1 + self.r.below(6) as usize;
                let mut items = vec![atom_json(&[op])];
                for _ in 0..n {
                    let v = big(self.r);
                    items.push(if depth > 0 && self.r.chance(1, 5) { self.fast_expr(depth - 1) } else { q(v) });
                }
                list_json(&items)
            }
            2 => {
                let n = self.r.range(0, 40);
                list_json(&[atom_json(&[11]), q(int_atom(1)), q(if self.r.chance(1, 6) { atom_json(&[0, n as u8]) } else { int_atom(n) })])
            }
            3 => list_json(&[atom_json(&[21]), q(big(self.r)), q(big(self.r))]),
            4 => {
                // path lookups with 7 / 15 / 23 steps: environment must be deep; also leading-zero paths
                let bits = *self.r.pick(&[6u32, 7, 8, 14, 15, 16, 22, 23, 24]);
                let v: u32 = (1 << bits) | (self.r.next() as u32 & ((1 << bits) - 1) & 0x0101_0101);
                let b = v.to_be_bytes();
                let skip = b.iter().take_while(|x| **x == 0).count();
                let mut p = b[skip..].to_vec();
                if p[0] & 0x80 != 0 || self.r.chance(1, 6) {
                    p.insert(0, 0);
                }
                atom_json(&p)
            }
            5 => {
                let n = 2 + self.r.below(3) as usize;
                let mut items = vec![atom_json(&[18])];
                for _ in 0..n {
                    items.push(q(big(self.r)));
                }
                list_json(&items)
            }
            _ => self.expr(depth.min(2)),
        }
    }

    fn crypto_expr(&mut self) -> Value {
        let g1 = hex::decode("97f1d3a73197d7942695638c4fa9ac0fc3688c4f9774b905a14e3a3f171bac586c55e83ff97a1aeffb3af00adb22c6bb").unwrap();
        match self.r.below(6) {
            0 => list_json(&[atom_json(&[30]), q(int_atom(self.r.range(-5, 50)))]),
            1 => list_json(&[atom_json(&[29]), q(atom_json(&g1)), list_json(&[atom_json(&[30]), q(int_atom(self.r.range(1, 9)))])]),
            2 => list_json(&[atom_json(&[51]), q(atom_json(&g1))]),
            3 => list_json(&[atom_json(&[62]), q(atom_json(&self.r.bytes(5)))]),
            4 => list_json(&[atom_json(&[56]), q(atom_json(&self.r.bytes(3)))]),
            _ => list_json(&[atom_json(&[50]), q(atom_json(&g1)), q(int_atom(self.r.range(-3, 300)))]),
        }
    }

    /// (softfork (q . cost) (q . ext) (q . prog) (q . env)); the declared cost is fixed up by the caller
    fn guard(&mut self, depth: u32) -> Value {
        let inner = if self.r.chance(1, 3) && depth > 1 { self.guard(depth - 1) } else { self.expr(depth.min(2)) };
        let ext = match self.r.below(8) {
            0 => int_atom(2),
            1 => atom_json(&[0, 1]),
            2 => int_atom(1),
            3 => atom_json(&[1, 0, 0, 0, 0]),
            _ => int_atom(self.r.below(2) as i64),
        };
        let env = self.value();
        let marker = atom_json(&[0x7f, 0x7f, 0x7f, 0x7f, 0x7f, 0x7f, 0x7f]); // replaced by fix_guards
        let mut items = vec![atom_json(&[36]), q(marker), q(ext), q(inner), q(env)];
        if self.r.chance(1, 12) {
            items.pop();
        }
        list_json(&items)
    }
}

/// replace the declared-cost markers of guards, innermost first, by the true cost (or a perturbed one)
fn fix_guards(r: &mut Rng, prog: &Value, fl: u32) -> Value {
    fn is_marker(v: &Value) -> bool {
        v.get("a").map(|b| json_bytes(b) == [0x7f; 7]).unwrap_or(false)
    }
    fn rec(r: &mut Rng, v: &Value, fl: u32) -> Value {
        if v.get("a").is_some() {
            return v.clone();
        }
        let f = rec(r, &v["f"], fl);
        let rr = rec(r, &v["r"], fl);
        let node = json!({"f": f, "r": rr});
        // (36 (q . marker) (q . ext) (q . prog) (q . env))
        let items = list_items(&node);
        if items.len() >= 4 && items[0].get("a").map(|b| json_bytes(b) == [36]).unwrap_or(false)
            && items[1].get("f").is_some() && is_marker(&items[1]["r"])
        {
            let ext_atom = items[2].get("r").cloned().unwrap_or(atom_json(&[]));
            let ext_bytes = ext_atom.get("a").map(json_bytes).unwrap_or_default();
            let prog = items[3].get("r").cloned().unwrap_or(atom_json(&[]));
            let env = items.get(4).and_then(|e| e.get("r").cloned()).unwrap_or(atom_json(&[]));
            // probe: cost of the guarded program on its own
            let inner_flags = fl | if ext_bytes == [1] || fl & 0x2000 != 0 { 0x0100 } else { 0 };
            let c = {
                let mut a = Allocator::new();
                let p = json_tree(&mut a, &prog).unwrap();
                let e = json_tree(&mut a, &env).unwrap();
                let d = ChiaDialect::new(flags(inner_flags & !0x0020));
                match catch(|| run_program(&mut a, &d, p, e, 0)) {
                    Ok(Ok(Reduction(c, _))) => c,
                    _ => r.below(5000) + 1,
                }
            };
            let guard_cost = if fl & 0x2000 != 0 { 500 } else { 140 };
            let declared = match r.below(12) {
                0 => c + guard_cost + 1,
                1 => (c + guard_cost).saturating_sub(1),
                2 => 0,
                3 => u64::MAX >> r.below(20),
                _ => c + guard_cost,
            };
            let mut b = declared.to_be_bytes().to_vec();
            while !b.is_empty() && b[0] == 0 {
                b.remove(0);
            }
            if !b.is_empty() && b[0] & 0x80 != 0 {
                b.insert(0, 0);
            }
            if r.chance(1, 15) {
                b.insert(0, 0); // non-canonical declared cost
            }
            let mut new_items = items.clone();
            new_items[1] = q(atom_json(&b));
            return list_json(&new_items);
        }
        node
    }
    rec(r, prog, fl)
}

fn list_items(v: &Value) -> Vec<Value> {
    let mut out = vec![];
    let mut t = v;
    while t.get("f").is_some() {
        out.push(t["f"].clone());
        t = &t["r"];
    }
    out
}

fn fuzz_program(r: &mut Rng) -> Option<(Value, Value)> {
    let n = 200 + r.below(600) as usize;
    let data = r.bytes(n);
    let mut u = arbitrary::Unstructured::new(&data);
    let mut a = Allocator::new();
    let (env, _) = make_tree_limits(&mut a, &mut u, 30, true).ok()?;
    let prog = make_clvm_program(&mut a, &mut u, env, 60).ok()?;
    let pj = unflatten_tree(&tree_json(&a, prog));
    let ej = unflatten_tree(&tree_json(&a, env));
    if tree_size(&pj) > 400 || tree_size(&ej) > 200 || tree_max_atom(&pj) > 200 || tree_max_atom(&ej) > 200 {
        return None;
    }
    Some((pj, ej))
}

// ---------------------------------------------------------------------------
// helpers

fn rbytes(r: &mut Rng, lo: u64, span: u64) -> Vec<u8> {
    let k = lo + r.below(span);
    r.bytes(k as usize)
}

const KNOWN_BITS: u32 = 0x3f7f;
const PY_DEFAULT_MAX_ATOM_LEN: usize = 1 << 20;
const MAGIC: [u8; 6] = [0xfd, 0xff, 0x32, 0x30, 0x32, 0x36];

fn word_json(w: u32) -> Value {
    bytes_json(&w.to_le_bytes())
}
fn json_word(v: &Value) -> u32 {
    let b = json_bytes(v);
    let mut w = 0u32;
    for (i, x) in b.iter().enumerate().take(4) {
        w |= (*x as u32) << (8 * i);
    }
    w
}

fn ser_classic(v: &Value) -> Vec<u8> {
    let mut a = Allocator::new();
    let n = json_tree(&mut a, v).expect("build tree");
    node_to_bytes(&a, n).expect("serialize")
}

fn tree_hash_json(a: &Allocator, root: NodePtr) -> [u8; 32] {
    use clvmr::allocator::SExp;
    use clvmr::treehash::{tree_hash_atom, tree_hash_pair};
    enum Op {
        Visit(NodePtr),
        Build,
    }
    let mut ops = vec![Op::Visit(root)];
    let mut vals: Vec<[u8; 32]> = vec![];
    while let Some(op) = ops.pop() {
        match op {
            Op::Visit(n) => match a.sexp(n) {
                SExp::Atom => vals.push(tree_hash_atom(a.atom(n).as_ref())),
                SExp::Pair(f, r) => {
                    ops.push(Op::Build);
                    ops.push(Op::Visit(r));
                    ops.push(Op::Visit(f));
                }
            },
            Op::Build => {
                let r = vals.pop().unwrap();
                let f = vals.pop().unwrap();
                vals.push(tree_hash_pair(&f, &r));
            }
        }
    }
    vals.pop().unwrap()
}

fn outcome_json(a: &Allocator, r: &Response) -> Value {
    match r {
        Ok(Reduction(cost, node)) => json!({"ok": true, "cost": n_le(*cost as u128), "val": tree_json(a, *node)}),
        Err(e) => json!({"ok": false, "kind": err_kind(e), "msg": e.to_string(), "enode": tree_json(a, e.node_ptr())}),
    }
}

// ---------------------------------------------------------------------------
// run_serialized_chia_program, step by step as wheel/src/api.rs does it

/// Ok(json {al, prog, env, end}) or Err(json prefail record)
fn binding_run(pb: &[u8], eb: &[u8], budget: u64, word: u32, witness: bool) -> Result<Value, Value> {
    let fl = ClvmFlags::from_bits_truncate(word);
    let limited = fl.contains(ClvmFlags::LIMIT_HEAP);
    let mut a = if limited { Allocator::new_limited(500000000) } else { Allocator::new() };
    let program = node_from_bytes(&mut a, pb).map_err(|e| json!({"ok": false, "msg": e.to_string(), "which": "program"}))?;
    let args = node_from_bytes(&mut a, eb).map_err(|e| json!({"ok": false, "msg": e.to_string(), "which": "args"}))?;
    let al = json!({"atoms": a.atom_count(), "pairs": a.pair_count(), "heap": a.heap_size(),
                    "limit": if limited { 500000000i64 } else { -1 }});
    let prog = tree_json(&a, program);
    let env = tree_json(&a, args);
    let dialect = ChiaDialect::new(fl);
    let (r, wit) = if witness {
        let w = Witness { inner: &dialect, log: RefCell::new(vec![]), unaware: false };
        let r = run_program(&mut a, &w, program, args, budget);
        (r, w.log.into_inner())
    } else {
        (run_program(&mut a, &dialect, program, args, budget), vec![])
    };
    let mut end = outcome_json(&a, &r);
    end["atoms"] = json!(a.atom_count());
    end["pairs"] = json!(a.pair_count());
    end["heap"] = json!(a.heap_size());
    Ok(json!({"al": al, "prog": prog, "env": env, "end": end, "wit": wit}))
}

fn run_cases(inp: &str, out: &mut Out) {
    for c in read_ndjson(inp) {
        let pb = json_bytes(&c["pbytes"]);
        let eb = json_bytes(&c["ebytes"]);
        let budget = le_n(&c["budget"]) as u64;
        let word = json_word(&c["flagword"]);
        let vn = c["vn"].as_str().unwrap_or("").to_string();
        let (pb2, eb2) = (pb.clone(), eb.clone());
        let plain = catch(move || binding_run(&pb2, &eb2, budget, word, false));
        let (pb2, eb2) = (pb.clone(), eb.clone());
        let wit = catch(move || binding_run(&pb2, &eb2, budget, word, true));
        match plain {
            Err(p) => {
                // a panic while replicating the binding: recorded as a run without specification input
                out.emit(&json!({"ev": "prefail", "case": c["case"], "vn": vn, "pbytes": c["pbytes"], "ebytes": c["ebytes"],
                    "flagword": c["flagword"], "budget": c["budget"], "pyrels": c["pyrels"], "rust": {"ok": false, "panic": p}}));
            }
            Ok(Err(pre)) => {
                out.emit(&json!({"ev": "prefail", "case": c["case"], "vn": vn, "pbytes": c["pbytes"], "ebytes": c["ebytes"],
                    "flagword": c["flagword"], "budget": c["budget"], "pyrels": c["pyrels"], "rust": pre}));
            }
            Ok(Ok(r)) => {
                // witnesses of cryptographic operators come from a second, wrapped run of the same input
                let (witl, wit_same) = match &wit {
                    Ok(Ok(w)) => {
                        let same = w["end"]["ok"] == r["end"]["ok"] && w["end"].get("cost") == r["end"].get("cost")
                            && w["end"].get("val") == r["end"].get("val") && w["end"].get("kind") == r["end"].get("kind");
                        (w["wit"].clone(), same)
                    }
                    _ => (json!([]), false),
                };
                out.emit(&json!({"ev": "begin", "case": c["case"], "variant": format!("{vn}rust"), "dialect": "chia",
                    "flagword": c["flagword"], "flags": flags_json(word & KNOWN_BITS), "budget": c["budget"],
                    "pbytes": c["pbytes"], "ebytes": c["ebytes"], "prog": r["prog"], "env": r["env"], "al": r["al"],
                    "wit": witl, "wit_same": wit_same}));
                let mut end = r["end"].clone();
                end["ev"] = json!("end");
                end["case"] = c["case"].clone();
                end["variant"] = json!(format!("{vn}rust"));
                end["rels"] = json!([]);
                end["pyrels"] = c["pyrels"].clone();
                end["vn"] = json!(vn);
                out.emit(&end);
            }
        }
    }
}

// minimal s-expression reader for the corpus programs (same notation as op-tests)
fn sexp(v: &str) -> Option<Value> {
    fn tok(s: &str) -> (&str, &str) {
        let s = s.trim_start();
        if s.starts_with('(') || s.starts_with(')') {
            return s.split_at(1);
        }
        if let Some(st) = s.strip_prefix('"') {
            let q = st.find('"').unwrap_or(st.len() - 1);
            return s.split_at(q + 2);
        }
        let pos = s.find(|c: char| c == ' ' || c == ')' || c == '(').unwrap_or(s.len());
        s.split_at(pos)
    }
    fn atom(t: &str) -> Option<Value> {
        if t == "0" || t == "()" {
            return Some(atom_json(&[]));
        }
        if let Some(h) = t.strip_prefix("0x") {
            return hex::decode(h).ok().map(|b| atom_json(&b));
        }
        if t.starts_with('"') {
            return Some(atom_json(t.trim_matches('"').as_bytes()));
        }
        if let Ok(v) = t.parse::<i64>() {
            return Some(int_atom(v));
        }
        let names: &[(&str, u8)] = &[("q", 1), ("a", 2), ("i", 3), ("c", 4), ("f", 5), ("r", 6), ("l", 7), ("x", 8),
            ("=", 9), (">s", 10), ("sha256", 11), ("substr", 12), ("strlen", 13), ("concat", 14), ("+", 16),
            ("-", 17), ("*", 18), ("/", 19), ("divmod", 20), (">", 21), ("ash", 22), ("lsh", 23), ("logand", 24),
            ("logior", 25), ("logxor", 26), ("lognot", 27), ("point_add", 29), ("pubkey_for_exp", 30), ("not", 32),
            ("any", 33), ("all", 34), ("softfork", 36), ("coinid", 48), ("g1_subtract", 49), ("g1_multiply", 50),
            ("g1_negate", 51), ("g2_add", 52), ("g2_subtract", 53), ("g2_multiply", 54), ("g2_negate", 55),
            ("g1_map", 56), ("g2_map", 57), ("bls_pairing_identity", 58), ("bls_verify", 59), ("modpow", 60),
            ("%", 61), ("keccak256", 62), ("sha256tree", 63)];
        names.iter().find(|(n, _)| *n == t).map(|(_, b)| atom_json(&[*b]))
    }
    fn list(s: &str) -> Option<(Value, &str)> {
        let (t, rest) = tok(s);
        if t.is_empty() {
            return None;
        }
        if t == ")" {
            return Some((atom_json(&[]), rest));
        }
        if t == "." {
            let (v, r1) = exp(rest)?;
            let (c, r2) = tok(r1);
            if c != ")" {
                return None;
            }
            return Some((v, r2));
        }
        let (head, r1) = if t == "(" { list(rest)? } else { (atom(t)?, rest) };
        let (tail, r2) = list(r1)?;
        Some((json!({"f": head, "r": tail}), r2))
    }
    fn exp(s: &str) -> Option<(Value, &str)> {
        let (t, rest) = tok(s);
        if t == "(" {
            list(rest)
        } else {
            atom(t).map(|a| (a, rest))
        }
    }
    exp(v).map(|(v, _)| v)
}

// the ChiaLisp sha256tree of tools/src/bin/sha256tree-benching.rs:
// (a (q 2 2 (c 2 (c 3 0))) (c (q 2 (i (l 5) (q 11 (q . 2) (a 2 (c 2 (c 9 0))) (a 2 (c 2 (c 13 0)))) (q 11 (q . 1) 5)) 1) 1))
const CHIALISP_SHATREE: &str = "(a (q 2 2 (c 2 (c 3 0))) (c (q 2 (i (l 5) (q 11 (q . 2) (a 2 (c 2 (c 9 0))) (a 2 (c 2 (c 13 0)))) (q 11 (q . 1) 5)) 1) 1))";


/// expressions that evaluate successfully by construction: integers / byte strings / lists with the operators applied to
/// arguments of the right shape (arguments come from quoted constants or from the environment (A B C) of small integers)
fn typed(r: &mut Rng, ty: u8, depth: u32) -> Value {
    let a = |b: &[u8]| atom_json(b);
    // ty 0: integer, 1: list
    if depth == 0 || r.chance(1, 5) {
        return match (ty, r.below(3)) {
            (0, 0) => a(&[*r.pick(&[2u8, 5, 11])]),                       // first three environment items
            (0, _) => q(int_atom(r.range(-300, 70000))),
            (_, 0) => a(&[1]),                                            // the whole environment
            _ => q(list_json(&[int_atom(r.range(0, 9)), int_atom(r.range(-9, 0)), atom_json(&[0x61, 0x62])])),
        };
    }
    if ty == 0 {
        match r.below(12) {
            0..=2 => { let n = 1 + r.below(3); let mut it = vec![a(&[*r.pick(&[16u8, 17, 18])])]; for _ in 0..n { it.push(typed(r, 0, depth - 1)); } list_json(&it) }
            3 => list_json(&[a(&[3]), typed(r, 0, depth - 1), typed(r, 0, depth - 1), typed(r, 0, depth - 1)]),
            4 => list_json(&[a(&[13]), typed(r, 0, depth - 1)]),
            5 => list_json(&[a(&[*r.pick(&[9u8, 10, 21])]), typed(r, 0, depth - 1), typed(r, 0, depth - 1)]),
            6 => list_json(&[a(&[11]), typed(r, 0, depth - 1), typed(r, 0, depth - 1)]),
            7 => list_json(&[a(&[14]), typed(r, 0, depth - 1), typed(r, 0, depth - 1)]),
            8 => list_json(&[a(&[5]), typed(r, 1, depth - 1)]),
            9 => list_json(&[a(&[2]), q(typed(r, 0, depth - 1)), typed(r, 1, depth - 1)]),
            10 => list_json(&[a(&[*r.pick(&[24u8, 25, 26])]), typed(r, 0, depth - 1), typed(r, 0, depth - 1)]),
            _ => { let t = r.below(2) as u8; list_json(&[a(&[7]), typed(r, t, depth - 1)]) }
        }
    } else {
        match r.below(4) {
            0 | 1 => list_json(&[a(&[4]), typed(r, 0, depth - 1), typed(r, 1, depth - 1)]),
            2 => list_json(&[a(&[6]), list_json(&[a(&[4]), typed(r, 0, depth - 1), typed(r, 1, depth - 1)])]),
            _ => list_json(&[a(&[3]), typed(r, 0, depth - 1), typed(r, 1, depth - 1), typed(r, 1, depth - 1)]),
        }
    }
}

/// bounded recursion schemas (factorial, list sum, list reverse-length, tree hash in ChiaLisp)
fn recursion(r: &mut Rng) -> (Value, Value) {
    match r.below(3) {
        0 => {
            let p = sexp("(a (q 2 2 (c 2 (c 5 ()))) (c (q 2 (i (= 5 (q . 1)) (q 1 . 1) (q 18 5 (a 2 (c 2 (c (- 5 (q . 1)) ()))))) 1) 1))").unwrap();
            (p, list_json(&[int_atom(r.range(1, 25))]))
        }
        1 => {
            // sum of a list: (a (q 2 2 (c 2 (c 5 ()))) (c (q 2 (i 5 (q 16 9 (a 2 (c 2 (c 13 ())))) (q 1)) 1) 1))
            let p = sexp("(a (q 2 2 (c 2 (c 5 ()))) (c (q 2 (i 5 (q 16 9 (a 2 (c 2 (c 13 ())))) (q 1)) 1) 1))").unwrap();
            let n = r.below(30) as usize;
            let items: Vec<Value> = (0..n).map(|_| int_atom(r.range(-1000, 100000))).collect();
            (p, list_json(&[list_json(&items)]))
        }
        _ => {
            let p = sexp(CHIALISP_SHATREE).unwrap();
            let b = 1 + r.below(20) as usize;
            (p, rand_tree(r, b, 10, 20))
        }
    }
}

// ---------------------------------------------------------------------------
// run case generator

fn tmpl(r: &mut Rng) -> (Value, Value) {
    let a = |b: &[u8]| atom_json(b);
    let nil = atom_json(&[]);
    let k = r.below(16);
    let p = match k {
        0 => list_json(&[a(&[8])]),                                                // (x)
        1 => list_json(&[a(&[8]), q(int_atom(r.range(-5, 500)))]),                 // (x (q . n))
        2 => list_json(&[a(&[19]), q(int_atom(r.range(-9, 9))), q(nil.clone())]),  // (/ n 0)
        3 => list_json(&[a(&[23]), q(int_atom(1)), q(int_atom(70000))]),           // shift too large
        4 => list_json(&[a(&[5]), a(&[1])]),                                       // (f 1) on an atom environment
        5 => a(&[r.below(60) as u8 + 4]),                                          // path into a short environment
        6 => json!({"f": json!({"f": a(&[1]), "r": a(&[2])}), "r": nil.clone()}),  // ((1 . 2))
        7 => list_json(&[a(&[0xff, 0xff]), q(int_atom(1))]),                       // reserved opcode
        8 => list_json(&[a(&[2]), q(int_atom(1))]),                                // (a x): wrong arity
        9 => json!({"f": a(&[16]), "r": a(&[5])}),                                 // improper operand list
        10 => list_json(&[a(&[14]), q(list_json(&[int_atom(1), int_atom(2)]))]),   // concat on a pair
        11 => list_json(&[a(&[36]), q(int_atom(200)), q(int_atom(r.range(0, 3))), q(list_json(&[a(&[16]), q(int_atom(1))])), q(nil.clone())]),
        12 => list_json(&[a(&[0x7f & r.next() as u8 | 0x40]), q(int_atom(7)), q(a(&[1, 2, 3]))]), // unknown operator
        13 => list_json(&[a(&[60]), q(int_atom(3)), q(int_atom(r.range(-2, 5))), q(int_atom(r.range(-1, 3)))]), // modpow
        14 => list_json(&[a(&[63]), q(rand_tree(r, 9, 8, 30))]),                   // sha256tree (flag dependent)
        _ => list_json(&[a(&[62]), q(a(&[1, 2, 3]))]),                             // keccak256 (flag dependent)
    };
    let e = if k == 5 { list_json(&[int_atom(1), int_atom(2)]) } else if r.chance(1, 2) { nil } else { rand_tree(r, 8, 8, 20) };
    (p, e)
}

fn gen_word(r: &mut Rng) -> u32 {
    let mut f = 0u32;
    for (bit, den) in [(0x2000u32, 3u64), (0x0400, 2), (0x0100, 4), (0x0800, 5), (0x0002, 6), (0x0001, 8), (0x0004, 6), (0x0020, 4),
                       (0x0010, 8), (0x0040, 10), (0x0200, 10), (0x0008, 10), (0x1000, 6)] {
        if r.chance(1, den) {
            f |= bit;
        }
    }
    match r.below(10) {
        0..=3 => f,
        4..=6 => f | (r.next() as u32 & !KNOWN_BITS),          // unknown bits set
        7 => f | 0x80 | 0x4000 | 0x8000_0000,
        8 => r.next() as u32,                                   // any word
        _ => 0,
    }
}

fn gen_run(seed: u64, n: u64, out: &mut Out) {
    let mut r = Rng::new(seed ^ 0x7079);
    let mut case = 0u64;
    let mut made = 0u64;
    let mut tries = 0u64;
    while made < n && tries < n * 20 {
        tries += 1;
        let pick = r.below(100);
        let (prog, env) = if pick < 20 {
            match fuzz_program(&mut r) {
                Some(x) => x,
                None => continue,
            }
        } else if pick < 30 {
            tmpl(&mut r)
        } else if pick < 52 {
            let d = 1 + r.below(5) as u32;
            let ty = r.below(2) as u8;
            (typed(&mut r, ty, d), list_json(&[int_atom(r.range(-50, 5000)), int_atom(r.range(0, 9)), atom_json(&rand_atom_bytes(&mut r, 9))]))
        } else if pick < 60 {
            recursion(&mut r)
        } else {
            let mut pg = PG { r: &mut r, newer: true, guards: true, crypto: true, unknown: true };
            let depth = 1 + pg.r.below(4) as u32;
            let p = pg.expr(depth);
            let e = if pg.r.chance(1, 3) { rand_tree(pg.r, 12, 8, 20) } else { list_json(&[pg.value(), pg.value(), pg.value()]) };
            (p, e)
        };
        let nvar = 1 + r.below(3);
        let w0 = gen_word(&mut r);
        let prog = fix_guards(&mut r, &prog, w0 & KNOWN_BITS);
        if tree_depth(&prog) > 120 || tree_depth(&env) > 120 {
            continue;
        }
        let pb = ser_classic(&prog);
        let eb = ser_classic(&env);
        let mut heavy = false;
        for v in 0..nvar {
            let word = if v == 0 { w0 } else if r.chance(1, 2) { w0 ^ (r.next() as u32 & !KNOWN_BITS) } else { gen_word(&mut r) };
            // probe the cost under this word to aim budgets at it
            let (pb2, eb2) = (pb.clone(), eb.clone());
            let probe = catch(move || binding_run(&pb2, &eb2, 0, word, false));
            let c = match &probe {
                Ok(Ok(x)) if x["end"]["ok"] == json!(true) => Some(le_n(&x["end"]["cost"]) as u64),
                _ => None,
            };
            if c.map(|c| c > 1_200_000).unwrap_or(false) {
                heavy = true;
                break;
            }
            let budget = match (c, r.below(10)) {
                (_, 0..=2) => 0,
                (Some(c), 3) => c,
                (Some(c), 4) => c.saturating_sub(1).max(1),
                (Some(c), 5) => c + 1,
                (Some(c), 6) => 1 + r.below(c + 2),
                (_, 7) => u64::MAX >> r.below(30),
                (_, 8) => 1 + r.below(3000),
                _ => 0,
            };
            // the serialized input as the caller hands it over
            let (mut p2, mut e2) = (pb.clone(), eb.clone());
            match r.below(40) {
                0 => {
                    // back-reference serialization: the binding uses the classic decoder
                    let mut a = Allocator::new();
                    let nn = json_tree(&mut a, &prog).unwrap();
                    p2 = node_to_bytes_backrefs(&a, nn).unwrap();
                }
                1 => {
                    let mut a = Allocator::new();
                    let nn = json_tree(&mut a, &prog).unwrap();
                    p2 = serialize_2026(&a, nn, 0).unwrap();
                }
                2 => {
                    let k = r.below(p2.len() as u64) as usize;
                    p2.truncate(k);
                }
                3 => {
                    let k = r.below(e2.len() as u64) as usize;
                    e2.truncate(k);
                }
                4 => p2.extend_from_slice(&r.bytes(3)),                // trailing bytes are ignored
                5 => {
                    let k = r.below(p2.len() as u64) as usize;
                    p2[k] = r.next() as u8;
                }
                6 => {
                    // non-minimal length prefix for a one-byte environment
                    e2 = vec![0xc0, 0x01, 0x05];
                }
                7 => e2 = vec![0xfe, 0x00, 0x00, 0x00, 0x00, 0x00, 0x01, 0x41],   // 7-byte prefix: refused by the Rust decoder
                _ => {}
            }
            out.emit(&json!({"case": case, "vn": "", "pbytes": bytes_json(&p2), "ebytes": bytes_json(&e2),
                "budget": n_le(budget as u128), "flagword": word_json(word), "pyrels": []}));
            case += 1;
        }
        if !heavy {
            made += 1;
        }
    }
}

// ---------------------------------------------------------------------------
// codec cases (C26): deser_* / ser_* / serialized_length / deserialize_as_tree

fn codec_tree(r: &mut Rng) -> Value {
    match r.below(40) {
        0 | 1 => {
            // a long list (deep on the right)
            let n = 60 + r.below(240) as usize;
            let items: Vec<Value> = (0..n).map(|i| if i % 7 == 0 { atom_json(&[1, 2, 3, 4, 5]) } else { int_atom((i % 50) as i64) }).collect();
            list_json(&items)
        }
        2 => {
            // deep on the left
            let mut t = atom_json(&[]);
            for i in 0..(60 + r.below(100)) {
                t = json!({"f": t, "r": int_atom((i % 3) as i64)});
            }
            t
        }
        3 => {
            // atoms at the length-prefix boundaries
            let n = *r.pick(&[63usize, 64, 65, 8191, 8192]);
            let b = vec![r.next() as u8; n];
            json!({"f": atom_json(&b), "r": json!({"f": atom_json(&b), "r": atom_json(&[0x80])})})
        }
        _ => {
            let budget = 1 + r.below(40) as usize;
            let share = *r.pick(&[0u64, 10, 30, 60]);
            rand_tree(r, budget, 12, share)
        }
    }
}

fn deser_rust(func: &str, blob: &[u8], max: usize, strict: bool, level: u32) -> Value {
    let mut a = Allocator::new();
    let res: Result<NodePtr, String> = match func {
        "deser_legacy" => node_from_bytes(&mut a, blob).map_err(|e| e.to_string()),
        "deser_backrefs" => node_from_bytes_backrefs(&mut a, blob).map_err(|e| e.to_string()),
        "deser_2026" => deserialize_2026(&mut a, blob, max, strict).map_err(|e| {
            if !blob.starts_with(&MAGIC) {
                "deser_2026: blob is missing the serde_2026 magic prefix".to_string()
            } else {
                e.to_string()
            }
        }),
        _ => {
            if let Some(body) = blob.strip_prefix(&MAGIC[..]) {
                deserialize_2026_body_from_stream(&mut a, &mut Cursor::new(body), max, strict).map_err(|e| e.to_string())
            } else {
                node_from_bytes_backrefs(&mut a, blob).map_err(|e| e.to_string())
            }
        }
    };
    match res {
        Err(m) => json!({"ok": false, "msg": m}),
        Ok(n) => {
            // a serializer error is the impossible byte string [999] (keeps the field a sequence for TLC)
            let f = |x: Result<Vec<u8>, EvalErr>| match x {
                Ok(b) => bytes_json(&b),
                Err(_) => json!([999]),
            };
            json!({"ok": true, "tree": tree_json(&a, n), "ser_legacy": f(node_to_bytes(&a, n)),
                   "ser_backrefs": f(node_to_bytes_backrefs(&a, n)), "ser_2026": f(serialize_2026(&a, n, level))})
        }
    }
}

fn triples_json(t: &[ParsedTriple]) -> Value {
    Value::Array(t.iter().map(|p| match p {
        ParsedTriple::Atom { start, end, atom_offset } => json!([start, end, atom_offset]),
        ParsedTriple::Pair { start, end, right_index } => json!([start, end, right_index]),
    }).collect())
}

fn mutate(r: &mut Rng, blob: &mut Vec<u8>) -> &'static str {
    match r.below(20) {
        0 | 1 => {
            let k = r.below(blob.len() as u64 + 1) as usize;
            blob.truncate(k);
            "truncate"
        }
        2 | 3 => {
            if !blob.is_empty() {
                let k = r.below(blob.len() as u64) as usize;
                blob[k] = *r.pick(&[0u8, 1, 0x7f, 0x80, 0xfe, 0xff, 0xc0, 0xfd]);
            }
            "set-byte"
        }
        4 => {
            if !blob.is_empty() {
                let k = r.below(blob.len() as u64) as usize;
                blob[k] ^= 1 << r.below(8);
            }
            "flip-bit"
        }
        5 => {
            blob.extend_from_slice(&rbytes(&mut *r, 1 as u64, 4));
            "trailing"
        }
        6 => {
            let n = r.below(12) as usize;
            *blob = r.bytes(n);
            "random"
        }
        7 => {
            let k = r.below(blob.len() as u64 + 1) as usize;
            blob.insert(k, 0xfe);
            "insert-fe"
        }
        8 => {
            let mut b = MAGIC.to_vec();
            b.extend_from_slice(&rbytes(&mut *r, 0, 8));
            *blob = b;
            "magic-junk"
        }
        _ => "none",
    }
}

fn gen_codec(seed: u64, n: u64, out: &mut Out) {
    let mut r = Rng::new(seed ^ 0xc0dec);
    for case in 0..n {
        let tree = codec_tree(&mut r);
        let mut a = Allocator::new();
        let node = json_tree(&mut a, &tree).unwrap();
        let fmt = *r.pick(&["classic", "backrefs", "2026", "2026"]);
        let mut blob = match fmt {
            "classic" => node_to_bytes(&a, node).unwrap(),
            "backrefs" => node_to_bytes_backrefs(&a, node).unwrap(),
            _ => serialize_2026(&a, node, 0).unwrap(),
        };
        let mutation = mutate(&mut r, &mut blob);
        // options as the Python caller passes them (absent = the binding's default)
        let max: Option<usize> = match r.below(10) {
            0 => Some(0), 1 => Some(1), 2 => Some(*r.pick(&[2usize, 5, 12, 63, 64])), 3 => Some(1 << 20), 4 => Some(8191), _ => None,
        };
        let strict: Option<bool> = match r.below(4) { 0 => Some(false), 1 => Some(true), _ => None };
        let level: Option<u32> = match r.below(6) { 0 => Some(0), 1 => Some(1), 2 => Some(7), 3 => Some(u32::MAX), _ => None };
        let maxv = max.unwrap_or(PY_DEFAULT_MAX_ATOM_LEN);
        let strictv = strict.unwrap_or(true);
        for func in ["deser_legacy", "deser_backrefs", "deser_2026", "deser_auto"] {
            let blob2 = blob.clone();
            let lv = level.unwrap_or(0);
            let rust = catch(move || deser_rust(func, &blob2, maxv, strictv, lv)).unwrap_or_else(|p| json!({"panic": p}));
            let mut ev = json!({"ev": "deser", "case": case, "fn": func, "fmt": fmt, "mutation": mutation, "blob": bytes_json(&blob),
                "max": n_le(maxv as u128), "strict": strictv, "rust": rust});
            // options as passed by the Python caller; an absent key = the binding's default (no JSON nulls in traces)
            if let Some(m) = max { ev["opt_max"] = json!(m.to_string()); }
            if let Some(s) = strict { ev["opt_strict"] = json!(s); }
            if let Some(l) = level { ev["opt_level"] = json!(l.to_string()); }
            out.emit(&ev);
        }
        if case % 2 == 0 {
            let rust = match serialized_length_from_bytes(&blob) {
                Ok(l) => json!({"ok": true, "len": l}),
                Err(e) => json!({"ok": false, "msg": e.to_string()}),
            };
            out.emit(&json!({"ev": "len", "case": case, "blob": bytes_json(&blob), "rust": rust}));
            let hashes = r.chance(1, 2);
            let rust = match parse_triples(&mut Cursor::new(&blob[..]), hashes) {
                Ok((t, h)) => json!({"ok": true, "triples": triples_json(&t),
                    "hashes": Value::Array(h.unwrap_or_default().iter().map(|x| bytes_json(x)).collect())}),
                Err(e) => json!({"ok": false, "msg": e.to_string()}),
            };
            out.emit(&json!({"ev": "triples", "case": case, "blob": bytes_json(&blob), "hashes": hashes, "rust": rust}));
        }
    }
}

// ---------------------------------------------------------------------------
// trees (C27 conversion, C28 pure-Python serializer)

fn gen_trees(seed: u64, n: u64, out: &mut Out) {
    let mut r = Rng::new(seed ^ 0x7ee5);
    for case in 0..n {
        let tree = match r.below(30) {
            0 => atom_json(&rand_atom_bytes(&mut r, 12)),
            1..=3 => codec_tree(&mut r),
            10 | 11 => {
                // atoms at the length-prefix class boundaries (0x40, 0x2000)
                let n = *r.pick(&[63usize, 64, 64, 65, 63, 64, 65, 8191, 8192, 8193]);
                let fill = r.next() as u8;
                let b = vec![fill; n];
                if r.chance(1, 2) { atom_json(&b) } else { json!({"f": atom_json(&b), "r": atom_json(&rand_atom_bytes(&mut r, 6))}) }
            }
            4..=9 => {
                // complete-ish trees of depth up to 6 over few atom values (the F1 probe's shape)
                fn full(r: &mut Rng, d: u32) -> Value {
                    if d == 0 || r.chance(1, 5) {
                        atom_json(&[r.below(4) as u8 + 0x61])
                    } else {
                        let f = full(r, d - 1);
                        let rr = full(r, d - 1);
                        json!({"f": f, "r": rr})
                    }
                }
                let d = 1 + r.below(6) as u32;
                full(&mut r, d)
            }
            _ => {
                let budget = 1 + r.below(50) as usize;
                let share = *r.pick(&[0u64, 20, 50]);
                rand_tree(&mut r, budget, 12, share)
            }
        };
        let mut a = Allocator::new();
        let node = json_tree(&mut a, &tree).unwrap();
        let bytes = node_to_bytes(&a, node).unwrap();
        let h = tree_hash_json(&a, node);
        out.emit(&json!({"ev": "tree", "case": case, "tree": tree, "bytes": bytes_json(&bytes), "hash": bytes_json(&h)}));
    }
}

// ---------------------------------------------------------------------------
// byte strings for the pure-Python stream decoders (C28)

fn gen_blobs(seed: u64, n: u64, out: &mut Out) {
    let mut r = Rng::new(seed ^ 0xb10b5);
    for case in 0..n {
        let tree = if r.chance(1, 4) { atom_json(&rand_atom_bytes(&mut r, 20)) } else { let b = 1 + r.below(24) as usize; rand_tree(&mut r, b, 10, 20) };
        let mut a = Allocator::new();
        let node = json_tree(&mut a, &tree).unwrap();
        let mut blob = node_to_bytes(&a, node).unwrap();
        let class = match r.below(28) {
            24..=27 => {
                // the stream ends INSIDE a multi-byte length prefix (size bits so far all zero, or not): cut the valid
                // serialization at the start of one of its items and put an unfinished prefix there
                let mut starts = vec![];
                let mut i = 0usize;
                while i < blob.len() {
                    starts.push(i);
                    let b = blob[i];
                    if b == 0xff || b < 0x80 {
                        i += 1;
                    } else {
                        let k = b.leading_ones() as usize;
                        let mut size = (b & (0xffu16 >> k) as u8) as usize;
                        for x in &blob[i + 1..i + k] {
                            size = (size << 8) | *x as usize;
                        }
                        i += k + size;
                    }
                }
                let at = *r.pick(&starts);
                blob.truncate(at);
                let cuts: [&[u8]; 18] = [&[0xc0], &[0xe0], &[0xe0, 0], &[0xf0], &[0xf0, 0], &[0xf0, 0, 0], &[0xf8], &[0xf8, 0, 0],
                    &[0xf8, 0, 0, 0], &[0xfc], &[0xfc, 0, 0], &[0xfc, 0, 0, 0, 0], &[0xc1], &[0xe0, 1], &[0xf0, 0, 1], &[0xdf],
                    &[0xe0, 0, 0], &[0xc0, 0]];
                blob.extend_from_slice(*r.pick(&cuts));
                "cut-prefix"
            }
            0..=7 => "valid",
            8 | 9 => {
                // re-encode the length prefix of the first prefixed atom with a wider prefix class
                let width = *r.pick(&[2usize, 3, 4, 5, 6, 7, 7, 7]);
                let mut i = 0usize;
                let mut done = false;
                while i < blob.len() {
                    let b = blob[i];
                    if b == 0xff || b < 0x80 {
                        i += 1;
                        continue;
                    }
                    if b >= 0x80 && b < 0xc0 {
                        let len = (b & 0x3f) as usize;
                        let mut pre = vec![0u8; width];
                        pre[0] = (0xffu16 << (8 - width)) as u8;
                        pre[width - 1] |= len as u8;
                        if width == 1 { pre[0] = 0x80 | len as u8; }
                        blob.splice(i..i + 1, pre);
                        done = true;
                    }
                    break;
                }
                if !done {
                    // no prefixed atom first: put a 7-byte-prefix atom in front as the left element of a pair
                    let mut b2 = vec![0xff, 0xfe, 0, 0, 0, 0, 0, 1, 0x41];
                    b2.extend_from_slice(&blob);
                    blob = b2;
                }
                "wide-prefix"
            }
            10 => {
                blob = vec![0xfe, 0, 0, 0, 0, 0, r.below(4) as u8];
                let k = blob[6] as usize;
                blob.extend_from_slice(&rbytes(&mut r, k as u64, 2));
                "fe-prefix"
            }
            11 => {
                blob = vec![*r.pick(&[0xfcu8, 0xfd, 0xfe]), *r.pick(&[0u8, 3, 4, 0x80]), 0, 0, 0, *r.pick(&[0u8, 2])];
                blob.extend_from_slice(&rbytes(&mut r, 0, 4));
                "big-size"
            }
            12 => {
                blob = node_to_bytes_backrefs(&a, node).unwrap();
                "backrefs"
            }
            13 | 14 => {
                let k = r.below(blob.len() as u64 + 1) as usize;
                blob.truncate(k);
                "truncate"
            }
            15 | 16 => {
                let n = r.below(10) as usize;
                blob = r.bytes(n);
                "random"
            }
            17 | 18 => {
                if !blob.is_empty() {
                    let k = r.below(blob.len() as u64) as usize;
                    blob[k] = *r.pick(&[0xfeu8, 0xff, 0x80, 0xc0, 0xe0, 0xf0, 0xf8, 0xfc]);
                }
                "set-byte"
            }
            19 => {
                blob.extend_from_slice(&rbytes(&mut r, 1 as u64, 3));
                "trailing"
            }
            _ => {
                let k = r.below(blob.len() as u64 + 1) as usize;
                blob.insert(k, 0xfe);
                "insert-fe"
            }
        };
        let blob2 = blob.clone();
        let rust = catch(move || {
            let mut a = Allocator::new();
            let mut c = Cursor::new(&blob2[..]);
            match node_from_stream(&mut a, &mut c) {
                Ok(nn) => json!({"ok": true, "tree": tree_json(&a, nn), "used": c.position()}),
                Err(e) => json!({"ok": false, "msg": e.to_string()}),
            }
        }).unwrap_or_else(|p| json!({"panic": p}));
        let blob2 = blob.clone();
        let rt = catch(move || match parse_triples(&mut Cursor::new(&blob2[..]), true) {
            Ok((t, h)) => json!({"ok": true, "triples": triples_json(&t),
                "hashes": Value::Array(h.unwrap_or_default().iter().map(|x| bytes_json(x)).collect())}),
            Err(e) => json!({"ok": false, "msg": e.to_string()}),
        }).unwrap_or_else(|p| json!({"panic": p}));
        out.emit(&json!({"ev": "pydeser", "case": case, "class": class, "blob": bytes_json(&blob), "rust": rust, "rust_triples": rt}));
    }
}

// ---------------------------------------------------------------------------
// integers (C28)

fn number_of(neg: bool, mag_le: &[u8]) -> Number {
    let mut n = Number::from(0u8);
    for d in mag_le.iter().rev() {
        n = (n << 8usize) + Number::from(*d);
    }
    if neg { -n } else { n }
}

fn gen_ints(seed: u64, n: u64, out: &mut Out) {
    let mut r = Rng::new(seed ^ 0x1275);
    for case in 0..n {
        if case % 2 == 0 {
            // integer -> atom
            let mut mag: Vec<u8> = match r.below(6) {
                0 => {
                    // +-2^(8k-1) +- {0,1}
                    let k = 1 + r.below(12) as usize;
                    let mut m = vec![0u8; k];
                    m[k - 1] = 0x80;
                    match r.below(3) {
                        0 => {}
                        1 => m[0] |= 1,
                        _ => {
                            // minus one
                            m = vec![0xff; k];
                            m[k - 1] = 0x7f;
                        }
                    }
                    m
                }
                1 => vec![r.below(256) as u8],
                2 => vec![r.below(256) as u8, r.below(256) as u8],
                3 => vec![0xff; 1 + r.below(9) as usize],
                4 => vec![],
                _ => {
                    let k = 1 + r.below(40) as usize;
                    r.bytes(k)
                }
            };
            while mag.last() == Some(&0) {
                mag.pop();
            }
            let neg = !mag.is_empty() && r.chance(1, 2);
            let (m2, neg2) = (mag.clone(), neg);
            let rust = catch(move || {
                let mut a = Allocator::new();
                let nn = a.new_number(number_of(neg2, &m2)).unwrap();
                bytes_json(a.atom(nn).as_ref())
            }).unwrap_or_else(|_| json!([999]));
            out.emit(&json!({"ev": "int", "case": case, "dir": "to", "neg": neg, "mag": bytes_json(&mag), "rust": rust}));
        } else {
            let b: Vec<u8> = match r.below(5) {
                0 => r.pick(BOUNDARY_ATOMS).to_vec(),
                1 => {
                    let mut v = vec![*r.pick(&[0u8, 0xff]); 1 + r.below(3) as usize];
                    v.extend_from_slice(&rbytes(&mut r, 0, 4));
                    v
                }
                _ => { let k = r.below(20) as usize; r.bytes(k) }
            };
            let v = number_from_u8(&b);
            let neg = v < Number::from(0u8);
            let mag = v.magnitude().to_bytes_le();
            let mag: Vec<u8> = if mag == [0] { vec![] } else { mag };
            out.emit(&json!({"ev": "int", "case": case, "dir": "from", "bytes": bytes_json(&b),
                "rust": {"neg": neg, "mag": bytes_json(&mag)}}));
        }
    }
}

// ---------------------------------------------------------------------------
// curry cases (C28)

fn gen_curry(seed: u64, n: u64, out: &mut Out) {
    let mut r = Rng::new(seed ^ 0xc0771);
    for case in 0..n {
        let nargs = r.below(5) as usize;
        let mut pg = PG { r: &mut r, newer: true, guards: false, crypto: false, unknown: true };
        let m = match pg.r.below(6) {
            0 => {
                // a module that adds up its first arguments: (+ 2 5 11 ..)
                let mut items = vec![atom_json(&[16])];
                let paths: [&[u8]; 4] = [&[2], &[5], &[11], &[23]];
                for p in paths.iter().take(1 + pg.r.below(4) as usize) {
                    items.push(atom_json(p));
                }
                list_json(&items)
            }
            1 => atom_json(&[1]),                       // returns its whole environment
            2 => list_json(&[atom_json(&[4]), atom_json(&[2]), atom_json(&[3])]),   // (c 2 3)
            3 => atom_json(&rand_atom_bytes(pg.r, 3)),  // a path (or nil)
            _ => { let d = 1 + pg.r.below(3) as u32; pg.expr(d) }
        };
        let args: Vec<Value> = (0..nargs).map(|_| pg.value()).collect();
        let env = if pg.r.chance(1, 3) { atom_json(&[]) } else { list_json(&[pg.value(), pg.value()]) };
        if tree_depth(&m) > 60 {
            continue;
        }
        out.emit(&json!({"ev": "currycase", "case": case, "m": m, "args": args, "env": env}));
    }
}

fn main() {
    let args: Vec<String> = std::env::args().collect();
    let cmd = args.get(1).map(|s| s.as_str()).unwrap_or("");
    let mut out = Out::create(&arg(&args, "--out").unwrap_or("-".into()));
    let seed = arg_u64(&args, "--seed", 1);
    let n = arg_u64(&args, "--n", 100);
    match cmd {
        "gen-run" => gen_run(seed, n, &mut out),
        "run-cases" => run_cases(&arg(&args, "--in").expect("--in"), &mut out),
        "gen-codec" => gen_codec(seed, n, &mut out),
        "gen-trees" => gen_trees(seed, n, &mut out),
        "gen-blobs" => gen_blobs(seed, n, &mut out),
        "gen-ints" => gen_ints(seed, n, &mut out),
        "gen-curry" => gen_curry(seed, n, &mut out),
        _ => {
            eprintln!("usage: pyref gen-run|run-cases|gen-codec|gen-trees|gen-blobs|gen-ints|gen-curry ...");
            std::process::exit(2);
        }
    }
    out.flush();
}
