//! `py` engine, Rust side (C26, C27, C28): what the Rust core answers for the inputs that the Python
//! driver (/verif/pyharness/driver.py) feeds to the wheel.
//!
//!   pyref gen-run   --seed S --n N --out cases.ndjson     run cases {case,vn,pbytes,ebytes,budget,flagword,pyrels}
//!   pyref run-cases --in cases.ndjson --out rust.ndjson   replicate run_serialized_chia_program in Rust:
//!         {"ev":"begin",case,variant:<vn>rust,dialect:"chia",flagword,flags,budget,pbytes,ebytes,prog,env,al,wit}
//!         {"ev":"end",case,variant,ok,cost,val | kind,msg,enode | panic, atoms,pairs,heap, rels:[], pyrels}
//!      or {"ev":"prefail",case,vn,pbytes,ebytes,flagword,budget,rust:{ok:false,msg,which}}   (input does not deserialize)
//!   pyref gen-codec --seed S --n N --out f    C26 ser_*/deser_*/serialized_length/deserialize_as_tree events, "rust" filled
//!   pyref gen-trees --seed S --n N --out f    trees + classic bytes + tree hash (C27 conv, C28 pyser)
//!   pyref gen-blobs --seed S --n N --out f    byte strings with what the classic Rust decoders answer (C28 pydeser)
//!   pyref gen-ints  --seed S --n N --out f    integers <-> atoms (C28 int)
//!   pyref gen-curry --seed S --n N --out f    module / arguments / environment triples (C28 curry)
//! The program generators are the ones of the `run` engine (copied from run.rs).
#![allow(dead_code)]
use clvm_fuzzing::{make_clvm_program, make_tree_limits};
use clvmr::allocator::{Allocator, NodePtr};
use clvmr::chia_dialect::{ChiaDialect, ClvmFlags};
use clvmr::cost::Cost;
use clvmr::dialect::{Dialect, OperatorSet};
use clvmr::error::EvalErr;
use clvmr::number::{number_from_u8, Number};
use clvmr::reduction::{Reduction, Response};
use clvmr::run_program::run_program;
use clvmr::serde::{
    node_from_bytes, node_from_bytes_backrefs, node_from_stream, node_to_bytes, node_to_bytes_backrefs, parse_triples,
    serialized_length_from_bytes, ParsedTriple,
};
use clvmr::serde_2026::{deserialize_2026, deserialize_2026_body_from_stream, serialize_2026};
use serde_json::{json, Value};
use std::cell::RefCell;
use std::io::Cursor;
use vh::gen::*;
use vh::*;

// ---------------------------------------------------------------------------
// dialect wrappers

/// records the outcome of every cryptographic operator call (witnesses for the specification)
struct Witness<'a, D: Dialect> {
    inner: &'a D,
    log: RefCell<Vec<Value>>,
    /// treat the 4-byte secp opcodes / one-byte crypto opcodes as the wrapped dialect does
    unaware: bool,
}

fn is_crypto(op: &[u8], flag_bits: u32, unaware: bool, runtime: bool) -> bool {
    if op.len() == 4 {
        return !unaware && !runtime && (op == [0x13, 0xd6, 0x1f, 0x00] || op == [0x1c, 0x3a, 0x8f, 0x00]);
    }
    if op.len() != 1 {
        return false;
    }
    match op[0] {
        29 | 30 | 49..=59 => true,
        62 => !runtime && flag_bits & 0x0100 != 0,
        64 | 65 => !runtime && flag_bits & 0x0800 != 0,
        _ => false,
    }
}

impl<D: Dialect> Dialect for Witness<'_, D> {
    fn quote_kw(&self) -> u32 {
        self.inner.quote_kw()
    }
    fn apply_kw(&self) -> u32 {
        self.inner.apply_kw()
    }
    fn softfork_kw(&self) -> u32 {
        self.inner.softfork_kw()
    }
    fn softfork_extension(&self, ext: u32) -> OperatorSet {
        self.inner.softfork_extension(ext)
    }
    fn flags(&self) -> ClvmFlags {
        self.inner.flags()
    }
    fn gc_candidate(&self, a: &Allocator, op: NodePtr) -> bool {
        self.inner.gc_candidate(a, op)
    }
    fn allow_unknown_ops(&self) -> bool {
        self.inner.allow_unknown_ops()
    }
    fn op(&self, a: &mut Allocator, op: NodePtr, args: NodePtr, max_cost: Cost, ext: OperatorSet) -> Response {
        let opb = a.atom(op).as_ref().to_vec();
        let mut fl = self.inner.flags().bits();
        if matches!(ext, OperatorSet::Keccak | OperatorSet::PreHardFork) {
            fl |= 0x0100;
        }
        let crypto = is_crypto(&opb, fl, self.unaware, false);
        let (a0, h0) = (a.atom_count(), a.heap_size());
        let r = self.inner.op(a, op, args, max_cost, ext);
        if crypto {
            let w = match &r {
                Ok(Reduction(cost, node)) => {
                    let al: Vec<Value> = if a.atom_count() > a0 { vec![json!(["A", a.heap_size() - h0])] } else { vec![] };
                    json!({"ok": true, "cost": n_le(*cost as u128), "val": tree_json(a, *node), "al": al, "op": bytes_json(&opb)})
                }
                Err(e) => json!({"ok": false, "kind": err_kind(e), "op": bytes_json(&opb)}),
            };
            self.log.borrow_mut().push(w);
        }
        r
    }
}

// ---------------------------------------------------------------------------
// program generators

fn q(v: Value) -> Value {
    json!({"f": atom_json(&[1]), "r": v})
}

fn int_atom(v: i64) -> Value {
    let b = v.to_be_bytes();
    let mut s = &b[..];
    if v >= 0 {
        while !s.is_empty() && s[0] == 0 && (s.len() == 1 || s[1] & 0x80 == 0) {
            s = &s[1..];
        }
    } else {
        while s.len() > 1 && s[0] == 0xff && s[1] & 0x80 != 0 {
            s = &s[1..];
        }
    }
    atom_json(s)
}

const CLASSIC_OPS: &[u8] = &[3, 4, 5, 6, 7, 8, 9, 10, 11, 12, 13, 14, 16, 17, 18, 19, 20, 21, 22, 23, 24, 25, 26, 27, 32, 33, 34];
const NEWER_OPS: &[u8] = &[48, 60, 61, 63];

struct PG<'r> {
    r: &'r mut Rng,
    /// include operators beyond the classic set
    newer: bool,
    guards: bool,
    crypto: bool,
    unknown: bool,
}

impl PG<'_> {
    fn value(&mut self) -> Value {
        match self.r.below(10) {
            0 => rand_tree(self.r, 5, 6, 20),
            1 => int_atom(self.r.range(-300, 300)),
            2 => int_atom(self.r.range(0, 40)),
            _ => atom_json(&rand_atom_bytes(self.r, 10)),
        }
    }

    fn path(&mut self) -> Value {
        match self.r.below(12) {
            0 => atom_json(&[0, self.r.below(8) as u8 + 1]),       // leading zero byte
            1 => atom_json(&[0]),
            2 => atom_json(&[]),
            3 => atom_json(&[self.r.below(256) as u8, self.r.below(256) as u8]),
            _ => atom_json(&[self.r.below(16) as u8 + 1]),
        }
    }

    fn expr(&mut self, depth: u32) -> Value {
        if depth == 0 || self.r.chance(1, 4) {
            return if self.r.chance(2, 3) { q(self.value()) } else { self.path() };
        }
        let c = self.r.below(100);
        if c < 6 {
            // (a (q . prog) env)
            let p = self.expr(depth - 1);
            let e = if self.r.chance(1, 2) { atom_json(&[1]) } else { self.expr(depth - 1) };
            return list_json(&[atom_json(&[2]), q(p), e]);
        }
        if c < 9 {
            // ((X) . args) form and malformed variants
            let x = atom_json(&[*self.r.pick(&[16u8, 4, 5, 9, 2])]);
            let inner = match self.r.below(5) {
                0 => json!({"f": x, "r": atom_json(&[7])}),
                1 => json!({"f": json!({"f": x, "r": atom_json(&[])}), "r": atom_json(&[])}),
                _ => json!({"f": x, "r": atom_json(&[])}),
            };
            let args = list_json(&[self.value(), self.value()]);
            return json!({"f": inner, "r": args});
        }
        if c < 14 && self.guards {
            return self.guard(depth);
        }
        if c < 19 && self.unknown {
            let len = *self.r.pick(&[1usize, 2, 2, 3, 5, 6]);
            let mut op = self.r.bytes(len);
            if len == 1 {
                op[0] = *self.r.pick(&[15u8, 28, 31, 35, 37, 47, 0x40, 0x80, 0xc1, 0x7f, 0, 62, 63, 64]);
            } else if self.r.chance(1, 6) {
                op[0] = 0xff;
                op[1] = 0xff;
            } else {
                op[0] &= 0x0f;
                if len > 2 {
                    op[1] &= 0x03;
                }
            }
            let n = self.r.below(4) as usize;
            let mut items = vec![atom_json(&op)];
            for _ in 0..n {
                items.push(self.expr(depth - 1));
            }
            return list_json(&items);
        }
        if c < 22 && self.crypto {
            return self.crypto_expr();
        }
        let op = if self.newer && self.r.chance(1, 6) { *self.r.pick(NEWER_OPS) } else { *self.r.pick(CLASSIC_OPS) };
        let arity = match op {
            3 => 3,
            5 | 6 | 7 | 13 | 27 | 32 | 63 => 1,
            4 | 9 | 10 | 19 | 20 | 21 | 22 | 23 | 61 => 2,
            12 => *self.r.pick(&[2usize, 3]),
            48 | 60 => 3,
            8 => self.r.below(3) as usize,
            _ => self.r.below(4) as usize,
        };
        let arity = if self.r.chance(1, 15) { (arity + 1) % 5 } else { arity };
        let mut items = vec![atom_json(&[op])];
        for i in 0..arity {
            let it = match (op, i) {
                (22 | 23, 1) => q(int_atom(self.r.range(-40, 40))),
                (12, 1) | (12, 2) => q(int_atom(self.r.range(-1, 8))),
                (5 | 6, 0) if self.r.chance(1, 2) => q(rand_tree(self.r, 7, 4, 10)),
                _ => self.expr(depth - 1),
            };
            items.push(it);
        }
        let mut t = list_json(&items);
        if self.r.chance(1, 40) {
            // improper operand list
            t = json!({"f": items[0].clone(), "r": atom_json(&[5])});
        }
        t
    }

    /// programs aimed at the fast paths (C05): all-small add/sub at the u64/i64 edges, (sha256 1 n),
    /// small >, inline path lookups at bit 7/15/23, multiply with mixed representations
    fn fast_expr(&mut self, depth: u32) -> Value {
        let big = |r: &mut Rng| -> Value {
            // 26-bit values (inline) near the top, so sums overflow u64/i64 only with many terms; plus 8-byte edge values
            match r.below(6) {
                0 => int_atom(0x3ff_ffff - r.range(0, 2)),
                1 => int_atom(r.range(0, 300)),
                2 => atom_json(&[0x7f, 0xff, 0xff, 0xff, 0xff, 0xff, 0xff, 0xff - r.below(2) as u8]),
                3 => atom_json(&[0x00, 0xff, 0xff, 0xff, 0xff, 0xff, 0xff, 0xff, 0xff - r.below(2) as u8]),
                4 => int_atom(-(r.range(0, 300))),
                _ => int_atom(r.range(0, 0x3ff_ffff)),
            }
        };
        match self.r.below(8) {
            0 | 1 => {
                let op = *self.r.pick(&[16u8, 17]);
                let n = 1 + self.r.below(6) as usize;
                let mut items = vec![atom_json(&[op])];
                for _ in 0..n {
                    let v = big(self.r);
                    items.push(if depth > 0 && self.r.chance(1, 5) { self.fast_expr(depth - 1) } else { q(v) });
                }
                list_json(&items)
            }
            2 => {
                let n = self.r.range(0, 40);
                list_json(&[atom_json(&[11]), q(int_atom(1)), q(if self.r.chance(1, 6) { atom_json(&[0, n as u8]) } else { int_atom(n) })])
            }
            3 => list_json(&[atom_json(&[21]), q(big(self.r)), q(big(self.r))]),
            4 => {
                // path lookups with 7 / 15 / 23 steps: environment must be deep; also leading-zero paths
                let bits = *self.r.pick(&[6u32, 7, 8, 14, 15, 16, 22, 23, 24]);
                let v: u32 = (1 << bits) | (self.r.next() as u32 & ((1 << bits) - 1) & 0x0101_0101);
                let b = v.to_be_bytes();
                let skip = b.iter().take_while(|x| **x == 0).count();
                let mut p = b[skip..].to_vec();
                if p[0] & 0x80 != 0 || self.r.chance(1, 6) {
                    p.insert(0, 0);
                }
                atom_json(&p)
            }
            5 => {
                let n = 2 + self.r.below(3) as usize;
                let mut items = vec![atom_json(&[18])];
                for _ in 0..n {
                    items.push(q(big(self.r)));
                }
                list_json(&items)
            }
            _ => self.expr(depth.min(2)),
        }
    }

    fn crypto_expr(&mut self) -> Value {
        let g1 = hex::decode("97f1d3a73197d7942695638c4fa9ac0fc3688c4f9774b905a14e3a3f171bac586c55e83ff97a1aeffb3af00adb22c6bb").unwrap();
        match self.r.below(6) {
            0 => list_json(&[atom_json(&[30]), q(int_atom(self.r.range(-5, 50)))]),
            1 => list_json(&[atom_json(&[29]), q(atom_json(&g1)), list_json(&[atom_json(&[30]), q(int_atom(self.r.range(1, 9)))])]),
            2 => list_json(&[atom_json(&[51]), q(atom_json(&g1))]),
            3 => list_json(&[atom_json(&[62]), q(atom_json(&self.r.bytes(5)))]),
            4 => list_json(&[atom_json(&[56]), q(atom_json(&self.r.bytes(3)))]),
            _ => list_json(&[atom_json(&[50]), q(atom_json(&g1)), q(int_atom(self.r.range(-3, 300)))]),
        }
    }

    /// (softfork (q . cost) (q . ext) (q . prog) (q . env)); the declared cost is fixed up by the caller
    fn guard(&mut self, depth: u32) -> Value {
        let inner = if self.r.chance(1, 3) && depth > 1 { self.guard(depth - 1) } else { self.expr(depth.min(2)) };
        let ext = match self.r.below(8) {
            0 => int_atom(2),
            1 => atom_json(&[0, 1]),
            2 => int_atom(1),
            3 => atom_json(&[1, 0, 0, 0, 0]),
            _ => int_atom(self.r.below(2) as i64),
        };
        let env = self.value();
        let marker = atom_json(&[0x7f, 0x7f, 0x7f, 0x7f, 0x7f, 0x7f, 0x7f]); // replaced by fix_guards
        let mut items = vec![atom_json(&[36]), q(marker), q(ext), q(inner), q(env)];
        if self.r.chance(1, 12) {
            items.pop();
        }
        list_json(&items)
    }
}

/// replace the declared-cost markers of guards, innermost first, by the true cost (or a perturbed one)
fn fix_guards(r: &mut Rng, prog: &Value, fl: u32) -> Value {
    fn is_marker(v: &Value) -> bool {
        v.get("a").map(|b| json_bytes(b) == [0x7f; 7]).unwrap_or(false)
    }
    fn rec(r: &mut Rng, v: &Value, fl: u32) -> Value {
        if v.get("a").is_some() {
            return v.clone();
        }
        let f = rec(r, &v["f"], fl);
        let rr = rec(r, &v["r"], fl);
        let node = json!({"f": f, "r": rr});
        // (36 (q . marker) (q . ext) (q . prog) (q . env))
        let items = list_items(&node);
        if items.len() >= 4 && items[0].get("a").map(|b| json_bytes(b) == [36]).unwrap_or(false)
            && items[1].get("f").is_some() && is_marker(&items[1]["r"])
        {
            let ext_atom = items[2].get("r").cloned().unwrap_or(atom_json(&[]));
            let ext_bytes = ext_atom.get("a").map(json_bytes).unwrap_or_default();
            let prog = items[3].get("r").cloned().unwrap_or(atom_json(&[]));
            let env = items.get(4).and_then(|e| e.get("r").cloned()).unwrap_or(atom_json(&[]));
            // probe: cost of the guarded program on its own
            let inner_flags = fl | if ext_bytes == [1] || fl & 0x2000 != 0 { 0x0100 } else { 0 };
            let c = {
                let mut a = Allocator::new();
                let p = json_tree(&mut a, &prog).unwrap();
                let e = json_tree(&mut a, &env).unwrap();
                let d = ChiaDialect::new(flags(inner_flags & !0x0020));
                match catch(|| run_program(&mut a, &d, p, e, 0)) {
                    Ok(Ok(Reduction(c, _))) => c,
                    _ => r.below(5000) + 1,
                }
            };
            let guard_cost = if fl & 0x2000 != 0 { 500 } else { 140 };
            let declared = match r.below(12) {
                0 => c + guard_cost + 1,
                1 => (c + guard_cost).saturating_sub(1),
                2 => 0,
                3 => u64::MAX >> r.below(20),
                _ => c + guard_cost,
            };
            let mut b = declared.to_be_bytes().to_vec();
            while !b.is_empty() && b[0] == 0 {
                b.remove(0);
            }
            if !b.is_empty() && b[0] & 0x80 != 0 {
                b.insert(0, 0);
            }
            if r.chance(1, 15) {
                b.insert(0, 0); // non-canonical declared cost
            }
            let mut new_items = items.clone();
            new_items[1] = q(atom_json(&b));
            return list_json(&new_items);
        }
        node
    }
    rec(r, prog, fl)
}

fn list_items(v: &Value) -> Vec<Value> {
    let mut out = vec![];
    let mut t = v;
    while t.get("f").is_some() {
        out.push(t["f"].clone());
        t = &t["r"];
    }
    out
}

fn fuzz_program(r: &mut Rng) -> Option<(Value, Value)> {
    let n = 200 + r.below(600) as usize;
    let data = r.bytes(n);
    let mut u = arbitrary::Unstructured::new(&data);
    let mut a = Allocator::new();
    let (env, _) = make_tree_limits(&mut a, &mut u, 30, true).ok()?;
    let prog = make_clvm_program(&mut a, &mut u, env, 60).ok()?;
    let pj = unflatten_tree(&tree_json(&a, prog));
    let ej = unflatten_tree(&tree_json(&a, env));
    if tree_size(&pj) > 400 || tree_size(&ej) > 200 || tree_max_atom(&pj) > 200 || tree_max_atom(&ej) > 200 {
        return None;
    }
    Some((pj, ej))
}
