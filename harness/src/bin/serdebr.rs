//! C17 / C18 engine: serialization with back-references.
//!   serdebr replay --in <cases.ndjson> --out <mismatches.ndjson>           spec -> impl
//!   serdebr record --seed S --n N --what ser|de|both [--big K] --out <trace.ndjson>   impl -> spec
//!   serdebr observe --in <inputs.ndjson> --out <trace.ndjson>             events for given inputs
//!
//! Observed functions: node_to_bytes_backrefs, node_from_bytes_backrefs (vec stack),
//! node_from_bytes_backrefs_old (list stack), serialized_length_from_bytes (shadow-tree probe),
//! is_canonical_serialization, node_to_bytes (classic length).  Panics are data.
use clvmr::allocator::{Allocator, NodePtr, SExp};
use clvmr::serde::{
    is_canonical_serialization, node_from_bytes_backrefs, node_from_bytes_backrefs_old, node_to_bytes,
    node_to_bytes_backrefs, serialized_length_from_bytes,
};
use serde_json::{json, Value};
use std::collections::HashMap;
use vh::*;

// ---------------------------------------------------------------------------
// a small tree arena (DAG): children are created before their parents

#[derive(Clone, PartialEq, Eq, Hash)]
enum N {
    A(Vec<u8>),
    P(usize, usize),
}

#[derive(Default, Clone)]
struct Arena {
    nodes: Vec<N>,
    size: Vec<u64>, // expanded node count (saturating)
    depth: Vec<u32>,
    memo: HashMap<N, usize>,
}

impl Arena {
    fn atom(&mut self, b: &[u8]) -> usize {
        self.add(N::A(b.to_vec()), 1, 1)
    }
    fn pair(&mut self, f: usize, r: usize) -> usize {
        let s = 1u64.saturating_add(self.size[f]).saturating_add(self.size[r]);
        let d = 1 + self.depth[f].max(self.depth[r]);
        self.add(N::P(f, r), s, d)
    }
    // hash-consed: equal sub-trees get equal ids
    fn add(&mut self, n: N, s: u64, d: u32) -> usize {
        if let Some(i) = self.memo.get(&n) {
            return *i;
        }
        self.nodes.push(n.clone());
        self.size.push(s);
        self.depth.push(d);
        self.memo.insert(n, self.nodes.len() - 1);
        self.nodes.len() - 1
    }
    fn from_json(&mut self, v: &Value) -> usize {
        // nested JSON of bounded depth (vh::gen::rand_tree: depth <= 62)
        if let Some(b) = v.get("a") {
            self.atom(&json_bytes(b))
        } else {
            let f = self.from_json(&v["f"]);
            let r = self.from_json(&v["r"]);
            self.pair(f, r)
        }
    }
    /// flat form {"t":[..]} (any depth) or nested form (bounded depth)
    fn from_flat_or_nested(&mut self, v: &Value) -> usize {
        if let Some(tab) = v.get("t").and_then(|t| t.as_array()) {
            let mut ids: Vec<usize> = Vec::with_capacity(tab.len());
            for n in tab {
                if let Some(b) = n.get("a") {
                    ids.push(self.atom(&json_bytes(b)));
                } else {
                    let p = n["p"].as_array().expect("flat pair");
                    let f = ids[p[0].as_u64().unwrap() as usize - 1];
                    let r = ids[p[1].as_u64().unwrap() as usize - 1];
                    ids.push(self.pair(f, r));
                }
            }
            *ids.last().expect("empty flat tree")
        } else {
            self.from_json(v)
        }
    }
    /// flat JSON {"t":[..]} of the nodes reachable from root (shared entries appear once, root last)
    fn flat_json(&self, root: usize) -> Value {
        let mut idx: HashMap<usize, usize> = HashMap::new();
        let mut tab: Vec<Value> = Vec::new();
        let mut st = vec![(root, false)];
        while let Some((n, done)) = st.pop() {
            if idx.contains_key(&n) {
                continue;
            }
            match &self.nodes[n] {
                N::A(b) => {
                    tab.push(json!({"a": bytes_json(b)}));
                    idx.insert(n, tab.len());
                }
                N::P(f, r) => {
                    if done {
                        tab.push(json!({"p": [idx[f], idx[r]]}));
                        idx.insert(n, tab.len());
                    } else {
                        st.push((n, true));
                        st.push((*r, false));
                        st.push((*f, false));
                    }
                }
            }
        }
        json!({ "t": tab })
    }
    /// one NodePtr per distinct sub-tree (maximal sharing)
    fn build_shared(&self, a: &mut Allocator, root: usize) -> NodePtr {
        let mut ptr: HashMap<usize, NodePtr> = HashMap::new();
        let mut st = vec![(root, false)];
        while let Some((n, done)) = st.pop() {
            if ptr.contains_key(&n) {
                continue;
            }
            match &self.nodes[n] {
                N::A(b) => {
                    ptr.insert(n, a.new_atom(b).unwrap());
                }
                N::P(f, r) => {
                    if done {
                        let p = a.new_pair(ptr[f], ptr[r]).unwrap();
                        ptr.insert(n, p);
                    } else {
                        st.push((n, true));
                        st.push((*r, false));
                        st.push((*f, false));
                    }
                }
            }
        }
        ptr[&root]
    }
    /// a fresh NodePtr for every occurrence (no sharing at all)
    fn build_unshared(&self, a: &mut Allocator, root: usize) -> NodePtr {
        enum Op {
            Visit(usize),
            Build,
        }
        let mut ops = vec![Op::Visit(root)];
        let mut vals: Vec<NodePtr> = Vec::new();
        while let Some(op) = ops.pop() {
            match op {
                Op::Visit(n) => match &self.nodes[n] {
                    N::A(b) => vals.push(a.new_atom(b).unwrap()),
                    N::P(f, r) => {
                        ops.push(Op::Build);
                        ops.push(Op::Visit(*r));
                        ops.push(Op::Visit(*f));
                    }
                },
                Op::Build => {
                    let r = vals.pop().unwrap();
                    let f = vals.pop().unwrap();
                    vals.push(a.new_pair(f, r).unwrap());
                }
            }
        }
        vals.pop().unwrap()
    }
}

fn tree_eq(a1: &Allocator, n1: NodePtr, a2: &Allocator, n2: NodePtr) -> bool {
    let mut st = vec![(n1, n2)];
    while let Some((x, y)) = st.pop() {
        match (a1.sexp(x), a2.sexp(y)) {
            (SExp::Pair(xf, xr), SExp::Pair(yf, yr)) => {
                st.push((xr, yr));
                st.push((xf, yf));
            }
            (SExp::Atom, SExp::Atom) => {
                if a1.atom(x).as_ref() != a2.atom(y).as_ref() {
                    return false;
                }
            }
            _ => return false,
        }
    }
    true
}

// ---------------------------------------------------------------------------
// observations

/// one decoder on a fresh allocator: {"ok","t","pc"} | {"panic"}
fn obs_dec(b: &[u8], old: bool) -> Value {
    let r = catch(|| {
        let mut a = Allocator::new();
        let r = if old { node_from_bytes_backrefs_old(&mut a, b) } else { node_from_bytes_backrefs(&mut a, b) };
        let pc = a.pair_count();
        match r {
            Ok(n) => json!({"ok": true, "t": tree_json(&a, n), "pc": pc}),
            Err(_) => json!({"ok": false, "pc": pc}),
        }
    });
    match r {
        Ok(v) => v,
        Err(p) => json!({ "panic": p }),
    }
}

fn obs_probe(b: &[u8]) -> Value {
    match catch(|| serialized_length_from_bytes(b)) {
        Ok(Ok(n)) => json!({"ok": true, "len": n}),
        Ok(Err(_)) => json!({"ok": false}),
        Err(p) => json!({ "panic": p }),
    }
}

fn is_ok(v: &Value) -> bool {
    v.get("panic").is_none() && v["ok"].as_bool() == Some(true)
}

/// everything C18 names, for one byte string
fn observe_de(b: &[u8]) -> Value {
    let cur = obs_dec(b, false);
    let old = obs_dec(b, true);
    let probe = obs_probe(b);
    let canon = catch(|| is_canonical_serialization(b));
    let mut ev = json!({"ev": "de_br", "b": bytes_json(b), "cur": cur, "old": old, "probe": probe});
    match canon {
        Ok(c) => ev["canon"] = json!(c),
        Err(p) => ev["probe"] = json!({ "panic": format!("is_canonical_serialization: {p}") }),
    }
    if is_ok(&ev["probe"]) {
        // "the probe reports the number of bytes the decoder consumed": the decoder accepts exactly
        // that prefix (same tree) and rejects the prefix that is one byte shorter
        let len = ev["probe"]["len"].as_u64().unwrap() as usize;
        let (pre_ok, pre1_fail) = if len <= b.len() && len > 0 {
            let p = obs_dec(&b[..len], false);
            let q = obs_dec(&b[..len - 1], false);
            (is_ok(&p) && is_ok(&ev["cur"]) && p["t"] == ev["cur"]["t"], q.get("panic").is_none() && !is_ok(&q))
        } else {
            (false, false)
        };
        ev["pre_ok"] = json!(pre_ok);
        ev["pre1_fail"] = json!(pre1_fail);
    }
    ev
}

struct SerObs {
    ev: Value,
    out: Option<Vec<u8>>,
}

/// everything C17 names, for one tree
fn observe_ser(ar: &Arena, root: usize, gen: &str) -> (SerObs, Option<Value>) {
    let tj = ar.flat_json(root);
    let r = catch(|| {
        let mut a = Allocator::new();
        let n = ar.build_unshared(&mut a, root);
        let out = node_to_bytes_backrefs(&a, n).expect("node_to_bytes_backrefs");
        let out2 = node_to_bytes_backrefs(&a, n).expect("node_to_bytes_backrefs");
        let mut a3 = Allocator::new();
        let n3 = ar.build_shared(&mut a3, root);
        let out3 = node_to_bytes_backrefs(&a3, n3).expect("node_to_bytes_backrefs");
        let classic = node_to_bytes(&a, n).expect("node_to_bytes").len();
        let canon = is_canonical_serialization(&out);
        let mut a2 = Allocator::new();
        let d = node_from_bytes_backrefs(&mut a2, &out).ok();
        let rt = match d {
            Some(m) => tree_eq(&a, n, &a2, m),
            None => false,
        };
        let mut a4 = Allocator::new();
        let rt_old = match node_from_bytes_backrefs_old(&mut a4, &out) {
            Ok(m) => tree_eq(&a, n, &a4, m),
            Err(_) => false,
        };
        // ser(de(ser t))
        let reser = match d {
            Some(m) => json!({"ev": "reser", "out": bytes_json(&out), "de_ok": true,
                            "re": bytes_json(&node_to_bytes_backrefs(&a2, m).expect("node_to_bytes_backrefs"))}),
            None => json!({"ev": "reser", "out": bytes_json(&out), "de_ok": false, "re": []}),
        };
        (out, out2, out3, classic, canon, rt, rt_old, reser)
    });
    match r {
        Ok((out, out2, out3, classic, canon, rt, rt_old, reser)) => (
            SerObs {
                ev: json!({"ev": "ser_br", "gen": gen, "t": tj, "out": bytes_json(&out), "out2": bytes_json(&out2),
                           "out3": bytes_json(&out3), "classic": classic, "canon": canon, "rt": rt, "rt_old": rt_old}),
                out: Some(out),
            },
            Some(reser),
        ),
        Err(p) => (SerObs { ev: json!({"ev": "ser_br", "gen": gen, "t": tj, "panic": p}), out: None }, None),
    }
}

// ---------------------------------------------------------------------------
// tree generators (C17)

fn rand_leaf(r: &mut Rng, ar: &mut Arena, min_len: usize) -> usize {
    // an atom whose classic length is at least 1 + min_len, so that it may be back-referenced
    let n = min_len + r.below(6) as usize;
    let mut b = r.bytes(n);
    if r.chance(1, 3) && n > 0 {
        b[0] |= 0x80;
    }
    ar.atom(&b)
}

fn filler(ar: &mut Arena, i: usize) -> usize {
    // distinct atoms of classic length 3: never back-referenced, never equal to each other
    ar.atom(&[0x40 | ((i >> 8) as u8 & 0x3f), i as u8])
}

fn small_tree(r: &mut Rng, ar: &mut Arena, budget: usize) -> usize {
    let share = r.range(30, 80) as u64;
    let v = gen::rand_tree(r, budget, 12, share);
    ar.from_json(&v)
}

fn list_of(ar: &mut Arena, items: &[usize], tail: usize) -> usize {
    let mut t = tail;
    for it in items.iter().rev() {
        t = ar.pair(*it, t);
    }
    t
}

/// returns (class name, root); `big` scales sizes (1 = quick)
fn gen_tree(r: &mut Rng, ar: &mut Arena, big: u64) -> (&'static str, usize) {
    let nil = ar.atom(&[]);
    match r.below(112) {
        100..=111 => {
            // shapes whose serialization refers to the parse stack *itself* (path 1 and other
            // tails of the stack list), several times and around a cons: (X X) with X a list,
            // list-doubling T(n+1) = (T(n) T(n)), lists of identical sub-lists, (L . L), and trees
            // decoded from a generated serialization made of stack-tail references
            let leaf = |r: &mut Rng, ar: &mut Arena| if r.chance(2, 3) { rand_leaf(r, ar, 3) } else { small_tree(r, ar, 5) };
            match r.below(5) {
                0 => {
                    let mut t = leaf(r, ar);
                    if r.chance(1, 2) {
                        let n = r.range(1, 3) as usize;
                        let items: Vec<usize> = (0..n).map(|_| leaf(r, ar)).collect();
                        t = list_of(ar, &items, nil);
                    }
                    for _ in 0..r.range(1, 5) {
                        let inner = ar.pair(t, nil);
                        t = ar.pair(t, inner);
                    }
                    ("stack_list_doubling", t)
                }
                1 => {
                    let n = r.range(1, 4) as usize;
                    let items: Vec<usize> = (0..n).map(|_| leaf(r, ar)).collect();
                    let x = list_of(ar, &items, nil);
                    let m = r.range(2, 7) as usize;
                    let t = list_of(ar, &vec![x; m], nil);
                    ("stack_same_sublists", if r.chance(1, 3) { let u = ar.pair(t, nil); ar.pair(t, u) } else { t })
                }
                2 => {
                    let n = r.range(1, 5) as usize;
                    let items: Vec<usize> = (0..n).map(|_| leaf(r, ar)).collect();
                    let l = list_of(ar, &items, nil);
                    let t = ar.pair(l, l);
                    ("stack_l_dot_l", if r.chance(1, 2) { let u = ar.pair(t, nil); ar.pair(t, u) } else { t })
                }
                _ => {
                    // a tree that has a serialization built from stack-tail references
                    let n = *r.pick(&[6usize, 10, 16, 30, 60]);
                    let b = stack_tail_bytes(r, n, 3);
                    match arena_decode(ar, &b) {
                        Some(t) => ("stack_decoded", t),
                        None => ("stack_decoded", leaf(r, ar)),
                    }
                }
            }
        }
        0..=39 => {
            // random trees with heavy sub-tree sharing at varying depths and sizes
            let budget = *r.pick(&[3usize, 7, 15, 30, 60, 120, 250]) * if r.chance(1, 8) { big as usize } else { 1 };
            let share = r.range(30, 80) as u64;
            let max_atom = *r.pick(&[2usize, 5, 12, 40, 70]);
            let v = gen::rand_tree(r, budget, max_atom, share);
            ("rand_share", ar.from_json(&v))
        }
        40..=54 => {
            // long list of repeated items from a small pool
            let pool_n = r.range(1, 4) as usize;
            let pool: Vec<usize> = (0..pool_n)
                .map(|_| if r.chance(1, 2) { rand_leaf(r, ar, 2) } else { small_tree(r, ar, 9) })
                .collect();
            let len = *r.pick(&[2usize, 5, 9, 17, 40, 90, 200]) * if r.chance(1, 6) { big as usize } else { 1 };
            let items: Vec<usize> = (0..len).map(|_| *r.pick(&pool)).collect();
            let tail = if r.chance(1, 5) { *r.pick(&pool) } else { nil };
            ("rep_list", list_of(ar, &items, tail))
        }
        55..=64 => {
            // deep left or right spine with repeated leaves
            let pool: Vec<usize> =
                (0..r.range(1, 3)).map(|_| if r.chance(2, 3) { rand_leaf(r, ar, 3) } else { small_tree(r, ar, 7) }).collect();
            let depth = *r.pick(&[3usize, 8, 20, 50, 120, 300]) * if r.chance(1, 6) { big as usize } else { 1 };
            let left = r.chance(1, 2);
            let mut t = *r.pick(&pool);
            for i in 0..depth {
                let leaf = if r.chance(1, 3) { *r.pick(&pool) } else { filler(ar, i) };
                t = if left { ar.pair(t, leaf) } else { ar.pair(leaf, t) };
            }
            (if left { "left_spine" } else { "right_spine" }, t)
        }
        65..=71 => {
            // doubling: l(i+1) = (l(i) . l(i))
            let mut t = if r.chance(1, 2) { rand_leaf(r, ar, 1) } else { small_tree(r, ar, 5) };
            for _ in 0..r.range(1, 8) {
                t = ar.pair(t, t);
            }
            ("doubling", t)
        }
        72..=89 => {
            // x, k distinct fillers, x again: the path to x crosses the length boundaries of the
            // emission rule (1 + |path atom| <= L) and of the path atom's own prefix
            let xl = *r.pick(&[3usize, 3, 4, 5, 6, 9, 70]);
            let x = if r.chance(3, 4) { rand_leaf(r, ar, xl) } else { small_tree(r, ar, 5) };
            let ks: &[usize] = if xl >= 70 { &[40, 100, 500, 508, 509, 510, 511, 512, 520] } else { &[4, 5, 6, 7, 13, 14, 15, 16, 21, 22, 23, 24, 29, 30, 31, 32, 38, 39, 40, 60] };
            let k = *r.pick(ks);
            let fill: Vec<usize> = (0..k).map(|i| filler(ar, i)).collect();
            if r.chance(1, 2) {
                let tail = if r.chance(1, 2) { ar.atom(&[1]) } else { nil };
                let mut items = vec![x];
                items.extend(&fill);
                items.push(x);
                ("far_right", list_of(ar, &items, tail))
            } else {
                let mut t = x;
                for f in &fill {
                    t = ar.pair(t, *f);
                }
                ("far_left", ar.pair(t, x))
            }
        }
        _ => {
            // atoms at the prefix boundaries, repeated
            let sizes: &[usize] = if big > 1 { &[0, 1, 2, 3, 62, 63, 64, 65, 200, 8191, 8192] } else { &[0, 1, 2, 3, 62, 63, 64, 65, 200] };
            let n = r.range(2, 6) as usize;
            let pool: Vec<usize> = (0..3)
                .map(|_| {
                    let sz = *r.pick(sizes);
                    let mut b = r.bytes(sz);
                    if sz == 1 {
                        b[0] = *r.pick(&[0u8, 1, 0x7f, 0x80, 0xff]);
                    }
                    ar.atom(&b)
                })
                .collect();
            let items: Vec<usize> = (0..n).map(|_| *r.pick(&pool)).collect();
            ("atom_sizes", list_of(ar, &items, nil))
        }
    }
}

// ---------------------------------------------------------------------------
// byte-string generators (C18)

/// token boundaries of a (presumed well-formed) serialization: (start, end, is_backref) of every
/// atom / back-reference; used only to aim mutations, never for a verdict
fn tokens(b: &[u8]) -> Vec<(usize, usize, bool)> {
    let mut res = Vec::new();
    let mut i = 0;
    let mut need = 1usize;
    while need > 0 && i < b.len() {
        need -= 1;
        let start = i;
        let mut c = b[i];
        i += 1;
        if c == 0xff {
            need += 2;
            continue;
        }
        let br = c == 0xfe;
        if br {
            if i >= b.len() {
                break;
            }
            c = b[i];
            i += 1;
        }
        if c > 0x7f {
            let k = c.leading_ones() as usize;
            if k >= 7 || i + k - 1 > b.len() {
                break;
            }
            let mut sz = (c & (0xffu8 >> k)) as usize;
            for j in 0..k - 1 {
                sz = (sz << 8) | b[i + j] as usize;
            }
            i += k - 1;
            if sz > b.len() - i {
                break;
            }
            i += sz;
        }
        res.push((start, i, br));
    }
    res
}

fn enc_atom(b: &[u8]) -> Vec<u8> {
    // classic atom encoding (generator side; sizes < 0x2000)
    let n = b.len();
    let mut v = Vec::new();
    if n == 0 {
        v.push(0x80);
    } else if n == 1 && b[0] < 0x80 {
        v.push(b[0]);
    } else if n < 0x40 {
        v.push(0x80 | n as u8);
        v.extend(b);
    } else {
        v.push(0xc0 | (n >> 8) as u8);
        v.push(n as u8);
        v.extend(b);
    }
    v
}

fn path_atom(mut n: u128) -> Vec<u8> {
    let mut v = Vec::new();
    while n > 0 {
        v.insert(0, n as u8);
        n >>= 8;
    }
    v
}

fn mutate(r: &mut Rng, src: &[u8]) -> (&'static str, Vec<u8>) {
    let toks = tokens(src);
    let brs: Vec<&(usize, usize, bool)> = toks.iter().filter(|t| t.2).collect();
    let mut b = src.to_vec();
    let kind = r.below(12);
    if kind <= 5 && !brs.is_empty() {
        // replace the path of one back-reference
        let (s, e, _) = **r.pick(&brs);
        let old = &src[s + 1..e];
        // the old path atom's content
        let content: Vec<u8> = if old[0] <= 0x7f { vec![old[0]] } else { old[(old[0].leading_ones() as usize)..].to_vec() };
        let (name, newpath): (&'static str, Vec<u8>) = match r.below(10) {
            0 => {
                // leading zeros (same path, non-minimal integer)
                let mut c = vec![0u8; r.range(1, 3) as usize];
                c.extend(&content);
                ("path_leading_zeros", enc_atom(&c))
            }
            1 => ("path_empty", vec![0x80]),
            2 => ("path_zero", enc_atom(&vec![0u8; r.range(1, 3) as usize])),
            3 => {
                // one more step below the referenced node (into an atom when it is an atom)
                if content.len() <= 15 {
                    let mut v: u128 = 0;
                    for x in &content {
                        v = (v << 8) | *x as u128;
                    }
                    if v == 0 {
                        v = 1;
                    }
                    let bits = 128 - v.leading_zeros();
                    let sentinel = 1u128 << (bits - 1);
                    let dir = if r.chance(1, 2) { sentinel } else { 0 };
                    ("path_deeper", enc_atom(&path_atom((v & (sentinel - 1)) | dir | (sentinel << 1))))
                } else {
                    ("path_small", enc_atom(&path_atom(r.range(1, 40) as u128)))
                }
            }
            4 => {
                // far past the end of the stack: many right steps
                let n = r.range(2, 40) as usize;
                let mut c = vec![0xffu8; n];
                c[0] = *r.pick(&[0x01u8, 0x03, 0x7f, 0xff]);
                ("path_past_end", enc_atom(&c))
            }
            5 => {
                // neighbouring path
                let mut c = content.clone();
                if let Some(last) = c.last_mut() {
                    *last ^= 1 << r.below(3);
                }
                ("path_neighbour", enc_atom(&c))
            }
            6 => {
                // non-minimal length prefix for the same path (2-byte prefix, small size)
                let mut v = vec![0xc0, content.len() as u8];
                v.extend(&content);
                ("path_long_prefix", v)
            }
            7 | 8 => {
                // a tail of the stack list itself: 2^k - 1 (the vec decoder must materialise k.. entries)
                let k = *r.pick(&[1u32, 1, 2, 2, 3, 3, 4, 5, 6, 9]);
                ("path_stack_tail", enc_atom(&path_atom((1u128 << k) - 1)))
            }
            _ => ("path_small", enc_atom(&path_atom(r.range(1, 40) as u128))),
        };
        b.splice(s + 1..e, newpath);
        return (name, b);
    }
    match kind % 6 {
        0 if !b.is_empty() => {
            let i = r.below(b.len() as u64) as usize;
            b[i] ^= 1 << r.below(8);
            ("flip_bit", b)
        }
        1 if !b.is_empty() => {
            let i = r.below(b.len() as u64) as usize;
            b[i] = *r.pick(&[0xffu8, 0xfe, 0x80, 0x01, 0x00, 0x81, 0xc0, 0xfd]);
            ("set_byte", b)
        }
        2 if !b.is_empty() => {
            let n = r.below(b.len() as u64) as usize;
            b.truncate(n);
            ("truncated", b)
        }
        3 => {
            let n = r.range(1, 4) as usize;
            b.extend(r.bytes(n));
            ("junk_after", b)
        }
        4 if !toks.is_empty() => {
            // turn some atom into a back-reference with a small path
            let (s, e, _) = *r.pick(&toks);
            let mut v = vec![0xfeu8];
            let p = if r.chance(1, 2) { (1u128 << r.range(1, 5)) - 1 } else { r.range(0, 70) as u128 };
            v.extend(enc_atom(&path_atom(p)));
            b.splice(s..e, v);
            ("atom_to_backref", b)
        }
        _ => {
            if !b.is_empty() {
                let i = r.below(b.len() as u64) as usize;
                b.remove(i);
            }
            ("drop_byte", b)
        }
    }
}

/// grammar-directed random serialization: cons / atoms / back-references with small random paths
fn grammar_bytes(r: &mut Rng, budget: usize, tail_pct: u64) -> Vec<u8> {
    let mut out = Vec::new();
    let mut need = 1usize;
    let mut left = budget as i64;
    while need > 0 {
        need -= 1;
        left -= 1;
        let c = r.below(100);
        if c < 38 && left > need as i64 + 2 {
            out.push(0xff);
            need += 2;
        } else if c < 70 {
            out.push(0xfe);
            let p = match if r.chance(tail_pct, 100) { 2 } else { r.below(10) } {
                0 => path_atom(0),
                1 => vec![0, r.next() as u8 & 7],
                2..=3 => path_atom((1u128 << r.range(1, 5)) - 1),
                4..=6 => path_atom(r.range(1, 15) as u128),
                7..=8 => path_atom(r.range(1, 300) as u128),
                _ => path_atom(r.next() as u128 & 0xffff),
            };
            if r.chance(1, 12) && !p.is_empty() {
                out.push(0xc0);
                out.push(p.len() as u8);
                out.extend(&p);
            } else {
                out.extend(enc_atom(&p));
            }
        } else {
            let a = match r.below(6) {
                0 => vec![],
                1 => vec![1],
                2 => vec![r.next() as u8],
                _ => {
                    let n = r.range(0, 5) as usize;
                    r.bytes(n)
                }
            };
            out.extend(enc_atom(&a));
        }
    }
    if r.chance(1, 10) {
        let n = r.below(out.len() as u64 + 1) as usize;
        out.truncate(n);
    }
    out
}

/// well-formed serialization whose back-references mostly select *tails of the stack list*
/// (and sometimes elements), chosen with knowledge of the current stack depth so that they
/// resolve: exercises lazy materialisation, reuse of cached lists, re-materialisation after a
/// cons has popped cached entries
fn stack_tail_bytes(r: &mut Rng, budget: usize, min_atom: usize) -> Vec<u8> {
    let mut out = Vec::new();
    let mut ops: Vec<bool> = vec![false]; // false = parse an item, true = cons
    let mut depth: u32 = 0;
    let mut left = budget as i64;
    while let Some(cons) = ops.pop() {
        if cons {
            depth -= 1;
            continue;
        }
        left -= 1;
        let c = r.below(100);
        if c < 42 && left > ops.len() as i64 {
            out.push(0xff);
            ops.push(true);
            ops.push(false);
            ops.push(false);
            continue;
        }
        if c < 85 {
            out.push(0xfe);
            let j = r.below(depth as u64 + 1) as u32; // number of "rest" steps, 0..=depth
            let j = j.min(100);
            let p: u128 = if r.chance(3, 4) || j >= depth {
                (1u128 << (j + 1)) - 1 // the tail after j entries (nil when j == depth)
            } else {
                (1u128 << (j + 1)) + ((1u128 << j) - 1) // the j-th entry itself
            };
            out.extend(enc_atom(&path_atom(p)));
        } else {
            let a = match if min_atom > 0 { 3 } else { r.below(4) } {
                0 => vec![],
                1 => vec![r.next() as u8 & 0x7f],
                _ => {
                    let n = min_atom + r.range(1, 4) as usize;
                    r.bytes(n)
                }
            };
            out.extend(enc_atom(&a));
        }
        depth += 1;
    }
    out
}

/// generator-side decoder of a well-formed back-reference serialization into the arena (the parse
/// stack is an arena list); used only to obtain trees, never for a verdict
fn arena_decode(ar: &mut Arena, b: &[u8]) -> Option<usize> {
    let nil = ar.atom(&[]);
    let mut stack = nil;
    let mut ops: Vec<bool> = vec![false];
    let mut i = 0usize;
    let read_atom = |i: &mut usize| -> Option<Vec<u8>> {
        let c = *b.get(*i)?;
        *i += 1;
        if c <= 0x7f {
            return Some(vec![c]);
        }
        let k = c.leading_ones() as usize;
        if k > 2 {
            return None;
        }
        let mut sz = (c & (0xffu8 >> k)) as usize;
        if k == 2 {
            sz = (sz << 8) | *b.get(*i)? as usize;
            *i += 1;
        }
        let v = b.get(*i..*i + sz)?.to_vec();
        *i += sz;
        Some(v)
    };
    while let Some(cons) = ops.pop() {
        if cons {
            let (N::P(right, rest), ) = (ar.nodes[stack].clone(), ) else { return None };
            let N::P(left, rest2) = ar.nodes[rest].clone() else { return None };
            let p = ar.pair(left, right);
            stack = ar.pair(p, rest2);
            continue;
        }
        let c = *b.get(i)?;
        if c == 0xff {
            i += 1;
            ops.push(true);
            ops.push(false);
            ops.push(false);
        } else if c == 0xfe {
            i += 1;
            let path = read_atom(&mut i)?;
            let mut node = stack;
            let first = path.iter().position(|x| *x != 0);
            match first {
                None => node = nil,
                Some(f) => {
                    let total = 8 * (path.len() - f) - path[f].leading_zeros() as usize;
                    for bit in 0..total - 1 {
                        let byte = path[path.len() - 1 - bit / 8];
                        let N::P(l, rr) = ar.nodes[node].clone() else { return None };
                        node = if byte & (1 << (bit % 8)) != 0 { rr } else { l };
                    }
                }
            }
            stack = ar.pair(node, stack);
        } else {
            let a = read_atom(&mut i)?;
            let n = ar.atom(&a);
            stack = ar.pair(n, stack);
        }
    }
    match ar.nodes[stack].clone() {
        N::P(v, _) => Some(v),
        _ => None,
    }
}

fn random_bytes(r: &mut Rng) -> (&'static str, Vec<u8>) {
    match r.below(6) {
        0 => {
            let n = r.range(0, 24) as usize;
            ("random", r.bytes(n))
        }
        1 => {
            // dense in markers and small values
            let n = r.range(1, 30) as usize;
            let al = [0xffu8, 0xff, 0xfe, 0xfe, 0x80, 0x01, 0x02, 0x03, 0x05, 0x06, 0x07, 0x0b, 0x81, 0x82, 0x00, 0x61];
            ("random_markers", (0..n).map(|_| *r.pick(&al)).collect())
        }
        2 => {
            // size prefixes at and beyond the limits
            let heads: [&[u8]; 10] = [
                &[0xfb, 0xff, 0xff, 0xff, 0xff],
                &[0xfc, 0x00, 0x00, 0x00, 0x00, 0x01],
                &[0xfc, 0x04, 0x00, 0x00, 0x00, 0x00],
                &[0xfc, 0x03, 0xff, 0xff, 0xff, 0xff],
                &[0xf8, 0x00, 0x00, 0x00, 0x01],
                &[0xf0, 0x00, 0x00, 0x02],
                &[0xe0, 0x00, 0x03],
                &[0xc0, 0x01],
                &[0xfe, 0xfe],
                &[0xfe, 0xff],
            ];
            let mut b = Vec::new();
            if r.chance(1, 2) {
                b.push(0xff);
                b.push(0x01);
            }
            if r.chance(1, 2) {
                b.push(0xfe);
            }
            b.extend(*r.pick(&heads));
            let n = r.range(0, 4) as usize;
            b.extend(r.bytes(n));
            ("size_prefix", b)
        }
        3 => {
            let n = *r.pick(&[6usize, 10, 16, 30, 60]);
            ("stack_tails", stack_tail_bytes(r, n, 0))
        }
        _ => {
            let n = r.range(1, 40) as usize;
            if r.chance(2, 3) {
                ("grammar", grammar_bytes(r, n, 0))
            } else {
                // mostly references to tails of the stack list: lazy materialisation, cache reuse,
                // re-materialisation after a cons popped cached entries
                ("grammar_stack_tails", grammar_bytes(r, n, 75))
            }
        }
    }
}

// ---------------------------------------------------------------------------

fn expect_tree_eq(case_t: &Value, got: &Value) -> bool {
    unflatten_tree(case_t) == unflatten_tree(got)
}

fn replay_bytes(c: &Value) -> Option<Value> {
    let b = json_bytes(&c["b"]);
    let ev = observe_de(&b);
    let mut fails: Vec<&str> = Vec::new();
    let (cur, old, pr) = (&ev["cur"], &ev["old"], &ev["probe"]);
    let nopanic = cur.get("panic").is_none() && old.get("panic").is_none() && pr.get("panic").is_none();
    if !nopanic {
        fails.push("panic");
    }
    // relations between the implementations
    if is_ok(cur) != is_ok(old) {
        fails.push("accept");
    }
    if is_ok(cur) && is_ok(old) && cur["t"] != old["t"] {
        fails.push("tree");
    }
    if cur.get("panic").is_none() && old.get("panic").is_none() && cur["pc"] != old["pc"] {
        fails.push("pc");
    }
    if is_ok(pr) != is_ok(cur) {
        fails.push("probe_ok");
    }
    if is_ok(pr) && !(ev["pre_ok"] == json!(true) && ev["pre1_fail"] == json!(true)) {
        fails.push("probe_len");
    }
    // against the specification's expectation
    let exp_ok = c["ok"].as_bool().unwrap();
    if cur.get("panic").is_none() && is_ok(cur) != exp_ok {
        fails.push("spec_ok");
    }
    if old.get("panic").is_none() && is_ok(old) != exp_ok {
        fails.push("spec_ok_old");
    }
    if pr.get("panic").is_none() && is_ok(pr) != exp_ok {
        fails.push("spec_ok_probe");
    }
    if exp_ok && is_ok(cur) && !expect_tree_eq(&c["t"], &cur["t"]) {
        fails.push("spec_tree");
    }
    if exp_ok && is_ok(old) && !expect_tree_eq(&c["t"], &old["t"]) {
        fails.push("spec_tree_old");
    }
    if cur.get("panic").is_none() && cur["pc"] != c["pc"] {
        fails.push("spec_pc");
    }
    if old.get("panic").is_none() && old["pc"] != c["pc"] {
        fails.push("spec_pc_old");
    }
    if exp_ok && is_ok(pr) && pr["len"] != c["used"] {
        fails.push("spec_len");
    }
    if ev.get("canon").is_some() && ev["canon"] != c["canon"] {
        fails.push("spec_canon");
    }
    if fails.is_empty() {
        None
    } else {
        Some(json!({"case": c, "fails": fails, "observed": ev}))
    }
}

fn replay_tree(c: &Value) -> Option<Value> {
    let mut ar = Arena::default();
    let root = ar.from_flat_or_nested(&c["t"]);
    let (so, reser) = observe_ser(&ar, root, "case");
    let ev = &so.ev;
    let mut fails: Vec<&str> = Vec::new();
    if ev.get("panic").is_some() {
        fails.push("panic");
    } else {
        let out = json_bytes(&ev["out"]);
        if ev["rt"] != json!(true) {
            fails.push("rt_impl");
        }
        if ev["rt_old"] != json!(true) {
            fails.push("rt_old");
        }
        if ev["canon"] != json!(true) {
            fails.push("canon_impl");
        }
        if out.len() as u64 > ev["classic"].as_u64().unwrap() {
            fails.push("grow_impl");
        }
        if ev["out2"] != ev["out"] {
            fails.push("run2");
        }
        if ev["out3"] != ev["out"] {
            fails.push("run3");
        }
        let rs = reser.as_ref().unwrap();
        if rs["de_ok"] != json!(true) {
            fails.push("reser_de");
        } else if rs["re"] != rs["out"] {
            fails.push("reser");
        }
        // against the specification
        if out.len() as u64 > c["classic"].as_u64().unwrap() {
            fails.push("grow_spec");
        }
        if ev["classic"] != c["classic"] {
            fails.push("classic");
        }
        if ev["out"] != c["code"] {
            fails.push("code"); // exact bytes: a diagnostic
        }
        if (out.len() as u64) < c["minlen"].as_u64().unwrap() {
            fails.push("minlen"); // shorter than every output the relation allows: a diagnostic
        }
    }
    if fails.is_empty() {
        None
    } else {
        Some(json!({"case": c, "fails": fails, "observed": ev}))
    }
}

fn main() {
    std::panic::set_hook(Box::new(|_| {}));
    let args: Vec<String> = std::env::args().collect();
    let cmd = args.get(1).map(|s| s.as_str()).unwrap_or("");
    let mut out = Out::create(&arg(&args, "--out").unwrap_or("-".into()));
    match cmd {
        "replay" => {
            let cases = read_ndjson(&arg(&args, "--in").unwrap());
            let mut n = 0u64;
            for c in &cases {
                n += 1;
                let m = if c["kind"] == "bytes" { replay_bytes(c) } else { replay_tree(c) };
                if let Some(m) = m {
                    out.emit(&m);
                }
            }
            out.emit(&json!({ "done": n }));
        }
        "record" => {
            let mut r = Rng::new(arg_u64(&args, "--seed", 1));
            let n = arg_u64(&args, "--n", 1000);
            let big = arg_u64(&args, "--big", 1);
            let what = arg(&args, "--what").unwrap_or("both".into());
            let (do_ser, do_de) = (what != "de", what != "ser");
            // a pool of valid serializations to mutate
            let mut pool: Vec<Vec<u8>> = Vec::new();
            for i in 0..n {
                let mut ar = Arena::default();
                let (gen, root) = gen_tree(&mut r, &mut ar, big);
                // keep the expanded tree at a size TLC re-executes comfortably
                if ar.size[root] > 6000 * big || ar.depth[root] > 3000 {
                    continue;
                }
                if do_ser {
                    let (so, reser) = observe_ser(&ar, root, gen);
                    out.emit(&so.ev);
                    if let Some(rs) = reser {
                        out.emit(&rs);
                    }
                    if let Some(o) = so.out {
                        if o.len() <= 400 {
                            pool.push(o);
                        }
                    }
                } else {
                    // only the bytes are needed as mutation seeds
                    let mut a = Allocator::new();
                    let nd = ar.build_shared(&mut a, root);
                    if let Ok(Ok(o)) = catch(|| node_to_bytes_backrefs(&a, nd)) {
                        if o.len() <= 400 || (big > 1 && o.len() <= 3000 && i % 16 == 0) {
                            pool.push(o);
                        }
                    }
                }
                if do_de {
                    // three byte strings per tree: a valid one or a mutation, a second mutation, random
                    for j in 0..3 {
                        let (gen, b): (&str, Vec<u8>) = if j < 2 && !pool.is_empty() {
                            let src = r.pick(&pool).clone();
                            if j == 0 && r.chance(1, 3) {
                                ("valid", src)
                            } else {
                                let (g, mut m) = mutate(&mut r, &src);
                                if r.chance(1, 6) {
                                    m = mutate(&mut r, &m).1;
                                }
                                (g, m)
                            }
                        } else {
                            random_bytes(&mut r)
                        };
                        let mut ev = observe_de(&b);
                        ev["gen"] = json!(gen);
                        out.emit(&ev);
                    }
                }
                if pool.len() > 64 {
                    let k = r.below(pool.len() as u64) as usize;
                    pool.swap_remove(k);
                }
            }
        }
        "observe" => {
            // one line per input: {"b":[..]} -> de_br event, {"t":tree} -> ser_br + reser events
            for c in &read_ndjson(&arg(&args, "--in").unwrap()) {
                if c.get("b").is_some() {
                    let mut ev = observe_de(&json_bytes(&c["b"]));
                    ev["gen"] = json!("observe");
                    out.emit(&ev);
                } else {
                    let mut ar = Arena::default();
                    let root = ar.from_flat_or_nested(&c["t"]);
                    let (so, reser) = observe_ser(&ar, root, "observe");
                    out.emit(&so.ev);
                    if let Some(rs) = reser {
                        out.emit(&rs);
                    }
                }
            }
        }
        _ => {
            eprintln!("usage: serdebr replay|record|observe ...");
            std::process::exit(2);
        }
    }
    out.flush();
}
