//! alloc engine (C12, C13, C14): the real `Allocator` against Alloc.tla.
//!   alloc replay --in <cases.ndjson> --out <mismatches.ndjson>          spec -> impl (TLC behaviours)
//!   alloc record --seed S --n N --len L --profile c12|c13|c14 --out F   impl -> spec (random histories)
//!   alloc sweep  --mode quick|full --out F                              impl -> spec (exhaustive short byte
//!                                                                       strings + boundary integers)
//!   alloc scen   --seed S --out F                                       impl -> spec (deterministic scenarios: GC
//!                                                                       pattern x kept-value kind; every call at
//!                                                                       distance 0..3 from each cap)
//!
//! A call is a JSON object {"op": name, args..}; nodes are named by HANDLE = 1-based position in the
//! table of returned NodePtrs (handles 1, 2 = nil(), one()); checkpoints by position in the stack of
//! checkpoints that are still restorable.  `exec` runs one call on the real allocator and returns what
//! was observed: st ("ok" / EvalErr kind / "panic"), ret (new handle or 0), out (MaybeRestore outcome),
//! atoms / pairs / heap after the call, and a read-back of the created atom (rb, sn, rneg/rmag, rmal).
use clvmr::allocator::{Allocator, Checkpoint, MaybeRestore, NodePtr, ObjectType, SExp, TransparentCheckpoint};
use clvmr::number::{Malachite, Number};
use serde_json::{json, Value};
use vh::*;

const REAL_MAX: u64 = 62_500_000;
const NUM_READBACK_MAX: usize = 64;

enum Cp {
    Full(Checkpoint, usize),
    Transp(TransparentCheckpoint, usize),
}

struct Sess {
    a: Allocator,
    hl: u64,
    h: Vec<NodePtr>,
    live: Vec<bool>,
    cps: Vec<Cp>,
}

impl Sess {
    fn new(hl: u64) -> Sess {
        let a = if hl == u32::MAX as u64 { Allocator::new() } else { Allocator::new_limited(hl as usize) };
        let h = vec![a.nil(), a.one()];
        Sess { a, hl, h, live: vec![true, true], cps: Vec::new() }
    }
    fn counters(&self) -> (u64, u64, u64) {
        (self.a.atom_count() as u64, self.a.pair_count() as u64, self.a.heap_size() as u64)
    }
    fn live_ids(&self) -> Vec<usize> {
        (1..=self.h.len()).filter(|k| self.live[k - 1]).collect()
    }
    fn live_atoms(&self) -> Vec<usize> {
        (1..=self.h.len()).filter(|k| self.live[k - 1] && self.h[k - 1].is_atom()).collect()
    }
    fn kill_after(&mut self, n: usize, keep: usize) {
        for k in (n + 1)..=self.h.len() {
            if k != keep {
                self.live[k - 1] = false;
            }
        }
    }
}

// ---------------------------------------------------------------------------
// integers: own conversion between (neg, little-endian magnitude) and signed big-endian bytes

fn z_to_signed_be(neg: bool, mag_le: &[u8]) -> Vec<u8> {
    let mut be: Vec<u8> = vec![0];
    be.extend(mag_le.iter().rev());
    if neg {
        for b in be.iter_mut() {
            *b = !*b;
        }
        for b in be.iter_mut().rev() {
            let (v, c) = b.overflowing_add(1);
            *b = v;
            if !c {
                break;
            }
        }
    }
    be
}

fn signed_be_to_z(bytes: &[u8]) -> (bool, Vec<u8>) {
    if bytes.is_empty() {
        return (false, vec![]);
    }
    let neg = bytes[0] & 0x80 != 0;
    let mut be = bytes.to_vec();
    if neg {
        for b in be.iter_mut() {
            *b = !*b;
        }
        for b in be.iter_mut().rev() {
            let (v, c) = b.overflowing_add(1);
            *b = v;
            if !c {
                break;
            }
        }
    }
    let mut le: Vec<u8> = be.into_iter().rev().collect();
    while le.last() == Some(&0) {
        le.pop();
    }
    let neg = neg && !le.is_empty();
    (neg, le)
}

fn mag_of(v: &Value) -> Vec<u8> {
    json_bytes(v)
}

fn tok(n: NodePtr) -> u64 {
    let t = match n.object_type() {
        ObjectType::Pair => 0u64,
        ObjectType::Bytes => 1,
        ObjectType::SmallAtom => 2,
    };
    (t << 26) | n.index() as u64
}

fn read_atom(a: &Allocator, n: NodePtr, o: &mut Value) {
    let b = a.atom(n).as_ref().to_vec();
    o["sn"] = match a.small_number(n) {
        Some(v) => json!(v),
        None => json!(-1),
    };
    if b.len() <= NUM_READBACK_MAX {
        let nb = a.number(n).to_signed_bytes_be();
        let (neg, mag) = signed_be_to_z(&nb);
        o["rneg"] = json!(neg);
        o["rmag"] = bytes_json(&mag);
        let mb = a.malachite_number(n).to_signed_bytes_be();
        o["rmal"] = json!(signed_be_to_z(&mb) == (neg, mag));
    }
    o["rb"] = bytes_json(&b);
}

/// run one call; the observation
fn exec(s: &mut Sess, op: &Value) -> Value {
    let name = op["op"].as_str().unwrap_or("").to_string();
    let hid = |v: &Value| v.as_u64().unwrap() as usize;
    let mut extra = json!({});
    if name == "new_substr" {
        let n = hid(&op["n"]);
        extra["inl"] = json!(s.h[n - 1].object_type() == ObjectType::SmallAtom);
    }
    // Ok(Some(node)) / Ok(None) / Err(kind); the MaybeRestore outcome goes to `out`
    let mut out = String::new();
    let mut restore_to: Option<(usize, usize)> = None; // (checkpoint index, handle kept)
    let r: Result<Result<Option<NodePtr>, String>, String> = {
        let a = &mut s.a;
        let h = &s.h;
        let cps = &s.cps;
        let out_ref = &mut out;
        let restore_ref = &mut restore_to;
        catch(move || -> Result<Option<NodePtr>, String> {
            let e = |x: clvmr::error::EvalErr| err_kind(&x).to_string();
            match name.as_str() {
                "new_atom" => a.new_atom(&json_bytes(&op["b"])).map(Some).map_err(e),
                "new_small_number" => a.new_small_number(op["v"].as_u64().unwrap() as u32).map(Some).map_err(e),
                "new_number" => {
                    let be = z_to_signed_be(op["neg"].as_bool().unwrap(), &mag_of(&op["mag"]));
                    a.new_number(Number::from_signed_bytes_be(&be)).map(Some).map_err(e)
                }
                "new_malachite_number" => {
                    let be = z_to_signed_be(op["neg"].as_bool().unwrap(), &mag_of(&op["mag"]));
                    a.new_malachite_number(Malachite::from_signed_bytes_be(&be)).map(Some).map_err(e)
                }
                "new_u64" => a.new_u64(le_n(&op["mag"]) as u64).map(Some).map_err(e),
                "new_i64" => {
                    let m = le_n(&op["mag"]) as i128;
                    let v = if op["neg"].as_bool().unwrap() { -m } else { m };
                    a.new_i64(v as i64).map(Some).map_err(e)
                }
                "new_pair" => a.new_pair(h[hid(&op["f"]) - 1], h[hid(&op["r"]) - 1]).map(Some).map_err(e),
                "new_substr" => a
                    .new_substr(h[hid(&op["n"]) - 1], op["s"].as_u64().unwrap() as u32, op["e"].as_u64().unwrap() as u32)
                    .map(Some)
                    .map_err(e),
                "new_concat" => {
                    let ns: Vec<NodePtr> = op["ns"].as_array().unwrap().iter().map(|x| h[hid(x) - 1]).collect();
                    a.new_concat(op["size"].as_u64().unwrap() as usize, &ns).map(Some).map_err(e)
                }
                "add_ghost_atom" => a.add_ghost_atom(op["amt"].as_u64().unwrap() as usize).map(|_| None).map_err(e),
                "add_ghost_pair" => a.add_ghost_pair(op["amt"].as_u64().unwrap() as usize).map(|_| None).map_err(e),
                "remove_ghost_pair" => a.remove_ghost_pair(op["amt"].as_u64().unwrap() as usize).map(|_| None).map_err(e),
                "restore" => {
                    let i = hid(&op["cp"]);
                    match &cps[i - 1] {
                        Cp::Full(c, _) => a.restore_checkpoint(c),
                        _ => panic!("harness: restore of a transparent checkpoint"),
                    }
                    *restore_ref = Some((i, 0));
                    Ok(None)
                }
                "trestore" => {
                    let i = hid(&op["cp"]);
                    match &cps[i - 1] {
                        Cp::Transp(c, _) => a.restore_transparent_checkpoint(c),
                        _ => panic!("harness: transparent restore of a full checkpoint"),
                    }
                    *restore_ref = Some((i, 0));
                    Ok(None)
                }
                "maybe_restore" => {
                    let i = hid(&op["cp"]);
                    let k = hid(&op["n"]);
                    let c = match &cps[i - 1] {
                        Cp::Transp(c, _) => c,
                        _ => panic!("harness: maybe_restore on a full checkpoint"),
                    };
                    match a.maybe_restore_with_node(c, h[k - 1]) {
                        Ok(MaybeRestore::Aborted) => {
                            *out_ref = "Aborted".into();
                            Ok(None)
                        }
                        Ok(MaybeRestore::NoReplace) => {
                            *out_ref = "NoReplace".into();
                            *restore_ref = Some((i, k));
                            Ok(None)
                        }
                        Ok(MaybeRestore::Replace(n)) => {
                            *out_ref = "Replace".into();
                            *restore_ref = Some((i, 0));
                            Ok(Some(n))
                        }
                        Err(x) => Err(e(x)),
                    }
                }
                "checkpoint" | "tcheckpoint" => Ok(None), // taken below (cannot fail)
                other => panic!("harness: unknown op {other}"),
            }
        })
    };
    let mut o = extra;
    o["ret"] = json!(0);
    o["out"] = json!(out);
    match r {
        Err(p) => {
            o["st"] = json!("panic");
            o["msg"] = json!(p);
        }
        Ok(Err(kind)) => {
            o["st"] = json!(kind);
        }
        Ok(Ok(node)) => {
            o["st"] = json!("ok");
            let nm = op["op"].as_str().unwrap();
            if nm == "checkpoint" {
                s.cps.push(Cp::Full(s.a.checkpoint(), s.h.len()));
            } else if nm == "tcheckpoint" {
                s.cps.push(Cp::Transp(s.a.transparent_checkpoint(), s.h.len()));
            }
            if let Some((i, keep)) = restore_to {
                let n = match &s.cps[i - 1] {
                    Cp::Full(_, n) => *n,
                    Cp::Transp(_, n) => *n,
                };
                s.kill_after(n, keep);
                s.cps.truncate(i);
            }
            if let Some(n) = node {
                s.h.push(n);
                s.live.push(true);
                o["ret"] = json!(s.h.len());
                if n.is_atom() {
                    let a = &s.a;
                    if let Err(p) = catch(|| read_atom(a, n, &mut o)) {
                        o["rb_panic"] = json!(p);
                    }
                }
            }
        }
    }
    let (ca, cp, ch) = s.counters();
    o["atoms"] = json!(ca);
    o["pairs"] = json!(cp);
    o["heap"] = json!(ch);
    o
}

/// what every handle reads as
fn projection(s: &Sess) -> Value {
    let mut nodes = Vec::new();
    for k in 1..=s.h.len() {
        if !s.live[k - 1] {
            nodes.push(json!({"k": "dead"}));
            continue;
        }
        let n = s.h[k - 1];
        match s.a.sexp(n) {
            SExp::Atom => {
                let mut o = json!({"k": "atom", "t": tok(n)});
                read_atom(&s.a, n, &mut o);
                o["b"] = o["rb"].take();
                o.as_object_mut().unwrap().remove("rb");
                nodes.push(o);
            }
            SExp::Pair(x, y) => nodes.push(json!({"k": "pair", "t": tok(n), "xt": tok(x), "yt": tok(y)})),
        }
    }
    json!({"ev": "proj", "op": "proj", "nodes": nodes})
}

/// write the projection; a panic while reading (possible only when the code under test is broken) ends the history
fn emit_proj(out: &mut Out, s: &Sess) -> bool {
    match catch(|| projection(s)) {
        Ok(p) => {
            out.emit(&p);
            true
        }
        Err(_) => false,
    }
}

fn merge(op: &Value, obs: &Value) -> Value {
    let mut ev = op.clone();
    ev["ev"] = op["op"].clone();
    for (k, v) in obs.as_object().unwrap() {
        ev[k] = v.clone();
    }
    ev
}

// ---------------------------------------------------------------------------
// generators

const SPECIAL_ATOMS: &[&[u8]] = &[
    &[], &[0x00], &[0x01], &[0x7f], &[0x80], &[0x00, 0x80], &[0x00, 0x01], &[0xff],
    &[0x03, 0xff, 0xff, 0xff], &[0x04, 0x00, 0x00, 0x00], &[0x61, 0x80], &[0x00, 0xff, 0xff],
    &[0x01, 0x02, 0x03, 0x04, 0x05], &[0x00, 0x80, 0x00, 0x00], &[0x7f, 0xff], &[0x61, 0x80, 0x90],
    &[0x03, 0x80, 0x00, 0x80], &[0x00, 0x04, 0x00, 0x00, 0x00],
];

fn gen_atom(r: &mut Rng) -> Vec<u8> {
    match r.below(20) {
        0..=6 => r.pick(SPECIAL_ATOMS).to_vec(),
        7..=14 => gen::rand_atom_bytes(r, 12),
        15..=16 => {
            let n = *r.pick(&[47usize, 48, 49, 50, 96]);
            r.bytes(n)
        }
        17 => {
            let n = r.range(1020, 1200) as usize;
            vec![0xaa; n]
        }
        _ => {
            // a positive small int in some encoding
            let v = r.next() as u32 & ((1u32 << r.below(27)) - 1).max(1);
            let mut b = v.to_be_bytes().to_vec();
            while b.len() > 1 && b[0] == 0 && r.chance(3, 4) {
                b.remove(0);
            }
            b
        }
    }
}

/// +-2^k + d around every bit position (all 8-bit boundaries of u64 / i64 and 2^26 included)
fn gen_int(r: &mut Rng, max_bits: u64) -> (bool, Vec<u8>) {
    let k = if r.chance(2, 3) { *r.pick(&[7u64, 8, 15, 16, 23, 24, 25, 26, 27, 31, 32, 39, 40, 47, 48, 55, 56, 63, 64, 71, 72]) } else { r.below(max_bits + 1) };
    let k = k.min(max_bits);
    let d = r.range(-2, 2);
    let mut v: i128 = if r.chance(1, 6) { (r.next() as i128) & ((1i128 << k) - 1).max(0) } else { 1i128 << k };
    v += d as i128;
    if r.chance(1, 2) {
        v = -v;
    }
    let neg = v < 0;
    let mut m = v.unsigned_abs();
    let mut le = vec![];
    while m > 0 {
        le.push((m & 255) as u8);
        m >>= 8;
    }
    (neg && !le.is_empty(), le)
}

fn z_json(op: &str, neg: bool, mag: &[u8]) -> Value {
    json!({"op": op, "neg": neg, "mag": bytes_json(mag)})
}

fn z_i128(neg: bool, mag: &[u8]) -> Option<i128> {
    if mag.len() > 15 {
        return None;
    }
    let mut v: i128 = 0;
    for (i, b) in mag.iter().enumerate() {
        v |= (*b as i128) << (8 * i);
    }
    Some(if neg { -v } else { v })
}

struct Weights {
    atom: u64,
    ints: u64,
    pair: u64,
    substr: u64,
    concat: u64,
    cp: u64,
    restore: u64,
    ghost: u64,
}

fn gen_op(r: &mut Rng, s: &Sess, w: &Weights, gc_bias: bool, near_heap: bool) -> Value {
    let live = s.live_ids();
    let atoms = s.live_atoms();
    let total = w.atom + w.ints + w.pair + w.substr + w.concat + w.cp + w.restore + w.ghost;
    let recent = |r: &mut Rng, v: &Vec<usize>| -> usize {
        if r.chance(2, 3) {
            v[v.len() - 1 - r.below(v.len().min(4) as u64) as usize]
        } else {
            *r.pick(v)
        }
    };
    // at (or within 2 bytes of) the heap limit: substrings must still be free (they share their parent's bytes)
    if near_heap && r.chance(1, 3) {
        let inl: Vec<usize> = atoms.iter().copied().filter(|k| s.h[k - 1].object_type() == ObjectType::SmallAtom && s.a.atom_len(s.h[k - 1]) >= 1).collect();
        if !inl.is_empty() {
            let n = *r.pick(&inl);
            let len = s.a.atom_len(s.h[n - 1]) as i64;
            let a = r.range(0, len);
            return json!({"op": "new_substr", "n": n, "s": a, "e": r.range(a, len)});
        }
    }
    loop {
        let mut x = r.below(total);
        if gc_bias && r.chance(1, 2) {
            let n = r.range(1030, 1200) as usize;
            return json!({"op": "new_atom", "b": bytes_json(&vec![0xaa; n])});
        }
        if x < w.atom {
            return json!({"op": "new_atom", "b": bytes_json(&gen_atom(r))});
        }
        x -= w.atom;
        if x < w.ints {
            match r.below(5) {
                0 => {
                    let v = *r.pick(&[0u32, 1, 127, 128, 255, 256, 32767, 32768, 8388607, 8388608, (1 << 26) - 1]);
                    let v = if r.chance(1, 3) { (r.next() as u32) & ((1 << 26) - 1) } else { v };
                    return json!({"op": "new_small_number", "v": v});
                }
                1 => {
                    let (neg, mag) = gen_int(r, 80);
                    return z_json("new_number", neg, &mag);
                }
                2 => {
                    let (neg, mag) = gen_int(r, 80);
                    return z_json("new_malachite_number", neg, &mag);
                }
                3 => {
                    let (neg, mag) = gen_int(r, 64);
                    match z_i128(neg, &mag) {
                        Some(v) if v >= 0 && v <= u64::MAX as i128 => return z_json("new_u64", neg, &mag),
                        _ => continue,
                    }
                }
                _ => {
                    let (neg, mag) = gen_int(r, 63);
                    match z_i128(neg, &mag) {
                        Some(v) if v >= i64::MIN as i128 && v <= i64::MAX as i128 => return z_json("new_i64", neg, &mag),
                        _ => continue,
                    }
                }
            }
        }
        x -= w.ints;
        if x < w.pair {
            return json!({"op": "new_pair", "f": recent(r, &live), "r": recent(r, &live)});
        }
        x -= w.pair;
        if x < w.substr {
            // prefer inline sources half of the time
            let inl: Vec<usize> = atoms.iter().copied().filter(|k| s.h[k - 1].object_type() == ObjectType::SmallAtom).collect();
            let n = if r.chance(1, 20) { recent(r, &live) } else if r.chance(1, 2) && !inl.is_empty() { recent(r, &inl) } else { recent(r, &atoms) };
            let len = if s.h[n - 1].is_atom() { s.a.atom_len(s.h[n - 1]) as i64 } else { 0 };
            let (st, en) = match r.below(12) {
                0 => (len + 1, len + 1),
                1 => (0, len + 1 + r.range(0, 3)),
                2 if len >= 1 => (len, len - 1),
                3 => (r.range(0, 70000), r.range(0, 70000)),
                4 => (0, len),
                5 => (len, len),
                _ => {
                    let a = r.range(0, len);
                    (a, r.range(a, len))
                }
            };
            return json!({"op": "new_substr", "n": n, "s": st, "e": en});
        }
        x -= w.substr;
        if x < w.concat {
            let k = *r.pick(&[0usize, 1, 1, 2, 2, 2, 3, 4, 6]);
            let mut ns = Vec::new();
            for _ in 0..k {
                if k >= 2 && r.chance(1, 25) {
                    ns.push(recent(r, &live));
                } else {
                    ns.push(recent(r, &atoms));
                }
            }
            let sum: usize = ns.iter().map(|n| if s.h[n - 1].is_atom() { s.a.atom_len(s.h[n - 1]) } else { 0 }).sum();
            let size = match r.below(14) {
                0 => sum + 1,
                1 if sum > 0 => sum - 1,
                2 => sum + r.range(1, 5000) as usize,
                _ => sum,
            };
            return json!({"op": "new_concat", "size": size, "ns": ns});
        }
        x -= w.concat;
        if x < w.cp {
            if s.cps.len() >= 4 {
                continue;
            }
            return json!({"op": if r.chance(1, 2) { "checkpoint" } else { "tcheckpoint" }});
        }
        x -= w.cp;
        if x < w.restore {
            if s.cps.is_empty() {
                continue;
            }
            // mostly the innermost checkpoints
            let i = if r.chance(3, 4) { s.cps.len() } else { 1 + r.below(s.cps.len() as u64) as usize };
            match &s.cps[i - 1] {
                Cp::Full(_, _) => return json!({"op": "restore", "cp": i}),
                Cp::Transp(_, _) => {
                    if r.chance(1, 3) {
                        return json!({"op": "trestore", "cp": i});
                    }
                    return json!({"op": "maybe_restore", "cp": i, "n": recent(r, &live)});
                }
            }
        }
        // ghosts
        let amt = r.below(4);
        match r.below(3) {
            0 => return json!({"op": "add_ghost_atom", "amt": amt}),
            1 => return json!({"op": "add_ghost_pair", "amt": amt}),
            _ => {
                let ghost = (s.a.pair_count() - s.a.allocated_pair_count()) as u64;
                return json!({"op": "remove_ghost_pair", "amt": amt.min(ghost)});
            }
        }
    }
}

fn emit_new(out: &mut Out, s: &Sess) {
    let (a, p, h) = s.counters();
    out.emit(&json!({"ev": "new", "op": "new", "hl": n_le(s.hl as u128), "st": "ok", "ret": 0, "atoms": a, "pairs": p, "heap": h}));
}

fn emit_eq(out: &mut Out, s: &Sess, x: usize, y: usize) {
    let (nx, ny) = (s.h[x - 1], s.h[y - 1]);
    let a = &s.a;
    match catch(|| a.atom_eq(nx, ny)) {
        Ok(r) => out.emit(&json!({"ev": "eq", "op": "eq", "x": x, "y": y, "r": r})),
        Err(p) => out.emit(&json!({"ev": "eq", "op": "eq", "x": x, "y": y, "r": "panic", "msg": p})),
    }
}

/// run one call on the session, write the event; false = stop this allocator's history
fn step(out: &mut Out, s: &mut Sess, op: &Value) -> bool {
    let obs = exec(s, op);
    let ev = merge(op, &obs);
    // a maybe_restore that fails may already have restored: the harness cannot know which handles survive
    let bad = obs["st"] == "panic" || obs.get("rb_panic").is_some() || (op["op"] == "maybe_restore" && obs["st"] != "ok");
    out.emit(&ev);
    // a heap beyond its limit is possible only through the known finding F5; what follows it
    // (e.g. maybe_restore's clone running out of memory half-way) is not a separate defect
    !bad && s.a.heap_size() as u64 <= s.hl
}

fn record(args: &[String], out: &mut Out) {
    let seed = arg_u64(args, "--seed", 1);
    let n_alloc = arg_u64(args, "--n", 20);
    let max_len = arg_u64(args, "--len", 100);
    let profile = arg(args, "--profile").unwrap_or("c12".into());
    let mut r = Rng::new(seed.wrapping_mul(0x9E37_79B9).wrapping_add(match profile.as_str() {
        "c13" => 13,
        "c14" => 14,
        _ => 12,
    }));
    for ai in 0..n_alloc {
        let near = match profile.as_str() {
            "c13" => r.chance(5, 6),
            _ => r.chance(1, 6),
        };
        // heap limit
        let hl: u64 = if near && r.chance(2, 3) {
            *r.pick(&[1u64, 2, 3, 4, 5, 6, 8, 12, 20, 40, 80, 1100, 1300, 2500])
        } else if r.chance(1, 4) {
            r.range(1, 3000) as u64
        } else {
            u32::MAX as u64
        };
        let mut s = Sess::new(hl);
        emit_new(out, &s);
        let mut alive = true;
        // pre-load to a distance 0..3 (sometimes a bit more) from the atom / pair caps
        if near {
            if r.chance(2, 3) {
                let d = if r.chance(3, 4) { r.below(4) } else { r.below(12) };
                alive = alive && step(out, &mut s, &json!({"op": "add_ghost_atom", "amt": REAL_MAX - 2 - d}));
            }
            if r.chance(2, 3) {
                let d = if r.chance(3, 4) { r.below(4) } else { r.below(12) };
                alive = alive && step(out, &mut s, &json!({"op": "add_ghost_pair", "amt": REAL_MAX - d}));
            }
        }
        let w = match profile.as_str() {
            "c13" => Weights { atom: 22, ints: 8, pair: 16, substr: 14, concat: 12, cp: 6, restore: 8, ghost: 10 },
            "c14" => Weights { atom: 22, ints: 24, pair: 8, substr: 16, concat: 12, cp: 6, restore: 8, ghost: 2 },
            _ => Weights { atom: 22, ints: 10, pair: 12, substr: 18, concat: 14, cp: 8, restore: 10, ghost: 4 },
        };
        let len = if ai % 4 == 0 { max_len } else { r.range(max_len as i64 / 4, max_len as i64) as u64 };
        let mut i = 0;
        while alive && i < len {
            i += 1;
            // once per roomy allocator: the interpreter's GC pattern - transparent checkpoint, a value derived
            // from old bytes (substring of an older heap atom) or a fresh small one, >= 1024 bytes of garbage,
            // then maybe_restore_with_node keeping that value (reaches Replace via AfterOldBytes / clone)
            if i == len / 2 && hl > 4000 && s.cps.len() < 4 {
                let old_heap: Vec<usize> = s.live_atoms().into_iter().filter(|k| s.h[k - 1].object_type() == ObjectType::Bytes && s.a.atom_len(s.h[k - 1]) >= 2).collect();
                let mut script: Vec<Value> = vec![json!({"op": "tcheckpoint"})];
                match r.below(3) {
                    0 if !old_heap.is_empty() => {
                        let n = *r.pick(&old_heap);
                        let l = s.a.atom_len(s.h[n - 1]) as i64;
                        let a = r.range(0, l - 1);
                        script.push(json!({"op": "new_substr", "n": n, "s": a, "e": r.range(a + 1, l)}));
                    }
                    1 => {
                        let n = *r.pick(&[5usize, 47, 48, 49]);
                        script.push(json!({"op": "new_atom", "b": bytes_json(&r.bytes(n))}));
                    }
                    _ => script.push(json!({"op": "new_atom", "b": bytes_json(&gen_atom(&mut r))})),
                }
                for op in script {
                    alive = alive && step(out, &mut s, &op);
                }
                let kept = s.h.len();
                let garbage = r.range(1030, 1200) as usize;
                alive = alive && step(out, &mut s, &json!({"op": "new_atom", "b": bytes_json(&vec![0x55; garbage])}));
                if alive && s.live[kept - 1] {
                    let cp = s.cps.len();
                    alive = step(out, &mut s, &json!({"op": "maybe_restore", "cp": cp, "n": kept}));
                }
                if !alive {
                    break;
                }
            }
            let gc_bias = matches!(s.cps.last(), Some(Cp::Transp(_, n)) if *n + 2 >= s.h.len()) && hl > 1500;
            let near_heap = s.a.heap_size() as u64 + 2 >= hl;
            let op = gen_op(&mut r, &s, &w, gc_bias, near_heap);
            alive = step(out, &mut s, &op);
            if !alive {
                break;
            }
            if r.chance(1, 3) {
                let at = s.live_atoms();
                let x = at[at.len() - 1 - r.below(at.len().min(3) as u64) as usize];
                let y = *r.pick(&at);
                emit_eq(out, &s, x, y);
            }
            if i % 40 == 0 && !emit_proj(out, &s) {
                break;
            }
        }
        if alive {
            if !emit_proj(out, &s) { continue; }
        }
    }
}

/// deterministic exhaustive part: every byte string of length <= 2 (quick: <= 1 and boundary pairs),
/// boundary strings of 3..5 bytes, each stored by new_atom and once more as a heap atom
/// (concat of nil and the node); then integers +-2^k+d through all five integer constructors.
fn sweep(args: &[String], out: &mut Out) {
    let full = arg(args, "--mode").unwrap_or("quick".into()) == "full";
    let mut strings: Vec<Vec<u8>> = vec![vec![]];
    for x in 0..=255u8 {
        strings.push(vec![x]);
    }
    let b5 = [0u8, 1, 127, 128, 255];
    let b7 = [0u8, 1, 3, 4, 127, 128, 255];
    for x in 0..=255u8 {
        for y in 0..=255u8 {
            if full || b5.contains(&y) || b7.contains(&x) {
                strings.push(vec![x, y]);
            }
        }
    }
    let b6 = [0u8, 3, 4, 127, 128, 255];
    for n in 3..=4usize {
        let mut idx = vec![0usize; n];
        loop {
            strings.push(idx.iter().map(|i| b6[*i]).collect());
            let mut p = n;
            while p > 0 {
                p -= 1;
                idx[p] += 1;
                if idx[p] < b6.len() {
                    break;
                }
                idx[p] = 0;
                if p == 0 {
                    p = usize::MAX;
                    break;
                }
            }
            if p == usize::MAX {
                break;
            }
        }
    }
    let b3 = [0u8, 128, 255];
    for x in [0u8, 3, 4, 127, 128, 255] {
        for i in 0..81usize {
            let t = [b3[i / 27], b3[(i / 9) % 3], b3[(i / 3) % 3], b3[i % 3]];
            strings.push(vec![x, t[0], t[1], t[2], t[3]]);
        }
    }
    for chunk in strings.chunks(64) {
        let mut s = Sess::new(u32::MAX as u64);
        emit_new(out, &s);
        for b in chunk {
            if !step(out, &mut s, &json!({"op": "new_atom", "b": bytes_json(b)})) {
                break;
            }
            let k = s.h.len();
            if !step(out, &mut s, &json!({"op": "new_concat", "size": b.len(), "ns": [1, k]})) {
                break;
            }
            emit_eq(out, &s, k, k + 1);
            if k >= 4 {
                emit_eq(out, &s, k - 1, k + 1);
            }
        }
        if !emit_proj(out, &s) { continue; }
    }
    // integers
    let mut vals: Vec<i128> = (-3..=3).collect();
    for k in 0..=72u32 {
        if !full && !(k % 8 == 7 || k % 8 == 0 || (24..=27).contains(&k)) {
            continue;
        }
        for d in -2..=2i128 {
            vals.push((1i128 << k) + d);
            vals.push(-(1i128 << k) + d);
        }
    }
    let ops_per = 5;
    for chunk in vals.chunks(24) {
        let mut s = Sess::new(u32::MAX as u64);
        emit_new(out, &s);
        for v in chunk {
            let neg = *v < 0;
            let mut m = v.unsigned_abs();
            let mut le = vec![];
            while m > 0 {
                le.push((m & 255) as u8);
                m >>= 8;
            }
            let first = s.h.len() + 1;
            let mut ok = true;
            ok = ok && step(out, &mut s, &z_json("new_number", neg, &le));
            ok = ok && step(out, &mut s, &z_json("new_malachite_number", neg, &le));
            if *v >= 0 && *v <= u64::MAX as i128 {
                ok = ok && step(out, &mut s, &z_json("new_u64", neg, &le));
            }
            if *v >= i64::MIN as i128 && *v <= i64::MAX as i128 {
                ok = ok && step(out, &mut s, &z_json("new_i64", neg, &le));
            }
            if *v >= 0 && *v < (1 << 26) {
                ok = ok && step(out, &mut s, &json!({"op": "new_small_number", "v": *v as u64}));
            }
            if !ok {
                break;
            }
            let last = s.h.len();
            for k in first..last {
                emit_eq(out, &s, k, k + 1);
            }
            if first > 3 {
                emit_eq(out, &s, first - 1, first);
            }
            let _ = ops_per;
        }
        if !emit_proj(out, &s) { continue; }
    }
}

// ---------------------------------------------------------------------------
// deterministic scenarios (impl -> spec): the interpreter's GC pattern with every kind of kept value, and
// every allocating call at distance 0..3 from each cap

fn run_script(out: &mut Out, s: &mut Sess, ops: &[Value]) -> bool {
    for op in ops {
        if !step(out, s, op) {
            return false;
        }
    }
    true
}

fn scen(args: &[String], out: &mut Out) {
    let mut r = Rng::new(arg_u64(args, "--seed", 1) ^ 0x5ce9);
    let atom = |b: &[u8]| json!({"op": "new_atom", "b": bytes_json(b)});
    // ---- GC pattern: [outer full checkpoint] prelude, transparent checkpoint, kept value, garbage, maybe_restore
    // kept values 16..: "heap-backed small integers" - Bytes-type atoms created after the checkpoint on new bytes
    // whose content is (or just fails to be) a canonical small integer: concat of two terms, or a slice of a
    // fresh 1 KB atom
    let cat_terms: [(&[u8], &[u8]); 8] = [
        (&[0x12], &[0x34]), (&[], &[0x7f]), (&[0x00], &[0x80]), (&[0x03], &[0xff, 0xff, 0xff]),
        (&[0x04], &[0x00, 0x00, 0x00]), (&[], &[0x00]), (&[0x00], &[0x01]), (&[], &[]),
    ];
    let fresh_prefix: [u8; 14] = [0x05, 0x7f, 0x00, 0x80, 0x03, 0xff, 0xff, 0xff, 0x04, 0x00, 0x00, 0x00, 0x00, 0x01];
    let fresh_slices: [(u32, u32); 8] = [(0, 1), (1, 2), (2, 4), (4, 8), (8, 12), (2, 3), (12, 14), (5, 5)];
    for kept in 0..32usize {
        for garbage in 0..4usize {
            for outer in 0..2usize {
                if (outer == 1 || kept >= 16) && garbage >= 1 && garbage <= 2 {
                    continue; // the long garbage variants once, for the first 16 kinds
                }
                let hl: u64 = if (kept + garbage) % 3 == 0 { 6000 } else { u32::MAX as u64 };
                let mut s = Sess::new(hl);
                emit_new(out, &s);
                let old = r.bytes(20 + (kept % 5));
                let mut pre = vec![atom(&old), atom(&[0x61, 0x80]), json!({"op": "new_pair", "f": 3, "r": 4})];
                if outer == 1 {
                    pre.insert(1, json!({"op": "checkpoint"}));
                }
                // handles: 3 = old heap atom, 4 = old inline atom, 5 = old pair
                if !run_script(out, &mut s, &pre) {
                    continue;
                }
                let ol = old.len();
                let mut ops: Vec<Value> = vec![json!({"op": "tcheckpoint"})];
                let mut keep: usize = 0; // 0 = the last created node
                match kept {
                    0 => keep = 3,
                    1 => keep = 4,
                    2 => keep = 5,
                    3 => ops.push(json!({"op": "new_substr", "n": 3, "s": 2, "e": ol - 3})),
                    4 => ops.push(json!({"op": "new_substr", "n": 3, "s": 0, "e": ol})),
                    5 => ops.push(json!({"op": "new_substr", "n": 3, "s": ol, "e": ol})),
                    6 => ops.push(json!({"op": "new_substr", "n": 3, "s": 0, "e": 0})),
                    7 => ops.push(atom(&[7])),
                    8 => ops.push(atom(&r.bytes(48))),
                    9 => ops.push(atom(&r.bytes(49))),
                    10 => ops.push(atom(&[0x81, 2, 3, 4, 5])),
                    11 => ops.push(json!({"op": "new_pair", "f": 3, "r": 4})),
                    12 => {
                        ops.push(atom(&r.bytes(30)));
                        ops.push(json!({"op": "new_substr", "n": 6, "s": 3, "e": 17}));
                    }
                    13 => ops.push(json!({"op": "new_concat", "size": ol + 2, "ns": [3, 4]})),
                    14 => {
                        ops.push(json!({"op": "new_substr", "n": 3, "s": 1, "e": ol - 1}));
                        ops.push(json!({"op": "new_substr", "n": 6, "s": 1, "e": 9}));
                    }
                    15 => ops.push(json!({"op": "new_substr", "n": 4, "s": 0, "e": 1})), // inline result of an inline atom
                    16..=23 => {
                        let (ta, tb) = cat_terms[kept - 16];
                        ops.push(atom(ta)); // handle 6
                        ops.push(atom(tb)); // handle 7
                        ops.push(json!({"op": "new_concat", "size": ta.len() + tb.len(), "ns": [6, 7]}));
                    }
                    _ => {
                        let mut fresh = fresh_prefix.to_vec();
                        fresh.extend(std::iter::repeat(0xaa).take(1040));
                        let (a, b) = fresh_slices[kept - 24];
                        ops.push(atom(&fresh)); // handle 6
                        ops.push(json!({"op": "new_substr", "n": 6, "s": a, "e": b}));
                    }
                }
                if !run_script(out, &mut s, &ops) {
                    continue;
                }
                if keep == 0 {
                    keep = s.h.len();
                }
                let mut g: Vec<Value> = Vec::new();
                match garbage {
                    0 => g.push(atom(&vec![0x55; 1024 + (kept * 7) % 90])),
                    1 => {
                        for _ in 0..130 {
                            g.push(json!({"op": "new_pair", "f": 3, "r": 4}));
                        }
                    }
                    2 => {
                        for i in 0..124u32 {
                            g.push(atom(&[0x80, (i & 0xff) as u8]));
                        }
                    }
                    _ => g.push(atom(&vec![0x55; 900])), // not enough to be worth a restore
                }
                if !run_script(out, &mut s, &g) {
                    continue;
                }
                let cp = s.cps.len();
                if !step(out, &mut s, &json!({"op": "maybe_restore", "cp": cp, "n": keep})) {
                    continue;
                }
                if !emit_proj(out, &s) { continue; }
                // the allocator goes on being used; the checkpoint can be used again
                let at = s.live_atoms();
                let last = *at.last().unwrap();
                let mut more = vec![atom(&r.bytes(6)), json!({"op": "new_pair", "f": last, "r": 3})];
                if kept % 2 == 0 {
                    more.push(atom(&vec![0x66; 1100]));
                    more.push(json!({"op": "maybe_restore", "cp": cp, "n": last}));
                }
                if !run_script(out, &mut s, &more) {
                    continue;
                }
                emit_eq(out, &s, *s.live_atoms().last().unwrap(), 3);
                if outer == 1 {
                    if !step(out, &mut s, &json!({"op": "restore", "cp": 1})) {
                        continue;
                    }
                }
                if !emit_proj(out, &s) { continue; }
            }
        }
    }
    // ---- every allocating call at distance d = 0..3 from the heap limit / the atom cap / the pair cap
    let calls: Vec<Value> = vec![
        atom(&[]), atom(&[0x80]), atom(&[0x61, 0x80]), atom(&[0x81, 2, 3]), atom(&[1, 2, 3, 4]),
        json!({"op": "new_small_number", "v": 0}), json!({"op": "new_small_number", "v": 200}),
        z_json("new_number", true, &[1]), z_json("new_u64", false, &[0, 1]), z_json("new_i64", true, &[0, 1]),
        z_json("new_malachite_number", false, &[0, 0, 0, 4]),
        json!({"op": "new_concat", "size": 0, "ns": []}), json!({"op": "new_concat", "size": 1, "ns": []}),
        json!({"op": "new_concat", "size": 0, "ns": [1]}), json!({"op": "new_concat", "size": 1, "ns": [2]}),
        json!({"op": "new_concat", "size": 2, "ns": [3]}), json!({"op": "new_concat", "size": 3, "ns": [4]}),
        json!({"op": "new_concat", "size": 3, "ns": [3]}),
        json!({"op": "new_concat", "size": 3, "ns": [2, 3]}), json!({"op": "new_concat", "size": 5, "ns": [3, 4]}),
        json!({"op": "new_concat", "size": 6, "ns": [2, 3, 4]}), json!({"op": "new_concat", "size": 0, "ns": [1, 1]}),
        json!({"op": "new_substr", "n": 3, "s": 0, "e": 1}), json!({"op": "new_substr", "n": 3, "s": 1, "e": 2}),
        json!({"op": "new_substr", "n": 4, "s": 1, "e": 3}), json!({"op": "new_substr", "n": 4, "s": 0, "e": 0}),
        json!({"op": "new_pair", "f": 3, "r": 4}),
        json!({"op": "add_ghost_atom", "amt": 0}), json!({"op": "add_ghost_atom", "amt": 1}), json!({"op": "add_ghost_atom", "amt": 2}),
        json!({"op": "add_ghost_pair", "amt": 0}), json!({"op": "add_ghost_pair", "amt": 1}), json!({"op": "add_ghost_pair", "amt": 3}),
    ];
    for cap in 0..3usize {
        for d in 0..4u64 {
            for call in &calls {
                // prelude: 3 = inline 2-byte atom 0x6180, 4 = heap 3-byte atom; heap = 1 + 2 + 3 = 6, atoms = 4
                let hl = if cap == 0 { 6 + d } else { u32::MAX as u64 };
                let mut s = Sess::new(hl);
                emit_new(out, &s);
                let mut pre = vec![atom(&[0x61, 0x80]), atom(&[0x81, 2, 3])];
                if cap == 1 {
                    pre.push(json!({"op": "add_ghost_atom", "amt": REAL_MAX - 4 - d}));
                }
                if cap == 2 {
                    pre.push(json!({"op": "add_ghost_pair", "amt": REAL_MAX - d}));
                }
                if !run_script(out, &mut s, &pre) {
                    continue;
                }
                // the call, twice (the second one meets the state the first one left), then a read-back
                if !run_script(out, &mut s, &[call.clone(), call.clone()]) {
                    continue;
                }
                if !emit_proj(out, &s) { continue; }
            }
        }
    }
}

// ---------------------------------------------------------------------------
// replay of TLC behaviours

fn replay(args: &[String], out: &mut Out) {
    let cases = read_ndjson(&arg(args, "--in").unwrap());
    let (mut done, mut skipped, mut steps, mut abstained) = (0u64, 0u64, 0u64, 0u64);
    for (ci, c) in cases.iter().enumerate() {
        done += 1;
        if !c["replayable"].as_bool().unwrap_or(true) {
            skipped += 1;
            continue;
        }
        let la = c["lim"]["atoms"].as_u64().unwrap();
        let lp = c["lim"]["pairs"].as_u64().unwrap();
        let lh = c["lim"]["heap"].as_u64().unwrap();
        let mut s = Sess::new(lh);
        // the model's small caps are reproduced by pre-loading the real allocator with ghosts
        let (off_a, off_p) = (REAL_MAX - la, REAL_MAX - lp);
        s.a.add_ghost_atom(off_a as usize).unwrap();
        s.a.add_ghost_pair(off_p as usize).unwrap();
        let ops = c["ops"].as_array().unwrap();
        let mut failed = false;
        for (i, e) in ops.iter().enumerate() {
            let op = &e["op"];
            let src = if op["op"] == "new_substr" {
                let n = s.h[op["n"].as_u64().unwrap() as usize - 1];
                if n.is_atom() { bytes_json(s.a.atom(n).as_ref()) } else { json!([]) }
            } else {
                json!([])
            };
            let before = s.counters();
            let mut obs = exec(&mut s, op);
            steps += 1;
            // counters in the model's frame
            obs["atoms"] = json!(obs["atoms"].as_u64().unwrap() as i64 - off_a as i64);
            obs["pairs"] = json!(obs["pairs"].as_u64().unwrap() as i64 - off_p as i64);
            let same = obs["st"] == e["st"]
                && obs["ret"] == e["ret"]
                && obs["atoms"] == e["atoms"]
                && obs["pairs"] == e["pairs"]
                && obs["heap"] == e["heap"];
            let out_same = op["op"] != "maybe_restore" || obs["out"] == op["out"];
            // read-back of the created atom (bytes) where the model gives it
            let rb_known = e.get("rb").map(|x| x != &json!([-1])).unwrap_or(false) && obs.get("rb").is_some();
            let rb_same = !rb_known || obs["rb"] == e["rb"];
            obs["rb_differs"] = json!(!rb_same);
            if !same || !out_same || !rb_same {
                let kind = if same && rb_same { "outcome" } else { "step" };
                out.emit(&json!({"kind": kind, "case": ci, "profile": c["profile"], "lim": c["lim"], "step": i + 1, "op": op,
                    "exp": {"st": e["st"], "ret": e["ret"], "atoms": e["atoms"], "pairs": e["pairs"], "heap": e["heap"], "rb": e["rb"]},
                    "obs": obs, "src": src,
                    "before": {"atoms": before.0 as i64 - off_a as i64, "pairs": before.1 as i64 - off_p as i64, "heap": before.2},
                    "prefix": ops[..i].iter().map(|x| x["op"].clone()).collect::<Vec<_>>()}));
                failed = true;
                abstained += (ops.len() - i - 1) as u64;
                break;
            }
        }
        if failed {
            continue;
        }
        // final contents
        let fin = c["final"].as_array().unwrap();
        let mut bad = Vec::new();
        if fin.len() != s.h.len() {
            bad.push(json!({"what": "number of nodes", "exp": fin.len(), "obs": s.h.len()}));
        } else {
            for (k, f) in fin.iter().enumerate() {
                let n = s.h[k];
                if f["k"] == "dead" {
                    continue;
                }
                if f["k"] == "atom" {
                    if !n.is_atom() {
                        bad.push(json!({"node": k + 1, "exp": f, "obs": "pair"}));
                        continue;
                    }
                    let mut o = json!({});
                    read_atom(&s.a, n, &mut o);
                    let mut good = o["rb"] == f["b"] && o["sn"] == f["sn"];
                    if f.get("mag").is_some() && o.get("rmag").is_some() {
                        good = good && o["rneg"] == f["neg"] && o["rmag"] == f["mag"] && o["rmal"] == true;
                    }
                    if !good {
                        bad.push(json!({"node": k + 1, "exp": f, "obs": o}));
                    }
                } else {
                    let x = s.h[f["x"].as_u64().unwrap() as usize - 1];
                    let y = s.h[f["y"].as_u64().unwrap() as usize - 1];
                    if s.a.sexp(n) != SExp::Pair(x, y) {
                        bad.push(json!({"node": k + 1, "exp": f, "obs": "other children"}));
                    }
                }
            }
            // atom_eq <=> byte equality of the expected contents
            let at: Vec<usize> = (0..fin.len()).filter(|k| fin[*k]["k"] == "atom" && s.h[*k].is_atom()).collect();
            for x in &at {
                for y in &at {
                    let exp = fin[*x]["b"] == fin[*y]["b"];
                    if s.a.atom_eq(s.h[*x], s.h[*y]) != exp {
                        bad.push(json!({"atom_eq": [x + 1, y + 1], "exp": exp}));
                    }
                }
            }
        }
        if !bad.is_empty() {
            out.emit(&json!({"kind": "final", "case": ci, "profile": c["profile"], "bad": bad,
                "ops": ops.iter().map(|x| x["op"].clone()).collect::<Vec<_>>()}));
        }
    }
    out.emit(&json!({"done": done, "skipped": skipped, "steps": steps, "abstained": abstained}));
}

fn main() {
    let args: Vec<String> = std::env::args().collect();
    let cmd = args.get(1).map(|s| s.as_str()).unwrap_or("");
    let mut out = Out::create(&arg(&args, "--out").unwrap_or("-".into()));
    // panics of the code under test are data; keep stderr quiet
    std::panic::set_hook(Box::new(|_| {}));
    match cmd {
        "replay" => replay(&args, &mut out),
        "record" => record(&args, &mut out),
        "sweep" => sweep(&args, &mut out),
        "scen" => scen(&args, &mut out),
        _ => {
            eprintln!("usage: alloc replay|record|sweep ...");
            std::process::exit(2);
        }
    }
    out.flush();
}
