//! `run` engine: whole programs through run_program under several configurations.
//!   run record --profile P --seed S --n N --out trace.ndjson
//!   run replay --in cases.ndjson --out mismatches.ndjson      (cases of spec/MCInterp.tla, see replay_main)
//! Every case (program + environment) is run as several VARIANTS (see the profiles);
//! each run is written as
//!   {"ev":"begin",case,variant,dialect,flags,budget,prog,env,al:{atoms,pairs,heap,limit},wit:[..]}
//!   {"ev":"guard_enter"|"guard_exit"|"sample", ...}        (observation hook, --cfg clvmr_verif)
//!   {"ev":"end",case,variant,begin_line,ok,cost,val|kind,msg|panic,atoms,pairs,heap,rels:[{k,to}]}
use clvm_fuzzing::{make_clvm_program, make_tree_limits};
use clvmr::allocator::{Allocator, NodePtr};
use clvmr::chia_dialect::{ChiaDialect, ClvmFlags};
use clvmr::cost::Cost;
use clvmr::dialect::{Dialect, OperatorSet};
use clvmr::error::EvalErr;
use clvmr::more_ops::op_unknown;
use clvmr::reduction::{Reduction, Response};
use clvmr::run_program::{run_program, verif_hook};
#[cfg(feature = "diag")]
use clvmr::run_program::run_program_with_pre_eval;
use clvmr::runtime_dialect::RuntimeDialect;
use serde_json::{json, Value};
use std::cell::RefCell;
use std::collections::HashMap;
use std::rc::Rc;
use vh::gen::*;
use vh::*;

// ---------------------------------------------------------------------------
// dialect wrappers

thread_local! {
    /// bytes copied to the heap by the call site of known finding F5 during the current run: a `substr` call whose
    /// first argument is an INLINE small atom and which makes the heap grow (Allocator::new_substr copies the slice
    /// without consulting the heap limit). Only this call site is counted; the `sample` event reports the sum.
    static F5_BYTES: std::cell::Cell<usize> = const { std::cell::Cell::new(0) };
}

fn f5_site(a: &Allocator, opb: &[u8], args: NodePtr) -> bool {
    if opb != [12] {
        return false;
    }
    match a.sexp(args) {
        clvmr::allocator::SExp::Pair(first, _) => matches!(a.node(first), clvmr::allocator::NodeVisitor::U32(_)),
        _ => false,
    }
}

fn f5_note(site: bool, h0: usize, a: &Allocator, r: &Response) {
    if site && r.is_ok() && a.heap_size() > h0 {
        F5_BYTES.with(|c| c.set(c.get() + (a.heap_size() - h0)));
    }
}

/// records the outcome of every cryptographic operator call (witnesses for the specification)
struct Witness<'a, D: Dialect> {
    inner: &'a D,
    log: RefCell<Vec<Value>>,
    /// treat the 4-byte secp opcodes / one-byte crypto opcodes as the wrapped dialect does
    unaware: bool,
}

fn is_crypto(op: &[u8], flag_bits: u32, unaware: bool, runtime: bool) -> bool {
    if op.len() == 4 {
        return !unaware && !runtime && (op == [0x13, 0xd6, 0x1f, 0x00] || op == [0x1c, 0x3a, 0x8f, 0x00]);
    }
    if op.len() != 1 {
        return false;
    }
    match op[0] {
        29 | 30 | 49..=59 => true,
        62 => !runtime && flag_bits & 0x0100 != 0,
        64 | 65 => !runtime && flag_bits & 0x0800 != 0,
        _ => false,
    }
}

impl<D: Dialect> Dialect for Witness<'_, D> {
    fn quote_kw(&self) -> u32 {
        self.inner.quote_kw()
    }
    fn apply_kw(&self) -> u32 {
        self.inner.apply_kw()
    }
    fn softfork_kw(&self) -> u32 {
        self.inner.softfork_kw()
    }
    fn softfork_extension(&self, ext: u32) -> OperatorSet {
        self.inner.softfork_extension(ext)
    }
    fn flags(&self) -> ClvmFlags {
        self.inner.flags()
    }
    fn gc_candidate(&self, a: &Allocator, op: NodePtr) -> bool {
        self.inner.gc_candidate(a, op)
    }
    fn allow_unknown_ops(&self) -> bool {
        self.inner.allow_unknown_ops()
    }
    fn op(&self, a: &mut Allocator, op: NodePtr, args: NodePtr, max_cost: Cost, ext: OperatorSet) -> Response {
        let opb = a.atom(op).as_ref().to_vec();
        let mut fl = self.inner.flags().bits();
        if matches!(ext, OperatorSet::Keccak | OperatorSet::PreHardFork) {
            fl |= 0x0100;
        }
        let crypto = is_crypto(&opb, fl, self.unaware, false);
        let (a0, h0) = (a.atom_count(), a.heap_size());
        let site = f5_site(a, &opb, args);
        let r = self.inner.op(a, op, args, max_cost, ext);
        f5_note(site, h0, a, &r);
        if crypto {
            let w = match &r {
                Ok(Reduction(cost, node)) => {
                    let al: Vec<Value> = if a.atom_count() > a0 { vec![json!(["A", a.heap_size() - h0])] } else { vec![] };
                    json!({"ok": true, "cost": n_le(*cost as u128), "val": tree_json(a, *node), "al": al, "op": bytes_json(&opb)})
                }
                Err(e) => json!({"ok": false, "kind": err_kind(e), "op": bytes_json(&opb)}),
            };
            self.log.borrow_mut().push(w);
        }
        r
    }
}

/// ChiaDialect that knows no softfork extension and no 4-byte secp operator (C08)
struct Unaware {
    inner: ChiaDialect,
}

impl Dialect for Unaware {
    fn quote_kw(&self) -> u32 {
        self.inner.quote_kw()
    }
    fn apply_kw(&self) -> u32 {
        self.inner.apply_kw()
    }
    fn softfork_kw(&self) -> u32 {
        self.inner.softfork_kw()
    }
    fn softfork_extension(&self, _ext: u32) -> OperatorSet {
        OperatorSet::Default
    }
    fn flags(&self) -> ClvmFlags {
        self.inner.flags()
    }
    fn gc_candidate(&self, a: &Allocator, op: NodePtr) -> bool {
        self.inner.gc_candidate(a, op)
    }
    fn allow_unknown_ops(&self) -> bool {
        self.inner.allow_unknown_ops()
    }
    fn op(&self, a: &mut Allocator, op: NodePtr, args: NodePtr, max_cost: Cost, _ext: OperatorSet) -> Response {
        if a.atom_len(op) == 4 {
            if self.inner.flags().contains(ClvmFlags::NO_UNKNOWN_OPS) {
                return Err(EvalErr::Unimplemented(op));
            }
            return op_unknown(a, op, args, max_cost, self.inner.flags());
        }
        self.inner.op(a, op, args, max_cost, OperatorSet::Default)
    }
}

fn runtime_dialect(fl: u32) -> RuntimeDialect {
    let names: &[(&str, u8)] = &[
        ("op_if", 3), ("op_cons", 4), ("op_first", 5), ("op_rest", 6), ("op_listp", 7), ("op_raise", 8),
        ("op_eq", 9), ("op_gr_bytes", 10), ("op_sha256", 11), ("op_substr", 12), ("op_strlen", 13),
        ("op_concat", 14), ("op_add", 16), ("op_subtract", 17), ("op_multiply", 18), ("op_div", 19),
        ("op_divmod", 20), ("op_gr", 21), ("op_ash", 22), ("op_lsh", 23), ("op_logand", 24),
        ("op_logior", 25), ("op_logxor", 26), ("op_lognot", 27), ("op_point_add", 29),
        ("op_pubkey_for_exp", 30), ("op_not", 32), ("op_any", 33), ("op_all", 34), ("op_g1_subtract", 49),
        ("op_g1_multiply", 50), ("op_g1_negate", 51), ("op_g2_add", 52), ("op_g2_subtract", 53),
        ("op_g2_multiply", 54), ("op_g2_negate", 55), ("op_g1_map", 56), ("op_g2_map", 57),
        ("op_bls_pairing_identity", 58), ("op_bls_verify", 59), ("op_modpow", 60), ("op_mod", 61),
    ];
    let mut m = HashMap::new();
    for (n, b) in names {
        m.insert(n.to_string(), vec![*b]);
    }
    RuntimeDialect::new(m, vec![1], vec![2], flags(fl))
}

/// the entry point under test: in the `diag` build (features counters + pre-eval) the run goes through
/// run_program_with_pre_eval with an observe-only callback
#[cfg(not(feature = "diag"))]
fn run_entry<D: Dialect>(a: &mut Allocator, d: &D, p: NodePtr, e: NodePtr, budget: Cost) -> Response {
    run_program(a, d, p, e, budget)
}

#[cfg(feature = "diag")]
fn run_entry<D: Dialect>(a: &mut Allocator, d: &D, p: NodePtr, e: NodePtr, budget: Cost) -> Response {
    let seen = Rc::new(RefCell::new(0u64));
    let s2 = seen.clone();
    let pre: clvmr::run_program::PreEval = Box::new(move |_a: &mut Allocator, _p: NodePtr, _e: NodePtr| {
        *s2.borrow_mut() += 1;
        let s3 = s2.clone();
        let post: Box<clvmr::run_program::PostEval> = Box::new(move |_a: &mut Allocator, _r: Option<NodePtr>| {
            *s3.borrow_mut() += 1;
        });
        Ok(Some(post))
    });
    run_program_with_pre_eval(a, d, p, e, budget, Some(pre))
}

/// the interpreter's own high-water marks of its three stacks (feature `counters`, diag build only)
#[cfg(feature = "diag")]
fn run_stacks(a: &mut Allocator, fl: ClvmFlags, p: NodePtr, e: NodePtr, budget: Cost) -> (Response, Option<Value>) {
    let d = ChiaDialect::new(fl);
    let (c, r) = clvmr::run_program::run_program_with_counters(a, &d, p, e, budget);
    let v = json!({"val": c.val_stack_usage, "env": c.env_stack_usage, "op": c.op_stack_usage,
                   "max_atoms": c.max_atom_count, "max_pairs": c.max_pair_count, "max_heap": c.max_heap_size});
    (r, Some(v))
}

#[cfg(not(feature = "diag"))]
fn run_stacks(a: &mut Allocator, fl: ClvmFlags, p: NodePtr, e: NodePtr, budget: Cost) -> (Response, Option<Value>) {
    let d = ChiaDialect::new(fl);
    (run_program(a, &d, p, e, budget), None)
}

/// unrecorded probe: the error kind of a ChiaDialect run under `budget` ("" = success, "panic")
fn probe_kind(prog: &Value, env: &Value, fl: u32, budget: u64) -> String {
    let (p2, e2) = (prog.clone(), env.clone());
    match catch(move || {
        let mut a = Allocator::new();
        let p = json_tree(&mut a, &p2).unwrap();
        let e = json_tree(&mut a, &e2).unwrap();
        let d = ChiaDialect::new(flags(fl));
        match run_program(&mut a, &d, p, e, budget) {
            Ok(_) => String::new(),
            Err(e) => err_kind(&e).to_string(),
        }
    }) {
        Ok(k) => k,
        Err(_) => "panic".to_string(),
    }
}

/// for a program that fails with something other than CostExceeded under an unlimited budget: the smallest budget
/// under which it still fails that way (below it the run is stopped for cost first); None if there is none
fn failure_threshold(prog: &Value, env: &Value, fl: u32) -> Option<u64> {
    let k = probe_kind(prog, env, fl, 0);
    if k.is_empty() || k == "CostExceeded" || k == "panic" {
        return None;
    }
    let (mut lo, mut hi) = (1u64, 1u64 << 34); // lo: CostExceeded (or unknown), hi: fails with k
    if probe_kind(prog, env, fl, hi) != k {
        return None;
    }
    if probe_kind(prog, env, fl, lo) == k {
        return Some(1);
    }
    while hi - lo > 1 {
        let mid = lo + (hi - lo) / 2;
        if probe_kind(prog, env, fl, mid) == k { hi = mid } else { lo = mid }
    }
    Some(hi)
}

// ---------------------------------------------------------------------------
// one recorded run

#[derive(Clone)]
struct Cfg {
    variant: String,
    dialect: &'static str, // chia | unaware | runtime
    flags: u32,
    budget: u64,
    /// pre-load of the allocator before the trees are built
    ghost_atoms: usize,
    ghost_pairs: usize,
    heap_limit: Option<usize>,
    /// 0: new_atom; 1: atoms as concat of halves; 2: atoms as substr views of a longer atom
    encoding: u8,
    /// noise: allocate unrelated nodes / run an unrelated program first
    history: u64,
    /// run through run_program_with_counters and report the stack high-water marks (diag build)
    stacks: bool,
    rels: Vec<(&'static str, String)>,
}

impl Cfg {
    fn new(variant: &str, dialect: &'static str, flags: u32, budget: u64) -> Cfg {
        Cfg {
            variant: variant.to_string(),
            dialect,
            flags,
            budget,
            ghost_atoms: 0,
            ghost_pairs: 0,
            heap_limit: None,
            encoding: 0,
            history: 0,
            stacks: false,
            rels: vec![],
        }
    }
    fn rel(mut self, k: &'static str, to: &str) -> Cfg {
        self.rels.push((k, to.to_string()));
        self
    }
}

fn build_tree(a: &mut Allocator, v: &Value, encoding: u8) -> Result<NodePtr, EvalErr> {
    if encoding == 0 {
        return json_tree(a, v);
    }
    let v = unflatten_tree(v);
    if encoding == 3 {
        // maximal sharing: equal sub-trees (atoms and pairs) are ONE node, as `(c X X)`, new_pair(x, x) or a
        // back-reference decoder produce them
        fn shared(a: &mut Allocator, v: &Value, memo: &mut HashMap<String, NodePtr>) -> Result<NodePtr, EvalErr> {
            let key = v.to_string();
            if let Some(n) = memo.get(&key) {
                return Ok(*n);
            }
            let n = if let Some(b) = v.get("a") {
                a.new_atom(&json_bytes(b))?
            } else {
                let f = shared(a, &v["f"], memo)?;
                let r = shared(a, &v["r"], memo)?;
                a.new_pair(f, r)?
            };
            memo.insert(key, n);
            Ok(n)
        }
        return shared(a, &v, &mut HashMap::new());
    }
    fn rec(a: &mut Allocator, v: &Value, enc: u8) -> Result<NodePtr, EvalErr> {
        if let Some(b) = v.get("a") {
            let b = json_bytes(b);
            if enc == 1 {
                // heap bytes via concat of two halves (never an inline small atom unless empty)
                if b.is_empty() {
                    return a.new_concat(0, &[]);
                }
                let h = b.len() / 2;
                let x = a.new_atom(&b[..h])?;
                let y = a.new_atom(&b[h..])?;
                let nodes: Vec<NodePtr> = [x, y].into_iter().filter(|n| a.atom_len(*n) > 0).collect();
                if nodes.len() == 1 {
                    // a one-byte atom: concat of one node returns the node itself; force heap bytes with padding+substr
                    let mut padded = vec![0xAAu8, 0xBB];
                    padded.extend_from_slice(&b);
                    let big = a.new_atom(&padded)?;
                    return a.new_substr(big, 2, padded.len() as u32);
                }
                a.new_concat(b.len(), &nodes)
            } else {
                // substring view of a longer heap atom
                let mut padded = vec![0x5Au8, 0xA5, 0x80];
                padded.extend_from_slice(&b);
                padded.extend_from_slice(&[0x7f, 0x01]);
                let big = a.new_atom(&padded)?;
                a.new_substr(big, 3, 3 + b.len() as u32)
            }
        } else {
            let f = rec(a, &v["f"], enc)?;
            let r = rec(a, &v["r"], enc)?;
            a.new_pair(f, r)
        }
    }
    rec(a, &v, encoding)
}

fn run_one(out: &mut Out, case: u64, prog: &Value, env: &Value, cfg: &Cfg, line_no: &mut usize) -> Value {
    let events: Rc<RefCell<Vec<Value>>> = Rc::new(RefCell::new(Vec::new()));
    let maxes: Rc<RefCell<(usize, usize, usize)>> = Rc::new(RefCell::new((0, 0, 0)));
    let cfg2 = cfg.clone();
    let ev2 = events.clone();
    let mx2 = maxes.clone();
    let res = catch(move || {
        let mx2 = mx2;
        let mut a = match cfg2.heap_limit {
            Some(h) => Allocator::new_limited(h),
            None => Allocator::new(),
        };
        if cfg2.history > 0 {
            // unrelated earlier use of the same allocator: allocations and a failed + a successful run
            let mut r = Rng::new(cfg2.history);
            for _ in 0..r.below(20) {
                let n = r.below(40) as usize;
                let b = r.bytes(n);
                let x = a.new_atom(&b).unwrap();
                let _ = a.new_pair(x, x);
            }
            let d = ChiaDialect::new(flags(0));
            let p1 = json_tree(&mut a, &list_json(&[atom_json(&[16]), json!({"f": atom_json(&[1]), "r": atom_json(&[7])}), json!({"f": atom_json(&[1]), "r": atom_json(&[9, 9, 9])})])).unwrap();
            let nil = a.nil();
            let _ = run_program(&mut a, &d, p1, nil, 0);
            let p2 = json_tree(&mut a, &list_json(&[atom_json(&[8])])).unwrap();
            let _ = run_program(&mut a, &d, p2, nil, 0);
            // a run that validates a BLS point and then fails (cache left populated until the next run)
            let g1 = hex::decode("97f1d3a73197d7942695638c4fa9ac0fc3688c4f9774b905a14e3a3f171bac586c55e83ff97a1aeffb3af00adb22c6bb").unwrap();
            let p3 = json_tree(&mut a, &list_json(&[atom_json(&[8]), list_json(&[atom_json(&[51]), json!({"f": atom_json(&[1]), "r": atom_json(&g1)})])])).unwrap();
            let _ = run_program(&mut a, &d, p3, nil, 0);
        }
        if cfg2.ghost_atoms > 0 {
            a.add_ghost_atom(cfg2.ghost_atoms).unwrap();
        }
        if cfg2.ghost_pairs > 0 {
            a.add_ghost_pair(cfg2.ghost_pairs).unwrap();
        }
        let built = build_tree(&mut a, prog, cfg2.encoding).and_then(|p| build_tree(&mut a, env, cfg2.encoding).map(|e| (p, e)));
        let (p, e) = match built {
            Ok(x) => x,
            Err(_) => return json!({"skip": "could not build the input under the allocator pre-load"}),
        };
        if cfg2.history > 0 && cfg2.history % 2 == 1 {
            // an earlier run of the SAME program in this allocator (it may fail, e.g. while validating a point,
            // and it leaves its allocations and any cached validation behind)
            let d = ChiaDialect::new(flags(cfg2.flags));
            let _ = run_program(&mut a, &d, p, e, cfg2.budget);
        }
        let al = json!({"atoms": a.atom_count(), "pairs": a.pair_count(), "heap": a.heap_size(),
                        "limit": cfg2.heap_limit.map(|h| h as i64).unwrap_or(-1)});
        let evs = ev2.clone();
        let mxs = mx2.clone();
        verif_hook::set_observer(Some(Box::new(move |e: &verif_hook::Event| match e {
            verif_hook::Event::GuardEnter { declared, cost, exempt, depth, atoms, pairs, heap } => {
                evs.borrow_mut().push(json!({"ev": "guard_enter", "declared": n_le(*declared as u128), "cost": n_le(*cost as u128),
                    "exempt": exempt, "depth": depth, "atoms": atoms, "pairs": pairs, "heap": heap}));
            }
            verif_hook::Event::GuardExit { cost, nil, atoms, pairs, heap } => {
                evs.borrow_mut().push(json!({"ev": "guard_exit", "cost": n_le(*cost as u128), "nil": nil,
                    "atoms": atoms, "pairs": pairs, "heap": heap}));
            }
            verif_hook::Event::Step { atoms, pairs, heap, .. } => {
                let mut m = mxs.borrow_mut();
                m.0 = m.0.max(*atoms);
                m.1 = m.1.max(*pairs);
                m.2 = m.2.max(*heap);
            }
        })));
        let fl = flags(cfg2.flags);
        F5_BYTES.with(|c| c.set(0));
        let mut stacks: Option<Value> = None;
        let (result, wit) = match cfg2.dialect {
            "chia" if cfg2.stacks => {
                let (r, st) = run_stacks(&mut a, fl, p, e, cfg2.budget);
                stacks = st;
                (r, vec![])
            }
            "chia" => {
                let d = ChiaDialect::new(fl);
                let w = Witness { inner: &d, log: RefCell::new(vec![]), unaware: false };
                let r = run_entry(&mut a, &w, p, e, cfg2.budget);
                (r, w.log.into_inner())
            }
            "unaware" => {
                let d = Unaware { inner: ChiaDialect::new(fl) };
                let w = Witness { inner: &d, log: RefCell::new(vec![]), unaware: true };
                let r = run_entry(&mut a, &w, p, e, cfg2.budget);
                (r, w.log.into_inner())
            }
            _ => {
                let d = runtime_dialect(cfg2.flags);
                let w = RuntimeWitness { inner: &d, log: RefCell::new(vec![]) };
                let r = run_entry(&mut a, &w, p, e, cfg2.budget);
                (r, w.log.into_inner())
            }
        };
        verif_hook::set_observer(None);
        let mut end = match result {
            Ok(Reduction(cost, node)) => json!({"ok": true, "cost": n_le(cost as u128), "val": tree_json(&a, node)}),
            Err(e) => json!({"ok": false, "kind": err_kind(&e), "msg": e.to_string()}),
        };
        end["atoms"] = json!(a.atom_count());
        end["pairs"] = json!(a.pair_count());
        end["heap"] = json!(a.heap_size());
        {
            // the sampled maxima include the final counters, so that they do not depend on how many
            // loop iterations a build needs (the pre-eval feature adds PostEval operations)
            let mut m = mx2.borrow_mut();
            m.0 = m.0.max(a.atom_count());
            m.1 = m.1.max(a.pair_count());
            m.2 = m.2.max(a.heap_size());
        }
        let mut res = json!({"al": al, "wit": wit, "end": end, "f5": F5_BYTES.with(|c| c.get())});
        if let Some(st) = stacks {
            res["stacks"] = st;
        }
        res
    });
    verif_hook::set_observer(None);
    let r = match res {
        Ok(v) => v,
        Err(p) => json!({"al": {"atoms": 2, "pairs": 0, "heap": 1, "limit": -1}, "wit": [], "end": {"panic": p, "atoms": 0, "pairs": 0, "heap": 0}}),
    };
    if r.get("skip").is_some() {
        return r;
    }
    let begin = json!({"ev": "begin", "case": case, "variant": cfg.variant, "dialect": cfg.dialect,
        "flags": flags_json(cfg.flags), "budget": n_le(cfg.budget as u128), "prog": prog, "env": env,
        "al": r["al"], "wit": r["wit"]});
    out.emit(&begin);
    *line_no += 1;
    let begin_line = *line_no;
    for e in events.borrow().iter() {
        let mut e = e.clone();
        e["case"] = json!(case);
        e["variant"] = json!(cfg.variant);
        out.emit(&e);
        *line_no += 1;
    }
    let m = maxes.borrow();
    out.emit(&json!({"ev": "sample", "case": case, "variant": cfg.variant, "atoms": m.0, "pairs": m.1, "heap": m.2,
        "limit": cfg.heap_limit.map(|h| h as i64).unwrap_or(-1), "f5": r.get("f5").and_then(|x| x.as_u64()).unwrap_or(0)}));
    *line_no += 1;
    if let Some(st) = r.get("stacks") {
        let mut e = st.clone();
        e["ev"] = json!("stacks");
        e["case"] = json!(case);
        e["variant"] = json!(cfg.variant);
        out.emit(&e);
        *line_no += 1;
    }
    let mut end = r["end"].clone();
    end["ev"] = json!("end");
    end["case"] = json!(case);
    end["variant"] = json!(cfg.variant);
    end["begin_line"] = json!(begin_line);
    end["rels"] = Value::Array(cfg.rels.iter().map(|(k, to)| json!({"k": k, "to": to})).collect());
    out.emit(&end);
    *line_no += 1;
    // for the caller only (not part of the trace): where the guards of this run were entered and what they declared
    end["guards_seen"] = Value::Array(events.borrow().iter().filter(|e| e["ev"] == json!("guard_enter"))
        .map(|e| json!({"cost": le_n(&e["cost"]) as u64, "declared": le_n(&e["declared"]) as u64})).collect());
    end
}

struct RuntimeWitness<'a> {
    inner: &'a RuntimeDialect,
    log: RefCell<Vec<Value>>,
}

impl Dialect for RuntimeWitness<'_> {
    fn quote_kw(&self) -> u32 {
        self.inner.quote_kw()
    }
    fn apply_kw(&self) -> u32 {
        self.inner.apply_kw()
    }
    fn softfork_kw(&self) -> u32 {
        self.inner.softfork_kw()
    }
    fn softfork_extension(&self, ext: u32) -> OperatorSet {
        self.inner.softfork_extension(ext)
    }
    fn flags(&self) -> ClvmFlags {
        self.inner.flags()
    }
    fn gc_candidate(&self, a: &Allocator, op: NodePtr) -> bool {
        self.inner.gc_candidate(a, op)
    }
    fn allow_unknown_ops(&self) -> bool {
        self.inner.allow_unknown_ops()
    }
    fn op(&self, a: &mut Allocator, op: NodePtr, args: NodePtr, max_cost: Cost, ext: OperatorSet) -> Response {
        let opb = a.atom(op).as_ref().to_vec();
        let crypto = is_crypto(&opb, 0, false, true);
        let (a0, h0) = (a.atom_count(), a.heap_size());
        let site = f5_site(a, &opb, args);
        let r = self.inner.op(a, op, args, max_cost, ext);
        f5_note(site, h0, a, &r);
        if crypto {
            let w = match &r {
                Ok(Reduction(cost, node)) => {
                    let al: Vec<Value> = if a.atom_count() > a0 { vec![json!(["A", a.heap_size() - h0])] } else { vec![] };
                    json!({"ok": true, "cost": n_le(*cost as u128), "val": tree_json(a, *node), "al": al, "op": bytes_json(&opb)})
                }
                Err(e) => json!({"ok": false, "kind": err_kind(e), "op": bytes_json(&opb)}),
            };
            self.log.borrow_mut().push(w);
        }
        r
    }
}

// ---------------------------------------------------------------------------
// program generators

fn q(v: Value) -> Value {
    json!({"f": atom_json(&[1]), "r": v})
}

fn int_atom(v: i64) -> Value {
    let b = v.to_be_bytes();
    let mut s = &b[..];
    if v >= 0 {
        while !s.is_empty() && s[0] == 0 && (s.len() == 1 || s[1] & 0x80 == 0) {
            s = &s[1..];
        }
    } else {
        while s.len() > 1 && s[0] == 0xff && s[1] & 0x80 != 0 {
            s = &s[1..];
        }
    }
    atom_json(s)
}

const CLASSIC_OPS: &[u8] = &[3, 4, 5, 6, 7, 8, 9, 10, 11, 12, 13, 14, 16, 17, 18, 19, 20, 21, 22, 23, 24, 25, 26, 27, 32, 33, 34];
const NEWER_OPS: &[u8] = &[48, 60, 61, 63];

struct PG<'r> {
    r: &'r mut Rng,
    /// include operators beyond the classic set
    newer: bool,
    guards: bool,
    crypto: bool,
    unknown: bool,
}

impl PG<'_> {
    fn value(&mut self) -> Value {
        match self.r.below(10) {
            0 => rand_tree(self.r, 5, 6, 20),
            1 => int_atom(self.r.range(-300, 300)),
            2 if self.r.chance(1, 4) => atom_json(*self.r.pick(&[&[0u8][..], &[0, 0][..], &[0xff, 0xff][..], &[0, 0, 1][..]])),
            2 => int_atom(self.r.range(0, 40)),
            3 => {
                let bits = self.r.below(40) as u32;
                let v: i64 = if bits == 0 { 0 } else { ((1u64 << (bits - 1)) | (self.r.next() & ((1u64 << (bits - 1)) - 1))) as i64 };
                int_atom(if self.r.chance(1, 6) { -v } else { v })
            }
            _ => atom_json(&rand_atom_bytes(self.r, 10)),
        }
    }

    fn path(&mut self) -> Value {
        match self.r.below(12) {
            0 => atom_json(&[0, self.r.below(8) as u8 + 1]),       // leading zero byte
            1 => atom_json(&[0]),
            2 => atom_json(&[]),
            3 => atom_json(&[self.r.below(256) as u8, self.r.below(256) as u8]),
            _ => atom_json(&[self.r.below(16) as u8 + 1]),
        }
    }

    fn expr(&mut self, depth: u32) -> Value {
        if depth == 0 || self.r.chance(1, 4) {
            if self.r.chance(1, 14) {
                // a path of 6..25 steps with an environment built for it (leading-zero surcharge at 7/15/23 steps)
                return self.deep_path();
            }
            return if self.r.chance(2, 3) { q(self.value()) } else { self.path() };
        }
        let c = self.r.below(100);
        if c < 6 {
            // (a (q . prog) env)
            let p = self.expr(depth - 1);
            let e = if self.r.chance(1, 2) { atom_json(&[1]) } else { self.expr(depth - 1) };
            return list_json(&[atom_json(&[2]), q(p), e]);
        }
        if c < 9 {
            // ((X) . args) form and malformed variants
            let x = atom_json(&[*self.r.pick(&[16u8, 4, 5, 9, 2])]);
            let inner = match self.r.below(5) {
                0 => json!({"f": x, "r": atom_json(&[7])}),
                1 => json!({"f": json!({"f": x, "r": atom_json(&[])}), "r": atom_json(&[])}),
                _ => json!({"f": x, "r": atom_json(&[])}),
            };
            let args = list_json(&[self.value(), self.value()]);
            return json!({"f": inner, "r": args});
        }
        if c < 14 && self.guards {
            return self.guard(depth);
        }
        if c < 19 && self.unknown {
            let len = *self.r.pick(&[1usize, 2, 2, 3, 5, 6]);
            let mut op = self.r.bytes(len);
            if len == 1 {
                op[0] = *self.r.pick(&[15u8, 28, 31, 35, 37, 47, 0x40, 0x80, 0xc1, 0x7f, 0, 62, 63, 64]);
            } else if self.r.chance(1, 6) {
                op[0] = 0xff;
                op[1] = 0xff;
            } else {
                op[0] &= 0x0f;
                if len > 2 {
                    op[1] &= 0x03;
                }
            }
            let n = self.r.below(4) as usize;
            let mut items = vec![atom_json(&op)];
            for _ in 0..n {
                items.push(self.expr(depth - 1));
            }
            return list_json(&items);
        }
        if c < 22 && self.crypto {
            return self.crypto_expr();
        }
        if c < 26 {
            return self.computed_op_expr();
        }
        let op = if self.newer && self.r.chance(1, 6) { *self.r.pick(NEWER_OPS) } else { *self.r.pick(CLASSIC_OPS) };
        let arity = match op {
            3 => 3,
            5 | 6 | 7 | 13 | 27 | 32 | 63 => 1,
            4 | 9 | 10 | 19 | 20 | 21 | 22 | 23 | 61 => 2,
            12 => *self.r.pick(&[2usize, 3]),
            48 | 60 => 3,
            8 => self.r.below(3) as usize,
            _ => self.r.below(4) as usize,
        };
        let arity = if self.r.chance(1, 15) { (arity + 1) % 5 } else { arity };
        let mut items = vec![atom_json(&[op])];
        for i in 0..arity {
            let it = match (op, i) {
                (22 | 23, 1) => q(int_atom(if self.r.chance(1, 2) { *self.r.pick(&[7i64, 8, 15, 16, 23, 24, 1, -1, -7, -8, 9]) } else { self.r.range(-40, 40) })),
                (22 | 23, 0) if self.r.chance(1, 2) => {
                    let k = self.r.below(33) as u32;
                    let v: i64 = 1i64 << k;
                    q(int_atom(match self.r.below(4) { 0 => -v, 1 => v - 1, 2 => -(v - 1) - 2, _ => v }))
                }
                (12, 1) | (12, 2) => q(int_atom(self.r.range(-1, 8))),
                (5 | 6, 0) if self.r.chance(1, 2) => q(rand_tree(self.r, 7, 4, 10)),
                _ => self.expr(depth - 1),
            };
            items.push(it);
        }
        let mut t = list_json(&items);
        if self.r.chance(1, 40) {
            // improper operand list
            t = json!({"f": items[0].clone(), "r": atom_json(&[5])});
        }
        t
    }

    fn deep_path(&mut self) -> Value {
        let bits = *self.r.pick(&[6u32, 7, 8, 14, 15, 16, 22, 23, 24, 25]);
        let v: u32 = (1 << bits) | (self.r.next() as u32 & ((1 << bits) - 1));
        let b = v.to_be_bytes();
        let skip = b.iter().take_while(|x| **x == 0).count();
        let mut p = b[skip..].to_vec();
        if p[0] & 0x80 != 0 || self.r.chance(1, 8) {
            p.insert(0, 0);
        }
        let steps = if self.r.chance(1, 10) { bits - 1 } else { bits };
        let mut env = atom_json(&[0x2a, 0x2b]);
        for k in (0..steps).rev() {
            let other = atom_json(&[(k % 200) as u8 + 1]);
            env = if (v >> k) & 1 == 1 { json!({"f": other, "r": env}) } else { json!({"f": env, "r": other}) };
        }
        list_json(&[atom_json(&[2]), q(atom_json(&p)), q(env)])
    }

    /// programs aimed at the fast paths (C05): all-small add/sub at the u64/i64 edges, (sha256 1 n),
    /// small >, inline path lookups at bit 7/15/23, multiply with mixed representations
    /// integer operators on SPELLINGS: the same small values written minimally and with redundant sign bytes, the units
    /// 0 / 1 / -1 in every spelling, next to ordinary small integers (paths that special-case an operand's value or
    /// representation must not change cost or result)
    fn unit_expr(&mut self) -> Value {
        let spell = |r: &mut Rng| -> Value {
            match r.below(14) {
                0 => atom_json(&[]),
                1 => atom_json(&[0]),
                2 => atom_json(&[0, 0]),
                3 => atom_json(&[1]),
                4 => atom_json(&[0, 1]),
                5 => atom_json(&[0xff]),
                6 => atom_json(&[0xff, 0xff]),
                7 => { let v = r.below(128) as u8; atom_json(&[0, v]) }
                8 => { let v = r.below(128) as u8; atom_json(&[0, 0, v]) }
                9 => { let v = 0x80 | r.below(128) as u8; atom_json(&[0xff, v]) }
                10 => atom_json(&[0xff, 0xff, 0xfe]),
                11 => { let n = 1 + r.below(4) as usize; let mut b = r.bytes(n); b.insert(0, 0); b[1] &= 0x7f; atom_json(&b) }
                _ => int_atom(r.range(-300, 300)),
            }
        };
        let op = *self.r.pick(&[18u8, 18, 16, 17, 21, 21, 24, 25, 26, 19, 20, 61, 22, 23, 9, 10]);
        let n = match op { 21 | 19 | 20 | 61 | 22 | 23 | 9 | 10 => 2, _ => 2 + self.r.below(4) as usize };
        let mut items = vec![atom_json(&[op])];
        for _ in 0..n {
            items.push(q(spell(self.r)));
        }
        list_json(&items)
    }

    fn fast_expr(&mut self, depth: u32) -> Value {
        let big = |r: &mut Rng| -> Value {
            // 26-bit values (inline) near the top, so sums overflow u64/i64 only with many terms; plus 8-byte edge values
            match r.below(9) {
                6..=8 => {
                    // bit length uniform in 0..=26: every limb boundary of small operands
                    let bits = r.below(27) as u32;
                    let v: i64 = if bits == 0 { 0 } else { ((1u64 << (bits - 1)) | (r.next() & ((1u64 << (bits - 1)) - 1))) as i64 };
                    int_atom(match r.below(4) { 0 if bits > 0 => (1i64 << bits) - 1, _ => v })
                }
                0 => int_atom(0x3ff_ffff - r.range(0, 2)),
                1 => int_atom(r.range(0, 300)),
                2 => atom_json(&[0x7f, 0xff, 0xff, 0xff, 0xff, 0xff, 0xff, 0xff - r.below(2) as u8]),
                3 => atom_json(&[0x00, 0xff, 0xff, 0xff, 0xff, 0xff, 0xff, 0xff, 0xff - r.below(2) as u8]),
                4 => int_atom(-(r.range(0, 300))),
                _ => int_atom(r.range(0, 0x3ff_ffff)),
            }
        };
        match self.r.below(8) {
            0 | 1 => {
                let op = *self.r.pick(&[16u8, 17]);
                let n = 1 + self.r.below(6) as usize;
                let mut items = vec![atom_json(&[op])];
                for _ in 0..n {
                    let v = big(self.r);
                    items.push(if depth > 0 && self.r.chance(1, 5) { self.fast_expr(depth - 1) } else { q(v) });
                }
                list_json(&items)
            }
            2 => {
                let n = self.r.range(0, 40);
                list_json(&[atom_json(&[11]), q(int_atom(1)), q(if self.r.chance(1, 6) { atom_json(&[0, n as u8]) } else { int_atom(n) })])
            }
            3 => list_json(&[atom_json(&[21]), q(big(self.r)), q(big(self.r))]),
            4 => {
                // path lookups with 6..26 steps into an environment BUILT FOR THE PATH (so the lookup succeeds):
                // (a (q . PATH) (q . ENV)); canonical paths of 7/15/23 steps need a leading zero byte
                let bits = *self.r.pick(&[6u32, 7, 8, 14, 15, 16, 22, 23, 24, 25]);
                let v: u32 = (1 << bits) | (self.r.next() as u32 & ((1 << bits) - 1));
                let b = v.to_be_bytes();
                let skip = b.iter().take_while(|x| **x == 0).count();
                let mut p = b[skip..].to_vec();
                if p[0] & 0x80 != 0 || self.r.chance(1, 8) {
                    p.insert(0, 0);
                }
                // environment: follow the bits from the least significant one; the last step may end one short (PathIntoAtom)
                let short = self.r.chance(1, 10);
                let mut env = atom_json(&[0x2a, 0x2b]);
                let steps = if short { bits - 1 } else { bits };
                for k in (0..steps).rev() {
                    let other = atom_json(&[(k % 200) as u8 + 1]);
                    env = if (v >> k) & 1 == 1 { json!({"f": other, "r": env}) } else { json!({"f": env, "r": other}) };
                }
                list_json(&[atom_json(&[2]), q(atom_json(&p)), q(env)])
            }
            5 => {
                let n = 2 + self.r.below(3) as usize;
                let mut items = vec![atom_json(&[18])];
                for _ in 0..n {
                    items.push(q(big(self.r)));
                }
                list_json(&items)
            }
            _ => self.expr(depth.min(2)),
        }
    }

    /// programs aimed at heap reclamation (C04): a GC-candidate operator whose argument evaluation allocates
    /// more than the 1024-byte saving threshold and whose RESULT is, in turn, a value that existed before
    /// (NoReplace), a substring view of old bytes (AfterOldBytes), a new atom of <= 48 / 49+ bytes (clone /
    /// abort), a pair (abort), nil; nested candidates; candidates inside guards and failing afterwards.
    /// The environment is expected to be (A B C . rest) with heap atoms A (43 bytes), B (60 bytes), C small.
    fn gc_expr(&mut self, depth: u32) -> Value {
        let path_a = atom_json(&[2]);
        let path_b = atom_json(&[5]);
        // something that allocates a lot: concat of many copies, or a long cons chain
        let big = |s: &mut Self| -> Value {
            let n = 20 + s.r.below(30) as usize;
            match s.r.below(3) {
                0 => {
                    let mut items = vec![atom_json(&[14])];
                    for _ in 0..n {
                        items.push(if s.r.chance(1, 2) { path_a.clone() } else { path_b.clone() });
                    }
                    list_json(&items)
                }
                1 => {
                    // (c x (c x (c x ... ()))) : many pairs
                    let mut t = q(atom_json(&[]));
                    for _ in 0..(n * 4) {
                        t = list_json(&[atom_json(&[4]), atom_json(&[2]), t]);
                    }
                    t
                }
                _ => {
                    // many new atoms: (+ (q . big) i) ...
                    let mut items = vec![atom_json(&[4])];
                    let mut t = q(atom_json(&[]));
                    for i in 0..(n * 3) {
                        t = list_json(&[atom_json(&[4]), list_json(&[atom_json(&[16]), q(atom_json(&[0x10, 0, 0, 0, 0, i as u8])), q(int_atom(i as i64))]), t]);
                    }
                    items.clear();
                    t
                }
            }
        };
        let result = |s: &mut Self| -> Value {
            match s.r.below(14) {
                // concat whose FIRST term is the most recently allocated heap atom of the environment (path 5), evaluated
                // before the garbage (body shape 1): a result that begins in bytes older than the candidate's checkpoint
                12 => {
                    let n = *s.r.pick(&[1usize, 5, 30, 1100]);
                    list_json(&[atom_json(&[14]), path_b.clone(), q(atom_json(&s.r.bytes(n)))])
                }
                13 => list_json(&[atom_json(&[14]), path_b.clone(), path_a.clone()]),
                // heap-backed atoms whose CONTENT is a small integer (only concat of >= 2 terms / substr of fresh bytes make them)
                9 => list_json(&[atom_json(&[14]), q(atom_json(&[0x12])), q(atom_json(&[s.r.below(256) as u8]))]),
                10 => list_json(&[atom_json(&[12]), list_json(&[atom_json(&[14]), path_a.clone(), q(atom_json(&[0x05, 0x7f]))]), q(int_atom(43)), q(int_atom(44 + s.r.below(2) as i64))]),
                11 => list_json(&[atom_json(&[14]), q(atom_json(&[0x03])), q(atom_json(&[0xff, 0xff])), q(atom_json(&[0xff]))]),
                0 => list_json(&[atom_json(&[12]), path_a.clone(), q(int_atom(s.r.range(0, 20))), q(int_atom(s.r.range(20, 43)))]), // substr of old bytes
                1 => list_json(&[atom_json(&[12]), path_b.clone(), q(int_atom(s.r.range(0, 4)))]),
                2 => path_a.clone(),                                                     // existed before
                3 => list_json(&[atom_json(&[11]), path_a.clone()]),                     // new 32-byte atom (clonable)
                4 => list_json(&[atom_json(&[14]), path_a.clone(), q(atom_json(&s.r.bytes(5)))]),   // 48 bytes
                5 => list_json(&[atom_json(&[14]), path_a.clone(), q(atom_json(&s.r.bytes(6)))]),   // 49 bytes
                6 => list_json(&[atom_json(&[4]), path_a.clone(), path_b.clone()]),      // a pair
                7 => q(atom_json(&[])),
                _ => list_json(&[atom_json(&[16]), q(int_atom(s.r.range(0, 1000))), q(int_atom(1))]),
            }
        };
        // (a (q . (f (c RESULT BIG))) 1)  -- `a` is a GC candidate; its body builds BIG and returns RESULT
        let b = big(self);
        let r = result(self);
        let body = match self.r.below(3) {
            0 => list_json(&[atom_json(&[5]), list_json(&[atom_json(&[4]), r, b])]),
            1 => list_json(&[atom_json(&[6]), list_json(&[atom_json(&[4]), b, r])]),
            _ => list_json(&[atom_json(&[3]), list_json(&[atom_json(&[7]), b]), r, q(atom_json(&[]))]),
        };
        let inner = list_json(&[atom_json(&[2]), q(body), atom_json(&[1])]);
        match self.r.below(6) {
            0 if depth > 0 => {
                // use the result again outside, with another candidate around
                let other = self.gc_expr(depth - 1);
                list_json(&[atom_json(&[4]), inner, other])
            }
            1 => list_json(&[atom_json(&[13]), inner]),      // strlen of the (possibly replaced) result
            2 => list_json(&[atom_json(&[8]), inner]),       // fail afterwards
            _ => inner,
        }
    }

    /// (a (c OPEXPR (q . ARGS)) ENV): the operator atom is COMPUTED at run time, so it may be stored as heap
    /// bytes (substr of a longer atom), as the same inline node (one-node concat) or as a small integer (+)
    fn computed_op_expr(&mut self) -> Value {
        let op = *self.r.pick(&[16u8, 17, 13, 4, 9, 11, 14, 18, 3, 5, 32, 1, 2]);
        let opexpr = match self.r.below(5) {
            0 => list_json(&[atom_json(&[12]), q(atom_json(&[0x00, op])), q(int_atom(1))]),
            1 => list_json(&[atom_json(&[12]), q(atom_json(&[0xaa, op, 0xbb])), q(int_atom(1)), q(int_atom(2))]),
            2 => list_json(&[atom_json(&[14]), q(atom_json(&[op]))]),
            3 => list_json(&[atom_json(&[16]), q(int_atom(op as i64 - 1)), q(int_atom(1))]),
            _ => list_json(&[atom_json(&[14]), q(atom_json(&[])), q(atom_json(&[op])), q(atom_json(&[]))]),
        };
        let n = self.r.below(4) as usize;
        let mut args = vec![];
        for _ in 0..n {
            args.push(q(self.value()));
        }
        let built = list_json(&[atom_json(&[4]), opexpr, q(list_json(&args))]);
        list_json(&[atom_json(&[2]), built, if self.r.chance(1, 2) { atom_json(&[1]) } else { q(self.value()) }])
    }

    /// constructs whose outcome depends on a restriction flag (C07)
    fn restrict_expr(&mut self, depth: u32) -> Value {
        match self.r.below(10) {
            8 => {
                // g1_multiply / g2_multiply with a scalar around the LIMITS size (1024 bytes)
                let n = *self.r.pick(&[1024usize, 1025, 1025, 1100]);
                let mut sc = self.r.bytes(n);
                sc[0] &= 0x7f;
                if self.r.chance(1, 3) {
                    // 1025 bytes whose first byte is a sign byte (the magnitude is 1024 bytes)
                    sc = vec![0xffu8; 1025];
                    sc[0] = 0;
                }
                if self.r.chance(1, 2) {
                    let g1 = hex::decode("97f1d3a73197d7942695638c4fa9ac0fc3688c4f9774b905a14e3a3f171bac586c55e83ff97a1aeffb3af00adb22c6bb").unwrap();
                    list_json(&[atom_json(&[50]), q(atom_json(&g1)), q(atom_json(&sc))])
                } else {
                    let g2 = hex::decode("93e02b6052719f607dacd3a088274f65596bd0d09920b61ab5da61bbdc7f5049334cf11213945d57e5ac7d055d042b7e024aa2b2f08f0a91260805272dc51051c6e47ad4fa403b02b4510b647ae3d1770bac0326a805bbefd48056c8c121bdb8").unwrap();
                    list_json(&[atom_json(&[54]), q(atom_json(&g2)), q(atom_json(&sc))])
                }
            }
            0 => {
                let en = 1 + self.r.below(2) as usize;
                let e = self.r.bytes(en);
                let mut e2 = e.clone();
                e2[0] &= 0x7f;
                let mn = 1 + self.r.below(4) as usize;
                let mut m = self.r.bytes(mn);
                if self.r.chance(1, 6) {
                    // zero, spelled in every way
                    m = self.r.pick(&[&[][..], &[0u8][..], &[0, 0][..], &[0, 0, 0][..]]).to_vec();
                }
                list_json(&[atom_json(&[60]), q(self.value()), q(atom_json(&e2)), q(atom_json(&m))])
            }
            1 => {
                // division with an operand above the DISABLE_OP / LIMITS sizes
                let n = *self.r.pick(&[257usize, 1025, 2049]);
                let mut big = self.r.bytes(n);
                big[0] &= 0x7f;
                let op = *self.r.pick(&[19u8, 20, 61]);
                if self.r.chance(1, 2) {
                    list_json(&[atom_json(&[op]), q(atom_json(&big)), q(int_atom(self.r.range(1, 300)))])
                } else {
                    list_json(&[atom_json(&[op]), q(int_atom(self.r.range(1, 300))), q(atom_json(&big))])
                }
            }
            2 => {
                // multiply around the LIMITS sizes: 256/257-byte operands (also 257 bytes = 0x00 + 256 bytes with the
                // top bit set, whose MAGNITUDE is 256 bytes), products crossing 1024 bytes with a small last factor
                let n = *self.r.pick(&[256usize, 257]);
                let mut big = self.r.bytes(n);
                big[0] &= 0x7f;
                if n == 257 && self.r.chance(1, 2) {
                    big[0] = 0;
                    big[1] |= 0x80;
                }
                if self.r.chance(1, 3) {
                    let mut a256 = vec![0xffu8; 256];
                    a256[0] = 0x7f;
                    let k = 4 + self.r.below(2) as usize;
                    let mut items = vec![atom_json(&[18])];
                    for _ in 0..k {
                        items.push(q(atom_json(&a256)));
                    }
                    items.push(q(int_atom(*self.r.pick(&[0x7fffi64, 2, 0, 1, 300]))));
                    if self.r.chance(1, 2) {
                        items.push(q(int_atom(self.r.range(0, 3))));
                    }
                    list_json(&items)
                } else {
                    list_json(&[atom_json(&[18]), q(atom_json(&big)), q(int_atom(self.r.range(-3, 300)))])
                }
            }
            3 => {
                // unknown operator with well-formed arguments
                let op = *self.r.pick(&[&[15u8][..], &[0x40], &[0x01, 0x00], &[0x00, 0x3f, 0xc0], &[64], &[62]]);
                list_json(&[atom_json(op), q(self.value()), q(atom_json(&self.r.bytes(3)))])
            }
            4 => {
                // a guard whose declared cost / extension is written with a leading zero (CANONICAL_INTS)
                self.guard(depth.min(1))
            }
            5 => {
                // 48 bytes that are not a valid G1 point but have the compressed-point flag bits (RELAXED_BLS)
                let mut b = self.r.bytes(48);
                b[0] = (b[0] & 0x1f) | *self.r.pick(&[0x80u8, 0xa0]);
                list_json(&[atom_json(&[51]), q(atom_json(&b))])
            }
            6 => {
                let mut b = self.r.bytes(96);
                b[0] = (b[0] & 0x1f) | *self.r.pick(&[0x80u8, 0xa0]);
                list_json(&[atom_json(&[55]), q(atom_json(&b))])
            }
            7 => {
                // nested guards up to beyond the LIMIT_SOFTFORK depth
                let levels = *self.r.pick(&[3usize, 19, 20, 21]);
                let mut inner = q(self.value());
                for _ in 0..levels {
                    let marker = atom_json(&[0x7f; 7]);
                    inner = list_json(&[atom_json(&[36]), q(marker), q(int_atom(0)), q(inner), q(atom_json(&[]))]);
                }
                inner
            }
            _ => self.expr(depth),
        }
    }

    /// operators that allocate, with operands sized so that an allocator pre-loaded near a cap trips (C13)
    fn alloc_expr(&mut self) -> Value {
        let x = |s: &mut Self| -> Value {
            let n = s.r.below(24) as usize;
            q(atom_json(&s.r.bytes(n)))
        };
        match self.r.below(10) {
            0 => list_json(&[atom_json(&[14]), x(self)]),
            1 => list_json(&[atom_json(&[14]), q(atom_json(&[])), x(self), q(atom_json(&[]))]),
            2 => list_json(&[atom_json(&[14]), x(self), x(self)]),
            3 => list_json(&[atom_json(&[14])]),
            4 => list_json(&[atom_json(&[12]), x(self), q(int_atom(self.r.range(0, 3)))]),
            5 => list_json(&[atom_json(&[11]), x(self)]),
            6 => list_json(&[atom_json(&[4]), x(self), x(self)]),
            7 => list_json(&[atom_json(&[13]), x(self)]),
            8 => list_json(&[atom_json(&[20]), q(int_atom(self.r.range(-500, 500))), q(int_atom(self.r.range(1, 40)))]),
            _ => list_json(&[atom_json(&[16]), x(self), x(self)]),
        }
    }

    fn crypto_expr(&mut self) -> Value {
        let g1 = hex::decode("97f1d3a73197d7942695638c4fa9ac0fc3688c4f9774b905a14e3a3f171bac586c55e83ff97a1aeffb3af00adb22c6bb").unwrap();
        match self.r.below(6) {
            0 => list_json(&[atom_json(&[30]), q(int_atom(self.r.range(-5, 50)))]),
            1 => list_json(&[atom_json(&[29]), q(atom_json(&g1)), list_json(&[atom_json(&[30]), q(int_atom(self.r.range(1, 9)))])]),
            2 => list_json(&[atom_json(&[51]), q(atom_json(&g1))]),
            3 => list_json(&[atom_json(&[62]), q(atom_json(&self.r.bytes(5)))]),
            4 => list_json(&[atom_json(&[56]), q(atom_json(&self.r.bytes(3)))]),
            _ => list_json(&[atom_json(&[50]), q(atom_json(&g1)), q(int_atom(self.r.range(-3, 300)))]),
        }
    }

    /// (softfork (q . cost) (q . ext) (q . prog) (q . env)); the declared cost is fixed up by the caller
    fn guard(&mut self, depth: u32) -> Value {
        let inner = if self.r.chance(1, 3) && depth > 1 {
            self.guard(depth - 1)
        } else if self.crypto && self.r.chance(1, 6) {
            // an operator whose meaning depends on the extension / on the flags: keccak256 (62) is an operator inside
            // some guards and an unknown operator elsewhere
            let n = self.r.below(40) as usize;
            let k = list_json(&[atom_json(&[62]), q(atom_json(&self.r.bytes(n)))]);
            if self.r.chance(1, 2) { k } else { list_json(&[atom_json(&[4]), k, q(self.value())]) }
        } else {
            self.expr(depth.min(2))
        };
        let ext = match self.r.below(8) {
            0 => int_atom(2),
            1 => atom_json(&[0, 1]),
            2 => int_atom(1),
            3 => atom_json(&[1, 0, 0, 0, 0]),
            _ => int_atom(self.r.below(2) as i64),
        };
        let env = self.value();
        let marker = atom_json(&[0x7f, 0x7f, 0x7f, 0x7f, 0x7f, 0x7f, 0x7f]); // replaced by fix_guards
        let mut items = vec![atom_json(&[36]), q(marker), q(ext), q(inner), q(env)];
        if self.r.chance(1, 12) {
            items.pop();
        }
        list_json(&items)
    }
}

/// replace the declared-cost markers of guards, innermost first, by the true cost (or a perturbed one)
fn fix_guards(r: &mut Rng, prog: &Value, fl: u32) -> Value {
    fn is_marker(v: &Value) -> bool {
        v.get("a").map(|b| json_bytes(b) == [0x7f; 7]).unwrap_or(false)
    }
    fn rec(r: &mut Rng, v: &Value, fl: u32) -> Value {
        if v.get("a").is_some() {
            return v.clone();
        }
        let f = rec(r, &v["f"], fl);
        let rr = rec(r, &v["r"], fl);
        let node = json!({"f": f, "r": rr});
        // (36 (q . marker) (q . ext) (q . prog) (q . env))
        let items = list_items(&node);
        if items.len() >= 4 && items[0].get("a").map(|b| json_bytes(b) == [36]).unwrap_or(false)
            && items[1].get("f").is_some() && is_marker(&items[1]["r"])
        {
            let ext_atom = items[2].get("r").cloned().unwrap_or(atom_json(&[]));
            let ext_bytes = ext_atom.get("a").map(json_bytes).unwrap_or_default();
            let prog = items[3].get("r").cloned().unwrap_or(atom_json(&[]));
            let env = items.get(4).and_then(|e| e.get("r").cloned()).unwrap_or(atom_json(&[]));
            // probe: cost of the guarded program on its own
            let inner_flags = fl | if ext_bytes == [1] || fl & 0x2000 != 0 { 0x0100 } else { 0 };
            let c = {
                let mut a = Allocator::new();
                let p = json_tree(&mut a, &prog).unwrap();
                let e = json_tree(&mut a, &env).unwrap();
                let d = ChiaDialect::new(flags(inner_flags & !0x0020));
                match catch(|| run_program(&mut a, &d, p, e, 0)) {
                    Ok(Ok(Reduction(c, _))) => c,
                    _ => r.below(5000) + 1,
                }
            };
            let guard_cost = if fl & 0x2000 != 0 { 500 } else { 140 };
            let declared = match r.below(12) {
                0 => c.saturating_add(guard_cost + 1),
                1 => c.saturating_add(guard_cost).saturating_sub(1),
                2 => 0,
                3 => u64::MAX >> r.below(20),
                4 => c.saturating_add(guard_cost + 2 + r.below(60)),
                _ => c.saturating_add(guard_cost),
            };
            let mut b = declared.to_be_bytes().to_vec();
            while !b.is_empty() && b[0] == 0 {
                b.remove(0);
            }
            if !b.is_empty() && b[0] & 0x80 != 0 {
                b.insert(0, 0);
            }
            if r.chance(1, 15) {
                b.insert(0, 0); // non-canonical declared cost
            }
            let mut new_items = items.clone();
            new_items[1] = q(atom_json(&b));
            return list_json(&new_items);
        }
        node
    }
    rec(r, prog, fl)
}

fn list_items(v: &Value) -> Vec<Value> {
    let mut out = vec![];
    let mut t = v;
    while t.get("f").is_some() {
        out.push(t["f"].clone());
        t = &t["r"];
    }
    out
}

fn fuzz_program(r: &mut Rng) -> Option<(Value, Value)> {
    let n = 200 + r.below(600) as usize;
    let data = r.bytes(n);
    let mut u = arbitrary::Unstructured::new(&data);
    let mut a = Allocator::new();
    let (env, _) = make_tree_limits(&mut a, &mut u, 30, true).ok()?;
    let prog = make_clvm_program(&mut a, &mut u, env, 60).ok()?;
    let pj = unflatten_tree(&tree_json(&a, prog));
    let ej = unflatten_tree(&tree_json(&a, env));
    if tree_size(&pj) > 400 || tree_size(&ej) > 200 || tree_max_atom(&pj) > 200 || tree_max_atom(&ej) > 200 {
        return None;
    }
    Some((pj, ej))
}

fn corpus_programs(repo: &str) -> Vec<(String, String, u32)> {
    // the RunProgramTest table of src/run_program.rs: prg / args / flags
    let text = std::fs::read_to_string(format!("{repo}/src/run_program.rs")).unwrap_or_default();
    let mut out = vec![];
    let mut prg: Option<String> = None;
    let mut args: Option<String> = None;
    for line in text.lines() {
        let t = line.trim();
        if let Some(rest) = t.strip_prefix("prg: \"") {
            prg = rest.rfind('"').map(|i| rest[..i].to_string());
        } else if let Some(rest) = t.strip_prefix("args: \"") {
            args = rest.rfind('"').map(|i| rest[..i].to_string());
        } else if let Some(rest) = t.strip_prefix("flags: ") {
            if let (Some(p), Some(a)) = (prg.take(), args.take()) {
                let mut fl = 0u32;
                for (n, b) in FLAG_NAMES {
                    if rest.contains(n) {
                        fl |= b;
                    }
                }
                out.push((p, a, fl));
            }
        }
    }
    out
}

// minimal s-expression reader for the corpus programs (same notation as op-tests)
fn sexp(v: &str) -> Option<Value> {
    fn tok(s: &str) -> (&str, &str) {
        let s = s.trim_start();
        if s.starts_with('(') || s.starts_with(')') {
            return s.split_at(1);
        }
        if let Some(st) = s.strip_prefix('"') {
            let q = st.find('"').unwrap_or(st.len() - 1);
            return s.split_at(q + 2);
        }
        let pos = s.find(|c: char| c == ' ' || c == ')' || c == '(').unwrap_or(s.len());
        s.split_at(pos)
    }
    fn atom(t: &str) -> Option<Value> {
        if t == "0" || t == "()" {
            return Some(atom_json(&[]));
        }
        if let Some(h) = t.strip_prefix("0x") {
            return hex::decode(h).ok().map(|b| atom_json(&b));
        }
        if t.starts_with('"') {
            return Some(atom_json(t.trim_matches('"').as_bytes()));
        }
        if let Ok(v) = t.parse::<i64>() {
            return Some(int_atom(v));
        }
        let names: &[(&str, u8)] = &[("q", 1), ("a", 2), ("i", 3), ("c", 4), ("f", 5), ("r", 6), ("l", 7), ("x", 8),
            ("=", 9), (">s", 10), ("sha256", 11), ("substr", 12), ("strlen", 13), ("concat", 14), ("+", 16),
            ("-", 17), ("*", 18), ("/", 19), ("divmod", 20), (">", 21), ("ash", 22), ("lsh", 23), ("logand", 24),
            ("logior", 25), ("logxor", 26), ("lognot", 27), ("point_add", 29), ("pubkey_for_exp", 30), ("not", 32),
            ("any", 33), ("all", 34), ("softfork", 36), ("coinid", 48), ("g1_subtract", 49), ("g1_multiply", 50),
            ("g1_negate", 51), ("g2_add", 52), ("g2_subtract", 53), ("g2_multiply", 54), ("g2_negate", 55),
            ("g1_map", 56), ("g2_map", 57), ("bls_pairing_identity", 58), ("bls_verify", 59), ("modpow", 60),
            ("%", 61), ("keccak256", 62), ("sha256tree", 63)];
        names.iter().find(|(n, _)| *n == t).map(|(_, b)| atom_json(&[*b]))
    }
    fn list(s: &str) -> Option<(Value, &str)> {
        let (t, rest) = tok(s);
        if t.is_empty() {
            return None;
        }
        if t == ")" {
            return Some((atom_json(&[]), rest));
        }
        if t == "." {
            let (v, r1) = exp(rest)?;
            let (c, r2) = tok(r1);
            if c != ")" {
                return None;
            }
            return Some((v, r2));
        }
        let (head, r1) = if t == "(" { list(rest)? } else { (atom(t)?, rest) };
        let (tail, r2) = list(r1)?;
        Some((json!({"f": head, "r": tail}), r2))
    }
    fn exp(s: &str) -> Option<(Value, &str)> {
        let (t, rest) = tok(s);
        if t == "(" {
            list(rest)
        } else {
            atom(t).map(|a| (a, rest))
        }
    }
    exp(v).map(|(v, _)| v)
}

// the ChiaLisp sha256tree of tools/src/bin/sha256tree-benching.rs:
// (a (q 2 2 (c 2 (c 3 0))) (c (q 2 (i (l 5) (q 11 (q . 2) (a 2 (c 2 (c 9 0))) (a 2 (c 2 (c 13 0)))) (q 11 (q . 1) 5)) 1) 1))
const CHIALISP_SHATREE: &str = "(a (q 2 2 (c 2 (c 3 0))) (c (q 2 (i (l 5) (q 11 (q . 2) (a 2 (c 2 (c 9 0))) (a 2 (c 2 (c 13 0)))) (q 11 (q . 1) 5)) 1) 1))";

// ---------------------------------------------------------------------------
// replay: cases emitted by the bounded model (spec/MCInterp.tla) run through the real run_program
//   {"prog":T,"env":T,"flags":[names],"dialect":"chia|unaware|runtime","budget":[LE digits],
//    "exp":{"st":"ok","cost":[LE],"val":T,"atoms":n,"pairs":n,"heap":n} | {"st":"err","kind":K}}
// A mismatch line is {"case":<the case>,"obs":<what the implementation did>,"diff":[field names]};
// the last line is {"done":N}.

/// one case on a fresh allocator: the observed outcome in the same shape as `exp`
fn replay_case(c: &Value) -> Value {
    let prog = c["prog"].clone();
    let env = c["env"].clone();
    let bits = json_flags(&c["flags"]);
    let dialect = c["dialect"].as_str().unwrap_or("chia").to_string();
    let budget = le_n(&c["budget"]) as u64;
    let r = catch(move || {
        let mut a = Allocator::new();
        let p = json_tree(&mut a, &prog).expect("program tree");
        let e = json_tree(&mut a, &env).expect("environment tree");
        let fl = flags(bits);
        let result = match dialect.as_str() {
            "chia" => {
                let d = ChiaDialect::new(fl);
                run_program(&mut a, &d, p, e, budget)
            }
            "unaware" => {
                let d = Unaware { inner: ChiaDialect::new(fl) };
                run_program(&mut a, &d, p, e, budget)
            }
            "runtime" => {
                let d = runtime_dialect(bits);
                run_program(&mut a, &d, p, e, budget)
            }
            other => panic!("unknown dialect {other}"),
        };
        match result {
            Ok(Reduction(cost, node)) => json!({"st": "ok", "cost": n_le(cost as u128), "val": unflatten_tree(&tree_json(&a, node)),
                "atoms": a.atom_count(), "pairs": a.pair_count(), "heap": a.heap_size()}),
            Err(e) => json!({"st": "err", "kind": err_kind(&e), "msg": e.to_string()}),
        }
    });
    match r {
        Ok(v) => v,
        Err(p) => json!({"st": "panic", "panic": p}),
    }
}

/// names of the expected fields the observation contradicts (empty = agreement)
fn replay_diff(exp: &Value, obs: &Value) -> Vec<&'static str> {
    let mut d = vec![];
    if exp["st"] != obs["st"] {
        d.push("st");
        return d;
    }
    if exp["st"] == "ok" {
        if le_n(&exp["cost"]) != le_n(&obs["cost"]) {
            d.push("cost");
        }
        if unflatten_tree(&exp["val"]) != unflatten_tree(&obs["val"]) {
            d.push("val");
        }
        for k in ["atoms", "pairs", "heap"] {
            if exp.get(k).is_some() && exp[k].as_u64() != obs[k].as_u64() {
                d.push(k);
            }
        }
    } else if exp["kind"] != obs["kind"] {
        d.push("kind");
    }
    d
}

fn replay_main(args: &[String]) {
    let mut out = Out::create(&arg(args, "--out").unwrap_or("-".into()));
    let f = std::fs::File::open(arg(args, "--in").expect("--in")).expect("open cases");
    let mut n = 0u64;
    for line in std::io::BufRead::lines(std::io::BufReader::new(f)) {
        let line = line.expect("read");
        if line.trim().is_empty() {
            continue;
        }
        let c: Value = serde_json::from_str(&line).expect("json line");
        n += 1;
        let obs = replay_case(&c);
        let diff = replay_diff(&c["exp"], &obs);
        if !diff.is_empty() {
            out.emit(&json!({"case": c, "obs": obs, "diff": diff}));
        }
    }
    out.emit(&json!({"done": n}));
    out.flush();
}

fn main() {
    let args: Vec<String> = std::env::args().collect();
    let cmd = args.get(1).map(|s| s.as_str()).unwrap_or("");
    if cmd == "replay" {
        replay_main(&args);
        return;
    }
    if cmd == "escalate" {
        // run escalate --in programs.ndjson --out trace.ndjson : every given {prog, env, flags} is recorded as the
        // variants of ALL relational profiles, so that TraceRun.tla decides the relations on the observed outcomes
        let mut out = Out::create(&arg(&args, "--out").unwrap_or("-".into()));
        let progs = read_ndjson(&arg(&args, "--in").unwrap());
        let mut line = 0usize;
        let mut r = Rng::new(7);
        for (i, c) in progs.iter().enumerate() {
            let case = i as u64;
            let (prog, env) = (&c["prog"], &c["env"]);
            let f0 = json_flags(&c["flags"]);
            let strict = 0x0002 | 0x0001 | 0x0010 | 0x0200 | 0x0040 | 0x0004;
            let f = f0 & !(0x0020 | 0x0008);
            let base = run_one(&mut out, case, prog, env, &Cfg::new("base", "chia", f, 0), &mut line);
            if base.get("skip").is_some() { continue; }
            let c0 = if base["ok"] == json!(true) { le_n(&base["cost"]) as u64 } else { 1 + r.below(3000) };
            let mut budgets = vec![c0, c0.saturating_sub(1).max(1), c0.saturating_add(1), c0.saturating_mul(2).saturating_add(7), 1];
            budgets.sort();
            budgets.dedup();
            let mut prev_ok: Option<String> = None;
            for (k, m) in budgets.iter().enumerate() {
                let name = format!("b{k}");
                let mut cfg = Cfg::new(&name, "chia", f, *m).rel("budget", "base");
                if let Some(p) = &prev_ok { cfg = cfg.rel("budget_up", p); }
                let e = run_one(&mut out, case, prog, env, &cfg, &mut line);
                if e["ok"] == json!(true) && prev_ok.is_none() { prev_ok = Some(name); }
            }
            run_one(&mut out, case, prog, env, &Cfg::new("gc", "chia", f | 0x0020, 0).rel("eq_full", "base"), &mut line);
            run_one(&mut out, case, prog, env, &Cfg::new("restricted", "chia", f | strict, 0).rel("ok_implies_ok_same", "base"), &mut line);
            run_one(&mut out, case, prog, env, &Cfg::new("relaxed", "chia", f | 0x0008, 0).rel("other_ok_implies_ok_same", "base"), &mut line);
            let fa = f & !(0x2000 | strict);
            run_one(&mut out, case, prog, env, &Cfg::new("aware", "chia", fa, 0), &mut line);
            run_one(&mut out, case, prog, env, &Cfg::new("unaware", "unaware", fa, 0).rel("other_ok_implies_ok_same_counters", "aware"), &mut line);
            run_one(&mut out, case, prog, env, &Cfg::new("old", "chia", f & !0x2000, 0), &mut line);
            run_one(&mut out, case, prog, env, &Cfg::new("new", "chia", f | 0x2000, 0).rel("both_ok_same_val", "old"), &mut line);
            let f30 = f & !0x0200;
            run_one(&mut out, case, prog, env, &Cfg::new("chia", "chia", f30, 0), &mut line);
            run_one(&mut out, case, prog, env, &Cfg::new("runtime", "runtime", f30, 0).rel("eq_outcome_c30", "chia"), &mut line);
        }
        out.flush();
        return;
    }
    if cmd != "record" {
        eprintln!("usage: run record --profile P --seed S --n N --out F | run replay --in cases.ndjson --out mism.ndjson");
        std::process::exit(2);
    }
    let mut out = Out::create(&arg(&args, "--out").unwrap_or("-".into()));
    let profile = arg(&args, "--profile").unwrap_or("C01".into());
    let seed = arg_u64(&args, "--seed", 1);
    let n = arg_u64(&args, "--n", 200);
    let repo = arg(&args, "--repo").unwrap_or("/repo".into());
    let mut r = Rng::new(seed ^ 0x5151);
    let mut line = 0usize;
    let use_corpus = arg_u64(&args, "--corpus", 0) != 0;
    let heavy = arg_u64(&args, "--heavy", 0) != 0;
    let corpus: Vec<(Value, Value, u32)> = if !use_corpus { vec![] } else { corpus_programs(&repo)
        .into_iter()
        .filter_map(|(p, a, f)| Some((sexp(&p)?, sexp(&a)?, f)))
        .filter(|(p, e, f)| {
            // quick tier: leave out corpus programs that take very many machine steps (probe their cost)
            if heavy {
                return true;
            }
            let mut a = Allocator::new();
            let pn = json_tree(&mut a, p).unwrap();
            let en = json_tree(&mut a, e).unwrap();
            let d = ChiaDialect::new(flags(*f));
            match catch(|| run_program(&mut a, &d, pn, en, 0)) {
                Ok(Ok(Reduction(c, _))) => c < 300_000 || tree_size(p) < 25,
                _ => true,
            }
        })
        .collect() };
    let restrict = [0x0002u32, 0x0001, 0x0200, 0x0010, 0x0040, 0x0004];
    // valid (pubkey, digest, signature) triples from the repository's op-tests
    let mut secp: Vec<([u8; 3], Vec<u8>, Vec<u8>, Vec<u8>)> = vec![];
    for (file, pre) in [("test-secp256k1.txt", [0x13u8, 0xd6, 0x1f]), ("test-secp256r1.txt", [0x1c, 0x3a, 0x8f])] {
        if let Ok(text) = std::fs::read_to_string(format!("{repo}/op-tests/{file}")) {
            for l in text.lines() {
                let t: Vec<&str> = l.split_whitespace().collect();
                if t.len() >= 6 && t[4] == "=>" && t[5] == "0" {
                    let h = |x: &str| hex::decode(x.trim_start_matches("0x")).ok();
                    if let (Some(a), Some(b), Some(c)) = (h(t[1]), h(t[2]), h(t[3])) {
                        if secp.len() < 12 { secp.push((pre, a, b, c)); }
                    }
                }
            }
        }
    }

    for case in 0..n {
        // ---- pick program, environment, base flags
        let mut base_flags: u32 = match profile.as_str() {
            "C01" | "C30x" => 0,
            _ => {
                let mut f = 0u32;
                for (bit, den) in [(0x2000u32, 3u64), (0x0400, 2), (0x0100, 4), (0x0800, 5), (0x0002, 8), (0x0001, 8),
                                   (0x0010, 8), (0x0040, 10), (0x0200, 10), (0x0008, 10), (0x1000, 6), (0x0020, 4)] {
                    if r.chance(1, den) {
                        f |= bit;
                    }
                }
                f
            }
        };
        let (prog, env) = {
            let pick = r.below(100);
            if (case as usize) < corpus.len() && matches!(profile.as_str(), "C01" | "C02" | "C04" | "C11" | "C25") {
                let (p, e, f) = corpus[case as usize].clone();
                if profile != "C01" {
                    base_flags = f;
                }
                if profile == "C01" && f != 0 { continue; }
                (p, e)
            } else if pick < 25 && profile != "C23" {
                match fuzz_program(&mut r) {
                    Some(x) => x,
                    None => continue,
                }
            } else {
                let classic_only = profile == "C01";
                let mut pg = PG { r: &mut r, newer: !classic_only, guards: true, crypto: !classic_only && profile != "C08x" && profile != "STK", unknown: true };
                let depth = 1 + pg.r.below(4) as u32;
                let p = match profile.as_str() {
                    "C01" | "C02" | "C05" | "C11" | "C03" | "STK" if pg.r.chance(1, 6) => pg.unit_expr(),
                    "C05" if pg.r.chance(1, 8) => {
                        // the operand-size restrictions (LIMITS / DISABLE_OP, old cost model) on every build variant
                        if pg.r.chance(2, 3) { base_flags |= 0x0040; }
                        if pg.r.chance(1, 3) { base_flags |= 0x0200; }
                        if pg.r.chance(2, 3) { base_flags &= !0x2000; }
                        pg.restrict_expr(depth)
                    }
                    "C05" => pg.fast_expr(depth),
                    "C04" if pg.r.chance(1, 2) => pg.gc_expr(1),
                    "C07" if pg.r.chance(1, 2) => pg.restrict_expr(depth),
                    "C03" if pg.r.chance(1, 4) => pg.restrict_expr(depth),
                    "C30" if pg.r.chance(1, 4) => pg.restrict_expr(depth),
                    "C25" if pg.r.chance(1, 4) => pg.restrict_expr(depth),
                    "C03" if pg.r.chance(1, 6) => pg.crypto_expr(),
                    "C13" if pg.r.chance(1, 2) => pg.alloc_expr(),
                    "C08" if pg.r.chance(1, 4) && !secp.is_empty() => {
                        // the 4-byte secp opcodes and their aliases (same 3-byte multiplier, other last byte), on a valid triple
                        let (pre, pk, msg, sig) = secp[pg.r.below(secp.len() as u64) as usize].clone();
                        let last = *pg.r.pick(&[0x00u8, 0x00, 0x01, 0x3f, 0x40, 0x80, 0xc0, 0xff]);
                        let mut sig2 = sig.clone();
                        if pg.r.chance(1, 5) { sig2[5] ^= 1; }
                        let call = list_json(&[atom_json(&[pre[0], pre[1], pre[2], last]), q(atom_json(&pk)), q(atom_json(&msg)), q(atom_json(&sig2))]);
                        if pg.r.chance(1, 3) {
                            let marker = atom_json(&[0x7f; 7]);
                            list_json(&[atom_json(&[36]), q(marker), q(int_atom(pg.r.below(2) as i64)), q(call), q(atom_json(&[]))])
                        } else { call }
                    }
                    "C31" if pg.r.chance(1, 6) => {
                        // guard chains at the LIMIT_SOFTFORK boundary: 19, 20, 21, 22 levels
                        let levels = *pg.r.pick(&[19usize, 20, 21, 22]);
                        let mut inner = q(pg.value());
                        for _ in 0..levels {
                            let marker = atom_json(&[0x7f; 7]);
                            inner = list_json(&[atom_json(&[36]), q(marker), q(int_atom(pg.r.below(2) as i64)), q(inner), q(atom_json(&[]))]);
                        }
                        inner
                    }
                    "C02" | "C07" if pg.r.chance(1, 6) => pg.guard(depth),
                    "C31" | "C08" => {
                        let g = pg.guard(depth);
                        match pg.r.below(6) {
                            0 | 1 | 2 => list_json(&[atom_json(&[4]), g, pg.expr(1)]),
                            // the guard underneath an operator that is a GC candidate (a, strlen, +)
                            3 => match pg.r.below(3) {
                                0 => list_json(&[atom_json(&[2]), q(g), atom_json(&[1])]),
                                1 => list_json(&[atom_json(&[13]), g]),
                                _ => list_json(&[atom_json(&[16]), g, q(int_atom(1))]),
                            },
                            _ => g,
                        }
                    }
                    _ => pg.expr(depth),
                };
                let e = if profile == "C04" {
                    let a43 = pg.r.bytes(43);
                    let b60 = pg.r.bytes(60);
                    json!({"f": atom_json(&a43), "r": {"f": atom_json(&b60), "r": {"f": int_atom(7), "r": atom_json(&[])}}})
                } else if profile == "C05" && pg.r.chance(1, 2) {
                    // a right-deep and left-deep environment so long paths resolve
                    let mut t = atom_json(&[0x2a]);
                    for i in 0..26 {
                        t = if i % 2 == 0 { json!({"f": atom_json(&[i as u8 + 1]), "r": t}) } else { json!({"f": t, "r": atom_json(&[i as u8 + 1])}) };
                    }
                    t
                } else if pg.r.chance(1, 3) { rand_tree(pg.r, 12, 8, 20) } else { list_json(&[pg.value(), pg.value(), pg.value()]) };
                (p, e)
            }
        };
        let (prog, env, base_flags) = if profile == "C07" && case == 0 && use_corpus {
            // regression case of known finding F9: a guard with a non-canonical extension argument and a failing program
            (sexp("(softfork (q . 0x089f) (q . 0x0001) (q . (f (q . 7))) (q . 0x9c))").expect("F9 program"), atom_json(&[]), 0u32)
        } else { (prog, env, base_flags) };
        let prog = fix_guards(&mut r, &prog, base_flags);
        if tree_depth(&prog) > 120 || tree_depth(&env) > 120 {
            continue;
        }

        match profile.as_str() {
            // C01: classic operator set, default flags, all budgets
            "C01" => {
                let base = run_one(&mut out, case, &prog, &env, &Cfg::new("base", "chia", 0, 0), &mut line);
                if base["ok"] == json!(true) && r.chance(1, 3) {
                    let c = le_n(&base["cost"]) as u64;
                    let m = *r.pick(&[c, c.saturating_sub(1), c.saturating_add(1), c / 2 + 1]);
                    run_one(&mut out, case, &prog, &env, &Cfg::new("budget", "chia", 0, m.max(1)), &mut line);
                }
            }
            // STK (diag build): stack high-water marks of run_program_with_counters, no property attached
            "STK" => {
                let budget = if r.chance(1, 4) { 1 + r.below(30000) } else { 0 };
                let mut c = Cfg::new("base", "chia", base_flags, budget);
                c.stacks = true;
                run_one(&mut out, case, &prog, &env, &c, &mut line);
            }
            // C02: budgets
            "C02" => {
                let base = run_one(&mut out, case, &prog, &env, &Cfg::new("base", "chia", base_flags, 0), &mut line);
                if base.get("skip").is_some() { continue; }
                let c = if base["ok"] == json!(true) { le_n(&base["cost"]) as u64 } else { 1 + r.below(5000) };
                let mut budgets = vec![c, c.saturating_sub(1).max(1), c.saturating_add(1), c.saturating_mul(2).saturating_add(7), u64::MAX, 1];
                for _ in 0..3 {
                    budgets.push(1 + r.below(c.saturating_add(3).min(u64::MAX - 2)));
                }
                if base["ok"] != json!(true) && r.chance(1, 2) {
                    if let Some(t) = failure_threshold(&prog, &env, base_flags) {
                        budgets.extend([t.saturating_sub(1).max(1), t, t.saturating_add(1)]);
                    }
                }
                // a guard entered at cost E that declares D: every budget in E+1 ..= E+D+3 (a guard must not succeed under
                // one budget and fail under a larger one, whatever it declares)
                if let Some(g) = base["guards_seen"].as_array().and_then(|a| a.first()) {
                    let (e0, d) = (g["cost"].as_u64().unwrap_or(0), g["declared"].as_u64().unwrap_or(0));
                    if d <= 400 && r.chance(1, 2) {
                        for m in e0 + 1..=e0 + d + 3 {
                            budgets.push(m);
                        }
                    }
                }
                budgets.sort();
                budgets.dedup();
                let mut prev_ok: Option<String> = None;
                for (i, m) in budgets.iter().enumerate() {
                    let name = format!("b{i}");
                    let mut cfg = Cfg::new(&name, "chia", base_flags, *m).rel("budget", "base");
                    if let Some(p) = &prev_ok {
                        cfg = cfg.rel("budget_up", p);
                    }
                    let e = run_one(&mut out, case, &prog, &env, &cfg, &mut line);
                    if e["ok"] == json!(true) && prev_ok.is_none() {
                        prev_ok = Some(name);
                    }
                }
            }
            // C03: heap history and atom representation
            "C03" => {
                run_one(&mut out, case, &prog, &env, &Cfg::new("base", "chia", base_flags, 0), &mut line);
                let mut c1 = Cfg::new("history", "chia", base_flags, 0).rel("eq_outcome", "base");
                c1.history = 1 + r.below(1 << 30);
                run_one(&mut out, case, &prog, &env, &c1, &mut line);
                let mut c2 = Cfg::new("concat", "chia", base_flags, 0).rel("eq_outcome", "base");
                c2.encoding = 1;
                run_one(&mut out, case, &prog, &env, &c2, &mut line);
                let mut c3 = Cfg::new("substr", "chia", base_flags, 0).rel("eq_outcome", "base");
                c3.encoding = 2;
                c3.history = if r.chance(1, 2) { 1 + r.below(1 << 30) } else { 0 };
                run_one(&mut out, case, &prog, &env, &c3, &mut line);
            }
            // C04: ENABLE_GC
            "C04" => {
                let f = base_flags & !0x0020;
                let budget = if r.chance(1, 4) { 1 + r.below(20000) } else { 0 };
                run_one(&mut out, case, &prog, &env, &Cfg::new("base", "chia", f, budget), &mut line);
                let gc = run_one(&mut out, case, &prog, &env, &Cfg::new("gc", "chia", f | 0x0020, budget).rel("eq_full", "base"), &mut line);
                // the same pair on allocators close to a cap: reclamation must not change which runs fit
                if gc.get("skip").is_none() && r.chance(1, 2) {
                    let heap_used = gc["heap"].as_u64().unwrap_or(1) as usize;
                    let atoms_used = gc["atoms"].as_u64().unwrap_or(3) as usize;
                    let mut b2 = Cfg::new("base_lim", "chia", f, budget);
                    let mut g2 = Cfg::new("gc_lim", "chia", f | 0x0020, budget).rel("eq_full", "base_lim");
                    if r.chance(2, 3) {
                        let lim = heap_used + r.below(50) as usize;
                        b2.heap_limit = Some(lim);
                        g2.heap_limit = Some(lim);
                    } else {
                        let ghosts = 62_500_000usize.saturating_sub(atoms_used + r.below(3) as usize);
                        b2.ghost_atoms = ghosts;
                        g2.ghost_atoms = ghosts;
                    }
                    run_one(&mut out, case, &prog, &env, &b2, &mut line);
                    run_one(&mut out, case, &prog, &env, &g2, &mut line);
                }
            }
            // C07: restriction flags
            "C07" => {
                let f = base_flags & !(0x0008);
                run_one(&mut out, case, &prog, &env, &Cfg::new("base", "chia", f, 0), &mut line);
                let mut rs = 0u32;
                for b in restrict {
                    if r.chance(1, 3) {
                        rs |= b;
                    }
                }
                if rs == 0 {
                    rs = *r.pick(&restrict);
                }
                if case == 0 && use_corpus {
                    rs = 0x0001;
                }
                run_one(&mut out, case, &prog, &env, &Cfg::new("restricted", "chia", f | rs, 0).rel("ok_implies_ok_same", "base"), &mut line);
                run_one(&mut out, case, &prog, &env, &Cfg::new("mempool", "chia", f | 0x0002 | 0x0004 | 0x0200 | 0x0001 | 0x0010, 0).rel("ok_implies_ok_same", "base"), &mut line);
                run_one(&mut out, case, &prog, &env, &Cfg::new("relaxed", "chia", f | 0x0008, 0).rel("other_ok_implies_ok_same", "base"), &mut line);
            }
            // C08: extension-unaware dialect (consensus mode, old cost model)
            "C08" => {
                let f = base_flags & !(0x2000 | 0x0002 | 0x0001 | 0x0010 | 0x0040 | 0x0200 | 0x0004);
                run_one(&mut out, case, &prog, &env, &Cfg::new("aware", "chia", f, 0), &mut line);
                run_one(&mut out, case, &prog, &env, &Cfg::new("unaware", "unaware", f, 0).rel("other_ok_implies_ok_same_counters", "aware"), &mut line);
            }
            // C11: cost model independence of results
            "C11" => {
                let f = base_flags & !0x2000;
                run_one(&mut out, case, &prog, &env, &Cfg::new("old", "chia", f, 0), &mut line);
                run_one(&mut out, case, &prog, &env, &Cfg::new("new", "chia", f | 0x2000, 0).rel("both_ok_same_val", "old"), &mut line);
            }
            // C25: totality (all flag sets, budgets)
            "C25" => {
                let budget = if r.chance(1, 3) { 1 + r.below(100000) } else { 0 };
                let d = *r.pick(&["chia", "chia", "chia", "unaware", "runtime"]);
                run_one(&mut out, case, &prog, &env, &Cfg::new("base", d, base_flags | if r.chance(1, 3) { 0x0020 } else { 0 }, budget), &mut line);
            }
            // C30: RuntimeDialect
            "C30" => {
                let f = (base_flags & !(0x0020 | 0x0200)) | if r.chance(1, 3) { 0x0008 } else { 0 };
                run_one(&mut out, case, &prog, &env, &Cfg::new("chia", "chia", f, 0), &mut line);
                run_one(&mut out, case, &prog, &env, &Cfg::new("runtime", "runtime", f, 0).rel("eq_outcome_c30", "chia"), &mut line);
                // budgets: for a successful run around its cost; for a failing run around the smallest budget under which
                // it fails for its own reason rather than for cost (both dialects must report the same failure there)
                let probe = probe_kind(&prog, &env, f, 0);
                let around: Option<u64> = if probe.is_empty() {
                    if r.chance(1, 3) { Some(1 + r.below(3000)) } else { None }
                } else if r.chance(2, 3) { failure_threshold(&prog, &env, f) } else { None };
                if let Some(t) = around {
                    for (i, m) in [t.saturating_sub(1).max(1), t, t.saturating_add(1)].iter().enumerate() {
                        let (cn, rn) = (format!("chia_b{i}"), format!("runtime_b{i}"));
                        run_one(&mut out, case, &prog, &env, &Cfg::new(&cn, "chia", f, *m), &mut line);
                        run_one(&mut out, case, &prog, &env, &Cfg::new(&rn, "runtime", f, *m).rel("eq_outcome_c30", &cn), &mut line);
                    }
                }
            }
            // C05: build variants (the same trace is recorded by each build and compared line by line)
            "C05" => {
                let budget = if r.chance(1, 4) { 1 + r.below(30000) } else { 0 };
                run_one(&mut out, case, &prog, &env, &Cfg::new("base", "chia", base_flags, budget), &mut line);
            }
            // C31: guards (hook events), LIMIT_SOFTFORK depth
            "C31" => {
                let f = base_flags | if r.chance(1, 3) { 0x0010 } else { 0 };
                run_one(&mut out, case, &prog, &env, &Cfg::new("base", "chia", f, 0), &mut line);
            }
            // C13: near the allocator caps
            "C13" => {
                let base = run_one(&mut out, case, &prog, &env, &Cfg::new("base", "chia", base_flags, 0), &mut line);
                if base.get("skip").is_some() { continue; }
                let atoms_used = base["atoms"].as_u64().unwrap_or(3) as usize;
                let pairs_used = base["pairs"].as_u64().unwrap_or(0) as usize;
                let heap_used = base["heap"].as_u64().unwrap_or(1) as usize;
                let mut c1 = Cfg::new("atoms", "chia", base_flags, 0);
                c1.ghost_atoms = 62_500_000usize.saturating_sub(atoms_used + r.below(4) as usize).saturating_sub(0) + r.below(3) as usize;
                c1.ghost_atoms = c1.ghost_atoms.min(62_500_000 - 2);
                run_one(&mut out, case, &prog, &env, &c1, &mut line);
                let mut c2 = Cfg::new("pairs", "chia", base_flags, 0);
                c2.ghost_pairs = (62_500_000usize.saturating_sub(pairs_used + 2) + r.below(5) as usize).min(62_500_000);
                run_one(&mut out, case, &prog, &env, &c2, &mut line);
                let mut c3 = Cfg::new("heap", "chia", base_flags, 0);
                c3.heap_limit = Some((heap_used + 2).saturating_sub(r.below(5) as usize));
                run_one(&mut out, case, &prog, &env, &c3, &mut line);
            }
            // C23: native sha256tree vs the ChiaLisp program
            "C23" => {
                let mut tree = rand_tree(&mut r, 1 + (case % 24) as usize, 12, 25);
                if case % 3 == 0 {
                    // large atoms: 65 / 411 / 512 / 700 / 2000 bytes, alone or inside a small tree
                    let big_len = *r.pick(&[63usize, 64, 65, 300, 411, 512, 700, 2000]);
                    let big = atom_json(&r.bytes(big_len));
                    tree = match r.below(3) {
                        0 => big,
                        1 => json!({"f": big, "r": tree}),
                        _ => json!({"f": tree, "r": {"f": big.clone(), "r": big}}),
                    };
                }
                let doubling = case % 8 == 1;
                if doubling {
                    // T_k = (T_{k-1} . T_{k-1}): identical children at every level, over a nil / small / long leaf
                    let leaf_len = *r.pick(&[0usize, 1, 3, 33, 1000]);
                    let levels = if leaf_len >= 1000 { 2 + r.below(4) } else { *r.pick(&[2u64, 3, 4, 5, 6, 7, 7, 8, 9]) };
                    tree = atom_json(&r.bytes(leaf_len));
                    for _ in 0..levels {
                        tree = json!({"f": tree.clone(), "r": tree});
                    }
                    if r.chance(1, 3) {
                        let other = rand_tree(&mut r, 4, 8, 10);
                        tree = json!({"f": other, "r": tree});
                    }
                }
                let f = 0x0400 | if case % 2 == 0 { 0x2000 } else { 0 };
                let native = list_json(&[atom_json(&[63]), q(tree.clone())]);
                let cl = sexp(CHIALISP_SHATREE).expect("chialisp program");
                run_one(&mut out, case, &cl, &tree, &Cfg::new("chialisp", "chia", f, 0), &mut line);
                run_one(&mut out, case, &native, &atom_json(&[]), &Cfg::new("native", "chia", f, 0).rel("cost_lt", "chialisp"), &mut line);
                if doubling || case % 4 == 2 {
                    // the same tree with equal sub-trees stored as ONE node: the cost must not depend on sharing
                    let mut c3 = Cfg::new("native_shared", "chia", f, 0).rel("cost_lt", "chialisp").rel("eq_outcome", "native");
                    c3.encoding = 3;
                    run_one(&mut out, case, &native, &atom_json(&[]), &c3, &mut line);
                }
            }
            _ => panic!("unknown profile"),
        }
    }
    out.flush();
}
