//! `ops` engine: operators called directly through ChiaDialect::op (dispatch + operator).
//!   ops record --profile corpus|random|malachite|unknown --seed S --n N --out trace.ndjson [--repo /repo]
//!   ops replay --in cases.ndjson --out mismatches.ndjson
//!
//! event: {"ev":"op","case":k,"variant":v,"op":[bytes],"args":T,"flags":[names],"max":[LE],
//!         "ok":bool,"cost":[LE],"val":T | "kind":K,"msg":S | "panic":S , "same_as_prev":bool?,
//!         "exp":{"ok":..,"cost":..,"val":..}? (pinned expectation of an op-tests vector)}
//! Big atoms of the `unknown` profile are recorded symbolically: {"a":[],"n":len}.
use clvmr::allocator::{Allocator, NodePtr};
use clvmr::chia_dialect::ChiaDialect;
use clvmr::dialect::{Dialect, OperatorSet};
use clvmr::reduction::Reduction;
use serde_json::{json, Value};
use vh::gen::*;
use vh::*;

const ENABLE_ALL: u32 = 0x0100 | 0x0400 | 0x0800;

thread_local! {
    /// build the argument tree with maximal node sharing (equal sub-trees = one node): no operator may depend on it
    static SHARE: std::cell::Cell<bool> = const { std::cell::Cell::new(false) };
}

/// the same call with the arguments stored with maximal sharing; the event carries "share": true
fn emit_call_shared(out: &mut Out, case: u64, opb: &[u8], args: &Value, fl: u32, max: u64) -> Value {
    SHARE.with(|c| c.set(true));
    let ev = emit_call(out, case, "shared", opb, args, fl, max, Some(("share", json!(true))));
    SHARE.with(|c| c.set(false));
    ev
}

fn call(opb: &[u8], args: &Value, flag_bits: u32, max: u64, big: &[(usize, usize)]) -> Value {
    // big: (argument index, length) pairs materialised as zero... no: 0x01-filled atoms
    let r = catch(|| {
        let mut a = Allocator::new();
        let o = a.new_atom(opb).unwrap();
        let args_node = if SHARE.with(|c| c.get()) && big.is_empty() {
            json_tree_shared(&mut a, args).unwrap()
        } else if big.is_empty() {
            json_tree(&mut a, args).unwrap()
        } else {
            build_with_big(&mut a, args)
        };
        let d = ChiaDialect::new(flags(flag_bits));
        match d.op(&mut a, o, args_node, max, OperatorSet::Default) {
            Ok(Reduction(cost, node)) => json!({"ok": true, "cost": n_le(cost as u128), "val": tree_json(&a, node)}),
            Err(e) => json!({"ok": false, "kind": err_kind(&e), "msg": e.to_string()}),
        }
    });
    match r {
        Ok(v) => v,
        Err(p) => json!({"panic": p}),
    }
}

/// materialise a tree whose atoms may be symbolic {"a":[],"n":len}: filled with 0x01 bytes by doubling
fn build_with_big(a: &mut Allocator, v: &Value) -> NodePtr {
    if let Some(b) = v.get("a") {
        if let Some(n) = v.get("n") {
            let n = n.as_u64().unwrap() as usize;
            return a.new_atom(&vec![1u8; n]).unwrap();
        }
        return a.new_atom(&json_bytes(b)).unwrap();
    }
    let f = build_with_big(a, &v["f"]);
    let r = build_with_big(a, &v["r"]);
    a.new_pair(f, r).unwrap()
}

fn has_big(v: &Value) -> bool {
    if v.get("a").is_some() {
        return v.get("n").is_some();
    }
    has_big(&v["f"]) || has_big(&v["r"])
}

fn emit_call(out: &mut Out, case: u64, variant: &str, opb: &[u8], args: &Value, fl: u32, max: u64, extra: Option<(&str, Value)>) -> Value {
    let big: Vec<(usize, usize)> = if has_big(args) { vec![(0, 0)] } else { vec![] };
    let mut ev = call(opb, args, fl, max, &big);
    ev["ev"] = json!("op");
    ev["case"] = json!(case);
    ev["variant"] = json!(variant);
    ev["op"] = bytes_json(opb);
    ev["args"] = args.clone();
    ev["flags"] = flags_json(fl);
    ev["max"] = n_le(max as u128);
    if let Some((k, v)) = extra {
        ev[k] = v;
    }
    out.emit(&ev);
    ev
}

// ---------------------------------------------------------------------------
// op-tests corpus

fn opcode_for(name: &str) -> Option<(Vec<u8>, u32)> {
    let t: &[(&str, &[u8], u32)] = &[
        ("i", &[3], 0), ("c", &[4], 0), ("f", &[5], 0), ("r", &[6], 0), ("l", &[7], 0), ("x", &[8], 0),
        ("=", &[9], 0), (">s", &[10], 0), ("sha256", &[11], 0), ("substr", &[12], 0), ("strlen", &[13], 0),
        ("concat", &[14], 0), ("+", &[16], 0), ("-", &[17], 0), ("*", &[18], 0), ("/", &[19], 0),
        ("divmod", &[20], 0), (">", &[21], 0), ("ash", &[22], 0), ("lsh", &[23], 0), ("logand", &[24], 0),
        ("logior", &[25], 0), ("logxor", &[26], 0), ("lognot", &[27], 0), ("point_add", &[29], 0),
        ("pubkey_for_exp", &[30], 0), ("not", &[32], 0), ("any", &[33], 0), ("all", &[34], 0),
        ("coinid", &[48], 0), ("g1_add", &[29], 0), ("g1_subtract", &[49], 0), ("g1_multiply", &[50], 0),
        ("g1_negate", &[51], 0x0008), ("g1_negate_strict", &[51], 0), ("g2_add", &[52], 0),
        ("g2_subtract", &[53], 0), ("g2_multiply", &[54], 0), ("g2_negate", &[55], 0x0008),
        ("g2_negate_strict", &[55], 0), ("g1_map", &[56], 0), ("g2_map", &[57], 0),
        ("bls_pairing_identity", &[58], 0), ("bls_verify", &[59], 0), ("modpow", &[60], 0), ("%", &[61], 0),
        ("secp256k1_verify", &[0x13, 0xd6, 0x1f, 0x00], 0), ("secp256r1_verify", &[0x1c, 0x3a, 0x8f, 0x00], 0),
        ("secp256k1_verify_64", &[64], 0), ("secp256r1_verify_65", &[65], 0), ("keccak256", &[62], 0),
        ("sha256tree", &[63], 0), ("unknown", &[0x00], 0), ("unknown_add", &[0x40], 0),
        ("unknown_mul", &[0x80], 0), ("unknown_concat", &[0xc0], 0), ("unknown_x2", &[0x01, 0x00], 0),
        ("unknown_add_x2", &[0x01, 0x40], 0), ("unknown_mul_x2", &[0x01, 0x80], 0),
        ("unknown_concat_x2", &[0x01, 0xc0], 0),
    ];
    t.iter().find(|(n, _, _)| *n == name).map(|(_, b, f)| (b.to_vec(), *f))
}

fn atom_token(v: &str) -> Value {
    if v == "0" {
        return atom_json(&[]);
    }
    if let Some(h) = v.strip_prefix("0x") {
        return atom_json(&hex::decode(h).expect("hex"));
    }
    if v.starts_with('"') {
        return atom_json(v.trim_matches('"').as_bytes());
    }
    // decimal (possibly negative, arbitrary size) -> minimal two's complement
    let neg = v.starts_with('-');
    let digits = v.trim_start_matches('-');
    if !digits.is_empty() && digits.bytes().all(|c| c.is_ascii_digit()) {
        // big decimal -> bytes (base 256, big endian)
        let mut mag: Vec<u8> = vec![]; // little endian
        for c in digits.bytes() {
            let mut carry = (c - b'0') as u32;
            for d in mag.iter_mut() {
                let x = *d as u32 * 10 + carry;
                *d = (x & 255) as u8;
                carry = x >> 8;
            }
            while carry > 0 {
                mag.push((carry & 255) as u8);
                carry >>= 8;
            }
        }
        while mag.last() == Some(&0) {
            mag.pop();
        }
        if mag.is_empty() {
            return atom_json(&[]);
        }
        let mut be: Vec<u8> = mag.iter().rev().cloned().collect();
        if !neg {
            if be[0] & 0x80 != 0 {
                be.insert(0, 0);
            }
            return atom_json(&be);
        }
        // two's complement of magnitude with enough width
        let mut w = be.clone();
        w.insert(0, 0);
        for b in w.iter_mut() {
            *b = !*b;
        }
        for i in (0..w.len()).rev() {
            let (x, c) = w[i].overflowing_add(1);
            w[i] = x;
            if !c {
                break;
            }
        }
        while w.len() > 1 && w[0] == 0xff && w[1] & 0x80 != 0 {
            w.remove(0);
        }
        return atom_json(&w);
    }
    let v2 = v.strip_prefix('#').unwrap_or(v);
    match opcode_for(v2) {
        Some((b, _)) => atom_json(&b),
        None => match v2 {
            "q" => atom_json(&[1]),
            "a" => atom_json(&[2]),
            "softfork" => atom_json(&[36]),
            _ => panic!("atom not supported {v}"),
        },
    }
}

fn pop_token(s: &str) -> (&str, &str) {
    let s = s.trim();
    if let Some(stripped) = s.strip_prefix('"') {
        let q = stripped.find('"').expect("quote");
        let (first, rest) = s.split_at(q + 2);
        (first.trim(), rest.trim())
    } else if s.starts_with('(') || s.starts_with(')') {
        let (first, rest) = s.split_at(1);
        (first, rest.trim())
    } else {
        let pos = match (s.find(' '), s.find(')')) {
            (Some(a), Some(b)) => a.min(b),
            (Some(a), None) => a,
            (None, Some(b)) => b,
            (None, None) => s.len(),
        };
        let (first, rest) = s.split_at(pos);
        (first.trim(), rest.trim())
    }
}

fn parse_list(v: &str) -> (Value, &str) {
    let (first, rest) = pop_token(v.trim());
    if first.is_empty() || first == ")" {
        return (atom_json(&[]), rest);
    }
    if first == "(" {
        let (head, r1) = parse_list(rest);
        let (tail, r2) = parse_list(r1);
        (json!({"f": head, "r": tail}), r2)
    } else if first == "." {
        let (node, r1) = parse_exp(rest);
        let (end, r2) = pop_token(r1);
        assert_eq!(end, ")");
        (node, r2)
    } else {
        let head = atom_token(first);
        let (tail, r1) = parse_list(rest);
        (json!({"f": head, "r": tail}), r1)
    }
}

fn parse_exp(v: &str) -> (Value, &str) {
    let (first, rest) = pop_token(v);
    if first == "(" {
        parse_list(rest)
    } else {
        (atom_token(first), rest)
    }
}

fn corpus(out: &mut Out, repo: &str) {
    let files: &[(&str, &[u32])] = &[
        ("test-core-ops", &[0]), ("test-core-ops-v2", &[0x2000]),
        ("test-more-ops", &[0, 0x1000]), ("test-more-ops-v2", &[0x2000, 0x3000]),
        ("test-bls-ops", &[0]), ("test-blspy-g1", &[0]), ("test-blspy-g1-v2", &[0x2000]),
        ("test-blspy-g2", &[0]), ("test-blspy-g2-v2", &[0x2000]), ("test-blspy-hash", &[0]),
        ("test-blspy-hash-v2", &[0x2000]), ("test-blspy-pairing", &[0]), ("test-blspy-pairing-v2", &[0x2000]),
        ("test-blspy-verify", &[0]), ("test-blspy-verify-v2", &[0x2000]), ("test-bls-zk", &[0]),
        ("test-bls-zk-v2", &[0x2000]), ("test-secp-verify", &[0, 0x2000]), ("test-secp256k1", &[0, 0x2000]),
        ("test-secp256r1", &[0, 0x2000]), ("test-modpow", &[0, 0x1000]), ("test-modpow-v2", &[0x2000, 0x3000]),
        ("test-sha256", &[0]), ("test-sha256-v2", &[0x2000]), ("test-sha256tree", &[0]),
        ("test-sha256tree-v2", &[0x2000]), ("test-sha256tree-hash", &[0]), ("test-sha256tree-hash-v2", &[0x2000]),
        ("test-keccak256", &[0]), ("test-keccak256-v2", &[0x2000]), ("test-keccak256-generated", &[0]),
        ("test-keccak256-generated-v2", &[0x2000]), ("test-unknown-ops", &[0]), ("test-unknown-ops-v2", &[0x2000]),
    ];
    let mut case = 0u64;
    for (file, flagsets) in files {
        let text = std::fs::read_to_string(format!("{repo}/op-tests/{file}.txt")).expect("op-tests file");
        for line in text.split('\n') {
            let t = line.trim();
            if t.is_empty() || t.starts_with(';') {
                continue;
            }
            let (op_name, t) = t.split_once(' ').unwrap();
            let (opb, extra_flags) = opcode_for(op_name).expect("operator name");
            let (args_s, outp) = t.split_once("=>").unwrap();
            let (expected, cost_s) = if outp.contains('|') { outp.split_once('|').unwrap() } else { (outp, "0") };
            let (args, rest) = parse_list(args_s.trim());
            assert_eq!(rest, "");
            let expected = expected.trim();
            let exp = if expected == "FAIL" {
                json!({"ok": false})
            } else {
                let (ev, _) = parse_exp(expected);
                json!({"ok": true, "cost": n_le(cost_s.trim().parse::<u64>().unwrap() as u128), "val": ev})
            };
            for fl in flagsets.iter() {
                case += 1;
                emit_call(out, case, file, &opb, &args, fl | extra_flags | ENABLE_ALL, 10000000000, Some(("exp", exp.clone())));
            }
        }
    }
}

// ---------------------------------------------------------------------------
// random calls

const ONE_BYTE_OPS: &[u8] = &[
    3, 4, 5, 6, 7, 8, 9, 10, 11, 12, 13, 14, 16, 17, 18, 19, 20, 21, 22, 23, 24, 25, 26, 27, 32, 33, 34, 48, 60,
    61, 63,
];
const ARITH_OPS: &[u8] = &[16, 17, 18, 19, 20, 21, 22, 23, 24, 25, 26, 27, 60, 61];

/// an integer whose bit length is uniform in 0..=max_bits (so every limb boundary is hit), often
/// exactly at 2^k - 1 / 2^k, sometimes negative, sometimes with a redundant leading byte
fn limb_int(r: &mut Rng, max_bits: u32) -> Value {
    let bits = r.below(max_bits as u64 + 1) as u32;
    let mut v: u128 = if bits == 0 { 0 } else { (1u128 << (bits - 1)) | (((r.next() as u128) << 64 | r.next() as u128) & ((1u128 << (bits - 1)) - 1)) };
    match r.below(6) {
        0 if bits > 0 => v = (1u128 << bits) - 1,
        1 if bits > 0 => v = 1u128 << (bits - 1),
        _ => {}
    }
    let mut b: Vec<u8> = v.to_be_bytes().to_vec();
    while !b.is_empty() && b[0] == 0 {
        b.remove(0);
    }
    if !b.is_empty() && b[0] & 0x80 != 0 {
        b.insert(0, 0);
    }
    if r.chance(1, 8) && !b.is_empty() {
        // negate (two's complement of the same width + sign byte trimmed)
        let mut w = b.clone();
        for x in w.iter_mut() {
            *x = !*x;
        }
        for i in (0..w.len()).rev() {
            let (x, c) = w[i].overflowing_add(1);
            w[i] = x;
            if !c {
                break;
            }
        }
        while w.len() > 1 && w[0] == 0xff && w[1] & 0x80 != 0 {
            w.remove(0);
        }
        b = w;
    } else if r.chance(1, 12) {
        b.insert(0, 0);
    }
    atom_json(&b)
}

fn rand_arg(r: &mut Rng, big: bool) -> Value {
    if r.chance(1, 3) {
        let mb = *r.pick(&[26u32, 26, 40, 64, 100]);
        return limb_int(r, mb);
    }
    if r.chance(1, 12) {
        // lengths around the byte boundaries of LENGTH-valued results (strlen, substr indices) and size limits
        let n = *r.pick(&[127usize, 128, 129, 255, 256, 257]);
        let mut b = r.bytes(n);
        if r.chance(1, 2) {
            b[0] &= 0x7f;
        }
        return atom_json(&b);
    }
    match r.below(20) {
        0 => json!({"f": atom_json(&rand_atom_bytes(r, 4)), "r": atom_json(&rand_atom_bytes(r, 4))}),
        1 if big => {
            let n = *r.pick(&[255usize, 256, 257, 1024, 1025, 2048, 2049]);
            let mut b = r.bytes(n);
            if r.chance(1, 2) {
                b[0] &= 0x7f;
            }
            atom_json(&b)
        }
        2 => {
            let n = r.below(40) as usize + 8;
            atom_json(&r.bytes(n))
        }
        3 => atom_json(&r.bytes(32)),
        _ => atom_json(&rand_atom_bytes(r, 12)),
    }
}

fn rand_args(r: &mut Rng, op: u8, big: bool) -> Value {
    let arity = match op {
        3 => *r.pick(&[3usize, 3, 3, 2, 4]),
        5 | 6 | 7 | 13 | 27 | 32 | 63 => *r.pick(&[1usize, 1, 1, 0, 2]),
        4 | 9 | 10 | 19 | 20 | 21 | 22 | 23 | 61 => *r.pick(&[2usize, 2, 2, 2, 1, 3, 0]),
        12 => *r.pick(&[2usize, 3, 3, 1, 4]),
        48 | 60 => *r.pick(&[3usize, 3, 3, 3, 2, 4]),
        _ => r.below(6) as usize,
    };
    let mut items: Vec<Value> = (0..arity).map(|_| rand_arg(r, big)).collect();
    // operator-specific shaping so the interesting paths are reached
    match op {
        12 => {
            if arity >= 2 && r.chance(3, 4) {
                let n = r.below(20) as usize;
                items[0] = atom_json(&r.bytes(n));
                let s = r.below(n as u64 + 2);
                items[1] = small_int(s as i64 - if r.chance(1, 10) { 3 } else { 0 });
                if arity >= 3 {
                    let e = s + r.below((n as u64 + 2).saturating_sub(s));
                    items[2] = small_int(e as i64);
                }
            }
        }
        22 | 23 => {
            if arity >= 2 && r.chance(3, 4) {
                let sh = match r.below(6) {
                    0 => r.range(-70000, 70000),
                    1 => *r.pick(&[65535i64, -65535, 65536, -65536, 0]),
                    _ => r.range(-80, 80),
                };
                items[1] = small_int(sh);
            }
        }
        48 => {
            if arity == 3 && r.chance(3, 4) {
                items[0] = atom_json(&r.bytes(32));
                let n1 = if r.chance(1, 8) { 31 } else { 32 };
                items[1] = atom_json(&r.bytes(n1));
                if r.chance(1, 2) {
                    let v = r.next() >> r.below(64);
                    items[2] = small_int_u64(v);
                }
            }
        }
        60 => {
            if arity == 3 && r.chance(3, 4) {
                let en = r.below(4) as usize;
                let e = r.bytes(en);
                let mut e2 = e.clone();
                if !e2.is_empty() && r.chance(3, 4) {
                    e2[0] &= 0x7f;
                }
                items[1] = atom_json(&e2);
                let mn = r.below(10) as usize;
                let m = r.bytes(mn);
                items[2] = atom_json(&m);
            }
        }
        63 => {
            if arity >= 1 {
                let tn = 1 + r.below(12) as usize;
                items[0] = rand_tree(r, tn, 8, 30);
                if r.chance(1, 3) {
                    // large atoms (per-byte charge of sha256tree): alone or next to the small tree
                    let n = *r.pick(&[63usize, 64, 65, 300, 700, 2000]);
                    let big = atom_json(&r.bytes(n));
                    items[0] = if r.chance(1, 2) { big } else { json!({"f": items[0].clone(), "r": big}) };
                } else if r.chance(1, 3) {
                    // doubling: T_k = (T_{k-1} . T_{k-1}) over a small tree (equal sub-trees at every level)
                    let leaves = 1 + r.below(3) as usize;
                    let mut t = rand_tree(r, leaves, 4, 6);
                    let levels = 1 + r.below(6);
                    for _ in 0..levels {
                        t = json!({"f": t.clone(), "r": t});
                    }
                    items[0] = t;
                }
            }
        }
        _ => {}
    }
    let mut t = if r.chance(1, 25) { atom_json(&rand_atom_bytes(r, 3)) } else { atom_json(&[]) };
    for it in items.into_iter().rev() {
        t = json!({"f": it, "r": t});
    }
    t
}

fn small_int(v: i64) -> Value {
    let b = v.to_be_bytes();
    let mut s = &b[..];
    if v >= 0 {
        while !s.is_empty() && s[0] == 0 && (s.len() == 1 || s[1] & 0x80 == 0) {
            s = &s[1..];
        }
    } else {
        while s.len() > 1 && s[0] == 0xff && s[1] & 0x80 != 0 {
            s = &s[1..];
        }
    }
    atom_json(s)
}

fn small_int_u64(v: u64) -> Value {
    let mut b = v.to_be_bytes().to_vec();
    while !b.is_empty() && b[0] == 0 {
        b.remove(0);
    }
    if !b.is_empty() && b[0] & 0x80 != 0 {
        b.insert(0, 0);
    }
    atom_json(&b)
}

fn rand_flags(r: &mut Rng) -> u32 {
    let mut f = ENABLE_ALL;
    for (bit, num) in [(0x2000u32, 2u64), (0x0040, 4), (0x0200, 4), (0x1000, 3), (0x0001, 6), (0x0002, 5), (0x0008, 8)] {
        if r.chance(1, num) {
            f |= bit;
        }
    }
    if r.chance(1, 10) {
        f &= !ENABLE_ALL | (r.next() as u32 & ENABLE_ALL);
    }
    f
}

fn rand_unknown_op(r: &mut Rng) -> Vec<u8> {
    let len = *r.pick(&[1usize, 1, 2, 2, 3, 4, 5, 5, 6, 0]);
    let alpha = [0x00u8, 0x01, 0x3f, 0x40, 0x7f, 0x80, 0xbf, 0xc0, 0xfe, 0xff, 0x0f, 0x50, 0x90, 0xd0];
    let mut b: Vec<u8> = (0..len).map(|_| if r.chance(2, 3) { *r.pick(&alpha) } else { r.next() as u8 }).collect();
    if len == 1 && r.chance(1, 2) {
        // a one-byte opcode that is unassigned
        b[0] = *r.pick(&[0u8, 15, 28, 31, 35, 37, 47, 62, 64, 65, 66, 100, 127, 128, 0xc0, 0xff]);
    }
    b
}

fn budget_variants(out: &mut Out, r: &mut Rng, case: u64, opb: &[u8], args: &Value, fl: u32) {
    let first = emit_call(out, case, "max", opb, args, fl, u64::MAX, None);
    if first["ok"] == json!(true) {
        let c = le_n(&first["cost"]) as u64;
        let mut budgets = vec![c, c.saturating_sub(1), c.saturating_add(1)];
        if c > 2 {
            budgets.push(r.below(c));
            budgets.push(c / 2);
        }
        let pick = budgets[r.below(budgets.len() as u64) as usize];
        emit_call(out, case, "budget", opb, args, fl, pick, None);
        if r.chance(1, 3) {
            emit_call(out, case, "budget", opb, args, fl, c - 1, None);
        }
    } else if r.chance(1, 4) {
        emit_call(out, case, "budget", opb, args, fl, r.below(3000), None);
    }
}

fn main() {
    let args: Vec<String> = std::env::args().collect();
    let cmd = args.get(1).map(|s| s.as_str()).unwrap_or("");
    let mut out = Out::create(&arg(&args, "--out").unwrap_or("-".into()));
    match cmd {
        "record" => {
            let profile = arg(&args, "--profile").unwrap_or("random".into());
            let seed = arg_u64(&args, "--seed", 1);
            let n = arg_u64(&args, "--n", 1000);
            let mut r = Rng::new(seed);
            match profile.as_str() {
                "corpus" => corpus(&mut out, &arg(&args, "--repo").unwrap_or("/repo".into())),
                "random" => {
                    for case in 0..n {
                        let fl = rand_flags(&mut r);
                        if r.chance(1, 6) {
                            let opb = rand_unknown_op(&mut r);
                            let a = rand_args(&mut r, 16, false);
                            budget_variants(&mut out, &mut r, case, &opb, &a, fl);
                        } else {
                            let op = *r.pick(ONE_BYTE_OPS);
                            let big = fl & 0x0240 != 0 && r.chance(1, 3);
                            let a = rand_args(&mut r, op, big);
                            budget_variants(&mut out, &mut r, case, &[op], &a, fl);
                            if !has_big(&a) && (op == 63 || r.chance(1, 5)) {
                                emit_call_shared(&mut out, case, &[op], &a, fl, u64::MAX);
                            }
                        }
                    }
                }
                "malachite" => {
                    // C06: the same call with and without MALACHITE must be identical
                    for case in 0..n {
                        let op = *r.pick(&[19u8, 20, 61, 60]);
                        let mut fl = rand_flags(&mut r) & !0x1000;
                        let big = r.chance(1, 4);
                        let a = if r.chance(1, 6) { rand_args(&mut r, 16, true) } else { rand_args(&mut r, op, big) };
                        let mut a = a;
                        let mut max = if r.chance(1, 5) { r.below(30000) } else { u64::MAX };
                        if r.chance(1, 6) && op != 60 {
                            // the ORDER of the checks: an error condition (zero divisor in any spelling, pair operand,
                            // oversized operand) together with a budget around the operator's cost
                            let dividend = if r.chance(1, 3) {
                                // above / at the DISABLE_OP (2048) and LIMITS (256) sizes of the dividend
                                let n = *r.pick(&[256usize, 257, 2048, 2049]);
                                let mut b = r.bytes(n);
                                b[0] &= 0x7f;
                                atom_json(&b)
                            } else {
                                rand_arg(&mut r, false)
                            };
                            let zero = match r.below(6) {
                                0 => atom_json(&[]),
                                1 => atom_json(&[0]),
                                2 => atom_json(&[0, 0, 0]),
                                3 => atom_json(&vec![0u8; 40]),
                                4 => json!({"f": atom_json(&[1]), "r": atom_json(&[])}),
                                _ => rand_arg(&mut r, true),
                            };
                            a = json!({"f": dividend, "r": {"f": zero, "r": atom_json(&[])}});
                            if r.chance(1, 2) { fl |= 0x0200; }
                            if r.chance(1, 2) { fl |= 0x0040; }
                            if r.chance(2, 3) { fl &= !0x2000; }
                            max = match r.below(5) {
                                4 => u64::MAX,
                                0 => r.below(1400),
                                1 => 900 + r.below(400),
                                2 => r.below(8),
                                _ => 1000 + r.below(3000),
                            };
                        } else if r.chance(1, 8) && op == 60 {
                            let zero = if r.chance(1, 2) { atom_json(&[]) } else { atom_json(&[0, 0]) };
                            a = json!({"f": rand_arg(&mut r, false), "r": {"f": small_int(r.below(5) as i64), "r": {"f": zero, "r": atom_json(&[])}}});
                            max = r.below(40000);
                        }
                        emit_call(&mut out, case, "num", &[op], &a, fl, max, None);
                        emit_call(&mut out, case, "malachite", &[op], &a, fl | 0x1000, max, Some(("same_as_prev", json!(true))));
                    }
                }
                "arith" => {
                    // accumulator-size stress for the new cost model; both models, results must agree (C11)
                    for case in 0..n {
                        let op = *r.pick(ARITH_OPS);
                        let fl = rand_flags(&mut r) & !0x2000;
                        let a = rand_args(&mut r, op, false);
                        emit_call(&mut out, case, "old", &[op], &a, fl, u64::MAX, None);
                        emit_call(&mut out, case, "new", &[op], &a, fl | 0x2000, u64::MAX, Some(("same_val_as_prev", json!(true))));
                    }
                }
                "fast" => {
                    // C05: small-integer-biased argument lists for the operators that have fast paths
                    for case in 0..n {
                        let op = *r.pick(&[16u8, 17, 18, 21, 11]);
                        let arity = match op {
                            21 => 2,
                            11 => *r.pick(&[2usize, 2, 2, 1, 3]),
                            _ => r.below(7) as usize,
                        };
                        let mut t = atom_json(&[]);
                        for i in 0..arity {
                            let it = match r.below(16) {
                                9..=15 => limb_int(&mut r, 26),
                                0 => atom_json(&[0x7f, 0xff, 0xff, 0xff, 0xff, 0xff, 0xff, 0xff]),
                                1 => atom_json(&[0x00, 0xff, 0xff, 0xff, 0xff, 0xff, 0xff, 0xff, 0xff]),
                                2 => atom_json(&[0x03, 0xff, 0xff, 0xff]),
                                3 => atom_json(&[0x04, 0x00, 0x00, 0x00]),
                                4 => atom_json(&[0x00, 0x01]),
                                5 => small_int(-(r.below(300) as i64)),
                                _ => {
                                    let top = if r.chance(1, 2) { 45 } else { 0x400_0000 };
                                    small_int(r.below(top) as i64)
                                }
                            };
                            let it = if op == 11 && i == arity - 1 - (arity > 1) as usize && r.chance(3, 4) { atom_json(&[1]) } else { it };
                            t = json!({"f": it, "r": t});
                        }
                        let fl = rand_flags(&mut r) & (0x2000 | 0x0040 | ENABLE_ALL);
                        budget_variants(&mut out, &mut r, case, &[op], &t, fl);
                    }
                }
                "unknown" => {
                    let lens =[0usize, 1, 2, 255, 256, 65535, 741456, 1 << 20];
                    for case in 0..n {
                        let opb = rand_unknown_op(&mut r);
                        let arity = r.below(4) as usize;
                        let mut t = atom_json(&[]);
                        for _ in 0..arity {
                            let it = if r.chance(1, 12) {
                                json!({"f": atom_json(&[1]), "r": atom_json(&[])})
                            } else {
                                let l = *r.pick(&lens);
                                if l > 300 { json!({"a": [], "n": l}) } else { atom_json(&vec![1u8; l]) }
                            };
                            t = json!({"f": it, "r": t});
                        }
                        let fl = (if r.chance(1, 2) { 0x2000 } else { 0 }) | (if r.chance(1, 8) { 0x0002 } else { 0 });
                        budget_variants(&mut out, &mut r, case, &opb, &t, fl);
                    }
                    // the overflow corner of the pre-hard-fork rule (finding F4)
                    let big = json!({"a": [], "n": 741456});
                    let t = json!({"f": big.clone(), "r": {"f": big, "r": atom_json(&[])}});
                    emit_call(&mut out, n, "max", &[0xff, 0x78, 0x5c, 0x41, 0x80], &t, 0, u64::MAX, None);
                    emit_call(&mut out, n + 1, "max", &[0xff, 0x78, 0x5c, 0x41, 0x80], &t, 0x2000, u64::MAX, None);
                }
                _ => panic!("unknown profile"),
            }
        }
        "replay" => {
            // cases: {"op":[..],"args":T,"flags":[..],"max":[LE],"exp":{"st":"ok","cost":[LE],"val":T}|{"st":"err","kind":K}}
            let cases = read_ndjson(&arg(&args, "--in").unwrap());
            let mut n = 0u64;
            for c in &cases {
                n += 1;
                let opb = json_bytes(&c["op"]);
                let max = le_n(&c["max"]) as u64;
                let got = call(&opb, &c["args"], json_flags(&c["flags"]), max, &[]);
                let e = &c["exp"];
                let good = if e["st"] == "ok" {
                    got["ok"] == json!(true) && got["cost"] == e["cost"] && got["val"] == e["val"]
                } else {
                    got["ok"] == json!(false) && got["kind"] == e["kind"]
                };
                if !good {
                    out.emit(&json!({"case": c, "got": got}));
                } else if !has_big(&c["args"]) {
                    // the same call with equal argument sub-trees stored as one node
                    SHARE.with(|s| s.set(true));
                    let got2 = call(&opb, &c["args"], json_flags(&c["flags"]), max, &[]);
                    SHARE.with(|s| s.set(false));
                    if got2 != got {
                        out.emit(&json!({"case": c, "got": got2, "shared": true}));
                    }
                }
            }
            out.emit(&json!({"done": n}));
        }
        _ => {
            eprintln!("usage: ops record|replay ...");
            std::process::exit(2);
        }
    }
    out.flush();
}
