//! C21 engine: serde_2026 varints.
//!   varint replay --in <cases.ndjson> --out <mismatches.ndjson>   spec -> impl
//!   varint record --seed S --n N --out <trace.ndjson>             impl -> spec
//!   varint sweep  --bytes K --out <mismatches.ndjson>             exhaustive law sweep (impl only)
use clvmr::serde_2026::{read_varint, write_varint};
use serde_json::{json, Value};
use std::io::Cursor;
use vh::*;

fn dec(b: &[u8], strict: bool) -> Result<Option<(i64, usize)>, String> {
    catch(|| {
        let mut c = Cursor::new(b);
        match read_varint(&mut c, strict) {
            Ok(v) => Some((v, c.position() as usize)),
            Err(_) => None,
        }
    })
}

fn enc(v: i64) -> Result<Vec<u8>, String> {
    catch(|| {
        let mut out = Vec::new();
        write_varint(&mut out, v).unwrap();
        out
    })
}

fn signed(neg: bool, mag: u128) -> i64 {
    if neg { -(mag as i128) as i64 } else { mag as i64 }
}

fn obs_dec(r: &Result<Option<(i64, usize)>, String>) -> Value {
    match r {
        Err(p) => json!({"panic": p}),
        Ok(None) => json!({"ok": false}),
        Ok(Some((v, n))) => json!({"ok": true, "neg": *v < 0, "mag": n_le(v.unsigned_abs() as u128), "used": n}),
    }
}

fn main() {
    let args: Vec<String> = std::env::args().collect();
    let cmd = args.get(1).map(|s| s.as_str()).unwrap_or("");
    let mut out = Out::create(&arg(&args, "--out").unwrap_or("-".into()));
    match cmd {
        "replay" => {
            let cases = read_ndjson(&arg(&args, "--in").unwrap());
            let mut n = 0u64;
            for c in &cases {
                n += 1;
                if c["kind"] == "bytes" {
                    let b = json_bytes(&c["b"]);
                    let l = dec(&b, false);
                    let s = dec(&b, true);
                    let exp_ok = c["ok"].as_bool().unwrap();
                    let exp_v = signed(c["neg"].as_bool().unwrap(), le_n(&c["mag"]));
                    let exp_used = c["used"].as_u64().unwrap() as usize;
                    let exp_strict = c["strict_ok"].as_bool().unwrap();
                    let l_ok = matches!(&l, Ok(Some((v, u))) if exp_ok && *v == exp_v && *u == exp_used)
                        || (matches!(&l, Ok(None)) && !exp_ok);
                    let s_ok = matches!(&s, Ok(Some((v, u))) if exp_strict && *v == exp_v && *u == exp_used)
                        || (matches!(&s, Ok(None)) && !exp_strict);
                    if !l_ok || !s_ok {
                        out.emit(&json!({"case": c, "lenient": obs_dec(&l), "strict": obs_dec(&s)}));
                    }
                } else {
                    let v = signed(c["neg"].as_bool().unwrap(), le_n(&c["mag"]));
                    let e = enc(v);
                    let exp = json_bytes(&c["enc"]);
                    if e.as_ref().ok() != Some(&exp) {
                        out.emit(&json!({"case": c, "enc": match e { Ok(b) => bytes_json(&b), Err(p) => json!({"panic": p}) }}));
                    }
                }
            }
            out.emit(&json!({"done": n}));
        }
        "record" => {
            let mut r = Rng::new(arg_u64(&args, "--seed", 1));
            let n = arg_u64(&args, "--n", 1000);
            for i in 0..n {
                if i % 2 == 0 {
                    // a value: random width, random magnitude, boundary-biased
                    let bits = r.below(56) as u32;
                    let mut v: i64 = if bits == 0 { 0 } else { (r.next() & ((1u64 << bits) - 1)) as i64 };
                    if r.chance(1, 4) && bits >= 1 {
                        v = (1i64 << (bits - 1)) - r.range(0, 2);
                    }
                    if r.chance(1, 2) { v = -v; }
                    if v < -(1i64 << 55) || v > (1i64 << 55) - 1 { v = 0; }
                    let e = enc(v);
                    let mut ev = json!({"ev": "enc", "neg": v < 0, "mag": n_le(v.unsigned_abs() as u128)});
                    match e {
                        Ok(b) => {
                            ev["out"] = bytes_json(&b);
                        }
                        Err(p) => ev["panic"] = json!(p),
                    }
                    out.emit(&ev);
                } else {
                    // a byte string: valid encoding possibly widened, truncated or followed by junk
                    let len = r.below(10) as usize;
                    let mut b = r.bytes(len);
                    if r.chance(1, 3) && len > 0 {
                        // force a prefix class
                        let k = r.below(9) as u32;
                        let pre: u8 = if k == 0 { 0 } else { (0xffu16 << (8 - k)) as u8 };
                        let keep: u8 = if k >= 7 { 0 } else { 0xff >> (k + 1) };
                        b[0] = pre | (b[0] & keep & if r.chance(1, 2) { 0x01 } else { 0xff });
                    }
                    if r.chance(1, 4) {
                        for x in b.iter_mut().skip(1) {
                            if r.chance(2, 3) { *x = *r.pick(&[0u8, 0xff, 0x80, 0x7f]); }
                        }
                    }
                    for strict in [false, true] {
                        let d = dec(&b, strict);
                        let mut ev = obs_dec(&d);
                        ev["ev"] = json!("dec");
                        ev["b"] = bytes_json(&b);
                        ev["strict"] = json!(strict);
                        out.emit(&ev);
                    }
                }
            }
        }
        "sweep" => {
            // exhaustive over all encodings of <= K bytes: laws established for the specification codec
            let k = arg_u64(&args, "--bytes", 3) as usize;
            let mut total: u64 = 0;
            let mut bad: u64 = 0;
            for len in 1..=k {
                let count: u64 = 1u64 << (8 * len);
                for x in 0..count {
                    let b: Vec<u8> = (0..len).map(|i| (x >> (8 * (len - 1 - i))) as u8).collect();
                    total += 1;
                    let l = dec(&b, false);
                    let s = dec(&b, true);
                    let ones = (!b[0]).leading_zeros() as usize;
                    let good = match (&l, &s) {
                        (Ok(Some((v, u))), s) => {
                            let e = enc(*v);
                            let canonical = e.as_ref().map(|e| e[..] == b[..*u]).unwrap_or(false);
                            *u == ones + 1
                                && e.is_ok()
                                && dec(e.as_ref().unwrap(), true) == Ok(Some((*v, e.as_ref().unwrap().len())))
                                && match s {
                                    Ok(Some((sv, su))) => canonical && sv == v && su == u,
                                    Ok(None) => !canonical,
                                    Err(_) => false,
                                }
                        }
                        (Ok(None), Ok(None)) => ones + 1 > len || ones >= 8,
                        _ => false,
                    };
                    if !good {
                        bad += 1;
                        if bad <= 20 {
                            out.emit(&json!({"b": bytes_json(&b), "lenient": obs_dec(&l), "strict": obs_dec(&s)}));
                        }
                    }
                }
            }
            out.emit(&json!({"done": total, "bad": bad}));
        }
        _ => {
            eprintln!("usage: varint replay|record|sweep ...");
            std::process::exit(2);
        }
    }
    out.flush();
}
