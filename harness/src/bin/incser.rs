//! C19 engine: incremental back-reference serializer (src/serde/incremental.rs).
//!   incser replay --in <cases.ndjson> --out <mismatches.ndjson> [--reuse 0|1]   spec -> impl
//!       first input line {"universe":[tree..],"sent":tree}, then one case per line
//!       {"c":[i>0: add universe[i-1] | i<0: undo -i], "d":[done flag after each call],
//!        "ub":[per call: 0, or for an undo the call index whose pre-state must be restored],
//!        "fin":[classic bytes of the assembled tree] (present iff the history ends complete), "cls":class}
//!   incser record --seed S --n N --out <trace.ndjson> [--mode M] [--reuse P]   impl -> spec
//!   incser run --in <plans.ndjson> --out <trace.ndjson>                execute explicit plans
//!   incser probe --seed S --n N [--mode M] [--reuse P]                 (investigation) counts only
//!
//! A *plan* is {"mode":..,"sent":tree,"reuse":bool,"calls":[{"op":"add","t":tree}|{"op":"undo","k":n}]}.
//! The Serializer identifies the sentinel by NodePtr identity.  The harness uses ONE sentinel node whose
//! VALUE occurs nowhere else in any added tree (a distinguished 10-byte atom, or a pair of two such atoms);
//! every position of a plan tree that holds that value is built as that one node, so the recorded trees
//! (sentinel value in place) are exactly what the Serializer was given.
//! Every call is made on two Serializers (independent random salts).  Panics are data.
use clvmr::allocator::{Allocator, NodePtr};
use clvmr::serde::{node_from_bytes_backrefs, Serializer, UndoState};
use serde_json::{json, Value};
use std::collections::HashMap;
use vh::gen::{atom_json, rand_tree};
use vh::*;

const SENT_BYTES: &[u8] = b"SENTINEL!!";

// ---------------------------------------------------------------------------
// JSON trees

fn is_atom(v: &Value) -> bool {
    v.get("a").is_some()
}
fn pair(f: Value, r: Value) -> Value {
    json!({"f": f, "r": r})
}
fn nil() -> Value {
    atom_json(&[])
}
fn count(v: &Value, s: &Value) -> usize {
    if v == s {
        1
    } else if is_atom(v) {
        0
    } else {
        count(&v["f"], s) + count(&v["r"], s)
    }
}
fn subst_first(p: &Value, s: &Value, t: &Value) -> Value {
    if p == s {
        t.clone()
    } else if is_atom(p) {
        p.clone()
    } else if count(&p["f"], s) > 0 {
        pair(subst_first(&p["f"], s, t), p["r"].clone())
    } else {
        pair(p["f"].clone(), subst_first(&p["r"], s, t))
    }
}
fn occurs(v: &Value, t: &Value) -> bool {
    v == t || (!is_atom(t) && (occurs(v, &t["f"]) || occurs(v, &t["r"])))
}
fn enc_atom(b: &[u8], out: &mut Vec<u8>) {
    let n = b.len();
    if n == 0 {
        out.push(0x80);
    } else if n == 1 && b[0] < 0x80 {
        out.push(b[0]);
    } else {
        if n < 0x40 {
            out.push(0x80 | n as u8);
        } else if n < 0x2000 {
            out.push(0xc0 | (n >> 8) as u8);
            out.push(n as u8);
        } else if n < 0x100000 {
            out.push(0xe0 | (n >> 16) as u8);
            out.push((n >> 8) as u8);
            out.push(n as u8);
        } else {
            out.push(0xf0 | (n >> 24) as u8);
            out.push((n >> 16) as u8);
            out.push((n >> 8) as u8);
            out.push(n as u8);
        }
        out.extend_from_slice(b);
    }
}
/// classic serialization of a JSON tree (independent of /repo's serializer)
fn encode(v: &Value, out: &mut Vec<u8>) {
    if is_atom(v) {
        enc_atom(&json_bytes(&v["a"]), out);
    } else {
        out.push(0xff);
        encode(&v["f"], out);
        encode(&v["r"], out);
    }
}
fn ser_len(v: &Value) -> usize {
    let mut o = Vec::new();
    encode(v, &mut o);
    o.len()
}
fn node_at<'a>(v: &'a Value, idx: &mut usize) -> Option<&'a Value> {
    if *idx == 0 {
        return Some(v);
    }
    *idx -= 1;
    if is_atom(v) {
        return None;
    }
    if let Some(x) = node_at(&v["f"], idx) {
        return Some(x);
    }
    node_at(&v["r"], idx)
}
/// replace the idx-th node (pre-order) of v
fn replace_at(v: &Value, idx: &mut i64, with: &Value) -> Value {
    if *idx == 0 {
        *idx = -1;
        return with.clone();
    }
    if *idx > 0 {
        *idx -= 1;
    }
    if is_atom(v) || *idx < 0 {
        return v.clone();
    }
    let f = replace_at(&v["f"], idx, with);
    let r = if *idx >= 0 { replace_at(&v["r"], idx, with) } else { v["r"].clone() };
    pair(f, r)
}
fn map_atoms(v: &Value, f: &mut dyn FnMut(&[u8]) -> Vec<u8>) -> Value {
    if is_atom(v) {
        atom_json(&f(&json_bytes(&v["a"])))
    } else {
        let a = map_atoms(&v["f"], f);
        let b = map_atoms(&v["r"], f);
        pair(a, b)
    }
}

// ---------------------------------------------------------------------------
// the history classes, on a plan (used ONLY to steer generation; verdict-side classification is TLC's)

struct Abs {
    ret: Vec<Value>,
    undone: Vec<Value>,
    added: Vec<Value>,
}
fn partial(ret: &[Value], s: &Value) -> Value {
    let mut p = s.clone();
    for t in ret {
        p = subst_first(&p, s, t);
    }
    p
}
fn simulate(plan: &Value) -> Abs {
    let mut st = Abs { ret: vec![], undone: vec![], added: vec![] };
    for c in plan["calls"].as_array().unwrap() {
        if c["op"] == "add" {
            st.ret.push(c["t"].clone());
            st.added.push(c["t"].clone());
        } else {
            let k = c["k"].as_u64().unwrap() as usize;
            let n = st.ret.len() - k;
            let tail: Vec<Value> = st.ret.drain(n..).collect();
            st.undone.extend(tail);
        }
    }
    st
}
fn shares_value(x: &Value, s: &Value, fin: &Value) -> bool {
    (count(x, s) == 0 && ser_len(x) >= 4 && occurs(x, fin))
        || (!is_atom(x) && x != s && (shares_value(&x["f"], s, fin) || shares_value(&x["r"], s, fin)))
}
fn f6a(plan: &Value) -> bool {
    let st = simulate(plan);
    let fin = partial(&st.ret, &plan["sent"]);
    st.undone.iter().any(|x| shares_value(x, &plan["sent"], &fin))
}
fn f6b(plan: &Value) -> bool {
    simulate(plan).added.iter().any(|t| count(t, &plan["sent"]) >= 2)
}

/// F6c: equal values share one allocator node (`reuse`) and some sentinel-bearing sub-tree value (other
/// than the sentinel itself) occurs at two or more positions of the added trees
fn f6c(plan: &Value) -> bool {
    if !plan["reuse"].as_bool().unwrap_or(false) {
        return false;
    }
    fn collect(v: &Value, s: &Value, seen: &mut std::collections::HashSet<String>, dup: &mut bool) {
        if v == s || is_atom(v) {
            return;
        }
        if count(v, s) >= 1 && !seen.insert(v.to_string()) {
            *dup = true;
        }
        collect(&v["f"], s, seen, dup);
        collect(&v["r"], s, seen, dup);
    }
    let mut seen = std::collections::HashSet::new();
    let mut dup = false;
    for t in simulate(plan).added.iter() {
        collect(t, &plan["sent"], &mut seen, &mut dup);
    }
    dup
}

// ---------------------------------------------------------------------------
// executing a plan on the real Serializer

struct Builder {
    a: Allocator,
    sent_val: Value,
    sent: NodePtr,
    memo: Option<HashMap<String, NodePtr>>,
}
impl Builder {
    fn new(sent_val: &Value, reuse: bool) -> Builder {
        let mut a = Allocator::new();
        let sent = json_tree(&mut a, sent_val).unwrap();
        Builder { a, sent_val: sent_val.clone(), sent, memo: if reuse { Some(HashMap::new()) } else { None } }
    }
    /// every JSON node gets its own allocator node (small atoms are inline values in NodePtr anyway);
    /// with `reuse`, equal sub-tree values of the whole history share one NodePtr
    fn build(&mut self, v: &Value) -> NodePtr {
        if *v == self.sent_val {
            return self.sent;
        }
        let key = if self.memo.is_some() { Some(v.to_string()) } else { None };
        if let (Some(m), Some(k)) = (&self.memo, &key) {
            if let Some(n) = m.get(k) {
                return *n;
            }
        }
        let n = if is_atom(v) {
            self.a.new_atom(&json_bytes(&v["a"])).unwrap()
        } else {
            let f = self.build(&v["f"]);
            let r = self.build(&v["r"]);
            self.a.new_pair(f, r).unwrap()
        };
        if let (Some(m), Some(k)) = (&mut self.memo, key) {
            m.insert(k, n);
        }
        n
    }
}

struct AddObs {
    done: Option<bool>,
    err: Option<String>,
    panic: Option<String>,
}

fn do_add(s: &mut Serializer, undo: &mut Vec<UndoState>, a: &Allocator, node: NodePtr) -> AddObs {
    match catch(|| s.add(a, node)) {
        Err(p) => AddObs { done: None, err: None, panic: Some(p) },
        Ok(Err(e)) => AddObs { done: None, err: Some(err_kind(&e).to_string()), panic: None },
        Ok(Ok((d, u))) => {
            undo.push(u);
            AddObs { done: Some(d), err: None, panic: None }
        }
    }
}

/// run one plan; returns the trace events of the history (inc_new .. inc_final)
fn exec(plan: &Value, h: u64) -> Vec<Value> {
    // plans may carry deep trees in the flat form (CONVENTIONS: nesting limit); work on nested values
    let mut plan = plan.clone();
    plan["sent"] = unflatten_tree(&plan["sent"]);
    for c in plan["calls"].as_array_mut().unwrap() {
        if c.get("t").is_some() {
            c["t"] = unflatten_tree(&c["t"]);
        }
    }
    let plan = &plan;
    let sent_val = plan["sent"].clone();
    let reuse = plan["reuse"].as_bool().unwrap_or(false);
    let mut b = Builder::new(&sent_val, reuse);
    let mut s1 = Serializer::new(Some(b.sent));
    let mut s2 = Serializer::new(Some(b.sent));
    let mut u1: Vec<UndoState> = Vec::new();
    let mut u2: Vec<UndoState> = Vec::new();
    let mut ev = Vec::new();
    ev.push(json!({"ev": "inc_new", "h": h, "sent": sent_val, "mode": plan["mode"], "reuse": reuse,
        "expect_clean": plan["expect_clean"].as_bool().unwrap_or(false),
        "sentinel": "by-unique-value"}));
    // `sentinel: by-unique-value`: the sentinel is the one node holding the value `sent`; that value occurs
    // nowhere else; trees are recorded with it in place.
    // Observed bytes are delta-encoded losslessly: inc_add carries `app` (the bytes appended to the previously
    // visible bytes) when get_ref() extends them, else the full `bytes`; inc_undo carries `keep` (length of the
    // prefix of the previously visible bytes that get_ref() now equals) or the full `bytes`; inc_final
    // carries `same` (into_inner()/get_ref() equal the visible bytes) / `same2` (second serializer's bytes equal
    // the first's) or the full `bytes` / `bytes2`.
    let mut vis: Vec<u8> = Vec::new();
    let mut done = false;
    let mut aborted = false;
    for c in plan["calls"].as_array().unwrap() {
        if c["op"] == "add" {
            let node = b.build(&c["t"]);
            let o1 = do_add(&mut s1, &mut u1, &b.a, node);
            let o2 = do_add(&mut s2, &mut u2, &b.a, node);
            let mut e = json!({"ev": "inc_add", "h": h, "t": c["t"]});
            if let Some(p) = &o1.panic {
                e["panic"] = json!(p);
            } else if let Some(p) = &o2.panic {
                e["panic"] = json!(format!("second serializer: {p}"));
            } else if let Some(k) = &o1.err {
                e["err"] = json!(k);
            } else if let Some(k) = &o2.err {
                e["err"] = json!(format!("second serializer: {k}"));
            } else {
                e["done"] = json!(o1.done.unwrap());
                e["done2"] = json!(o2.done.unwrap());
                let now = s1.get_ref().clone();
                if now.len() >= vis.len() && now[..vis.len()] == vis[..] {
                    e["app"] = bytes_json(&now[vis.len()..]);
                } else {
                    e["bytes"] = bytes_json(&now);
                }
                vis = now;
                e["size"] = json!(s1.size());
                e["size2"] = json!(s2.size());
                done = o1.done.unwrap();
            }
            let bad = e.get("done").is_none();
            ev.push(e);
            if bad {
                aborted = true;
                break;
            }
        } else {
            let k = c["k"].as_u64().unwrap() as usize;
            let n = u1.len() - k;
            let st1 = u1[n].clone();
            let st2 = u2[n].clone();
            u1.truncate(n);
            u2.truncate(n);
            let r = catch(|| {
                s1.restore(st1);
                s2.restore(st2);
            });
            let mut e = json!({"ev": "inc_undo", "h": h, "k": k});
            match r {
                Err(p) => {
                    e["panic"] = json!(p);
                    ev.push(e);
                    aborted = true;
                    break;
                }
                Ok(()) => {
                    let now = s1.get_ref().clone();
                    if now.len() <= vis.len() && vis[..now.len()] == now[..] {
                        e["keep"] = json!(now.len());
                    } else {
                        e["bytes"] = bytes_json(&now);
                    }
                    vis = now;
                    e["size"] = json!(s1.size());
                    e["size2"] = json!(s2.size());
                    ev.push(e);
                    done = false;
                }
            }
        }
    }
    let mut e = json!({"ev": "inc_final", "h": h, "complete": done && !aborted, "aborted": aborted});
    if !aborted {
        if done {
            let r = catch(move || (s1.into_inner(), s2.into_inner()));
            match r {
                Err(p) => {
                    e["panic"] = json!(p);
                }
                Ok((b1, b2)) => {
                    let d = catch(|| {
                        let mut a = Allocator::new();
                        node_from_bytes_backrefs(&mut a, &b1).map(|n| tree_json_nested(&a, n))
                    });
                    match d {
                        Err(p) => {
                            e["dec_ok"] = json!(false);
                            e["dec_panic"] = json!(p);
                        }
                        Ok(Err(k)) => {
                            e["dec_ok"] = json!(false);
                            e["dec_err"] = json!(err_kind(&k));
                        }
                        Ok(Ok(t)) => {
                            // the decoded tree, written as its classic serialization (this harness's own
                            // encoder; injective on trees) to keep the trace small
                            e["dec_ok"] = json!(true);
                            let mut c = Vec::new();
                            encode(&t, &mut c);
                            e["dec_classic"] = bytes_json(&c);
                        }
                    }
                    put_final_bytes(&mut e, &vis, &b1, &b2);
                }
            }
        } else {
            put_final_bytes(&mut e, &vis, s1.get_ref(), s2.get_ref());
        }
    }
    ev.push(e);
    ev
}

fn put_final_bytes(e: &mut Value, vis: &[u8], b1: &[u8], b2: &[u8]) {
    if b1 == vis {
        e["same"] = json!(true);
    } else {
        e["bytes"] = bytes_json(b1);
    }
    if b2 == b1 {
        e["same2"] = json!(true);
    } else {
        e["bytes2"] = bytes_json(b2);
    }
}

/// undo the delta encoding: the full visible bytes after each call event and the final bytes / bytes2
fn expand(ev: &[Value]) -> Vec<Value> {
    let mut vis: Vec<u8> = Vec::new();
    let mut out = Vec::new();
    for e in ev {
        let mut e = e.clone();
        match e["ev"].as_str().unwrap() {
            "inc_add" | "inc_undo" => {
                if e.get("app").is_some() {
                    vis.extend(json_bytes(&e["app"]));
                    e["bytes"] = bytes_json(&vis);
                } else if e.get("keep").is_some() {
                    vis.truncate(e["keep"].as_u64().unwrap() as usize);
                    e["bytes"] = bytes_json(&vis);
                } else if e.get("bytes").is_some() {
                    vis = json_bytes(&e["bytes"]);
                }
            }
            "inc_final" => {
                if e.get("same").is_some() {
                    e["bytes"] = bytes_json(&vis);
                }
                if e.get("same2").is_some() && e.get("bytes").is_some() {
                    e["bytes2"] = e["bytes"].clone();
                }
            }
            _ => {}
        }
        out.push(e);
    }
    out
}

// ---------------------------------------------------------------------------
// generators

struct Gen<'r> {
    r: &'r mut Rng,
    sent: Value,
    motifs: Vec<Value>,
    decoy_ctr: u8,
}

impl Gen<'_> {
    /// long atoms (>= 3 bytes, i.e. serialized length >= 4) get `marker` as their first byte
    fn mark(&self, t: &Value, marker: u8) -> Value {
        map_atoms(t, &mut |b: &[u8]| {
            let mut v = b.to_vec();
            if v.len() >= 3 {
                v[0] = marker;
            }
            v
        })
    }
    fn raw_tree(&mut self, budget: usize) -> Value {
        let share = *self.r.pick(&[0u64, 15, 40, 60]);
        let mut t = rand_tree(self.r, budget.max(1), 10, share);
        let n = self.r.below(3);
        for _ in 0..n {
            if !self.motifs.is_empty() && self.r.chance(2, 3) {
                let m = self.r.pick(&self.motifs).clone();
                let mut idx = self.r.below(tree_size(&t) as u64) as i64;
                t = replace_at(&t, &mut idx, &m);
            }
        }
        t
    }
    /// tree over the alphabet `marker` with `nsent` sentinel positions
    fn tree(&mut self, budget: usize, marker: u8, nsent: usize) -> Value {
        let t = self.raw_tree(budget);
        let t = self.mark(&t, marker);
        self.place(&t, nsent)
    }
    fn place(&mut self, t: &Value, nsent: usize) -> Value {
        let mut t = t.clone();
        for _ in 0..nsent {
            let mut placed = false;
            for _try in 0..8 {
                let i = self.r.below(tree_size(&t) as u64) as usize;
                let mut k = i;
                let sub = node_at(&t, &mut k).unwrap();
                // cut small sub-trees more often than big ones; never cut inside/at an existing sentinel
                if count(sub, &self.sent) == 0 && (tree_size(sub) <= 3 || self.r.chance(1, 2)) {
                    let mut idx = i as i64;
                    t = replace_at(&t, &mut idx, &self.sent);
                    placed = true;
                    break;
                }
            }
            if !placed {
                t = if self.r.chance(1, 2) { pair(self.sent.clone(), t) } else { pair(t, self.sent.clone()) };
            }
        }
        t
    }
    fn decoy_marker(&mut self) -> u8 {
        self.decoy_ctr = self.decoy_ctr.wrapping_add(1);
        0xd0 + (self.decoy_ctr % 32)
    }
    /// one tree cut into m pieces: piece i+1 is what was removed from piece i
    fn split(&mut self, m: usize, marker: u8) -> Vec<Value> {
        let whole = self.raw_tree(8 + 6 * m);
        let mut cur = self.mark(&whole, marker);
        let mut out = Vec::new();
        for _ in 1..m {
            let n = tree_size(&cur);
            // prefer cutting a sub-tree that is not tiny so that later pieces have content
            let mut best = 0usize;
            for _try in 0..6 {
                let i = self.r.below(n as u64) as usize;
                let mut k = i;
                let sz = tree_size(node_at(&cur, &mut k).unwrap());
                if sz >= 3 || self.r.chance(1, 3) {
                    best = i;
                    break;
                }
                best = i;
            }
            let mut k = best;
            let sub = node_at(&cur, &mut k).unwrap().clone();
            let mut idx = best as i64;
            out.push(replace_at(&cur, &mut idx, &self.sent));
            cur = sub;
        }
        out.push(cur);
        out
    }
}

fn add_call(t: &Value) -> Value {
    json!({"op": "add", "t": t})
}
fn undo_call(k: usize) -> Value {
    json!({"op": "undo", "k": k})
}

/// modes: clean (F6-free by construction + rejection), free, multi (repeated sentinels), chia, chia-clean
/// the sentinel value (and, for a pair-valued sentinel, its components) occurs only as the sentinel
fn sentinel_unique(plan: &Value) -> bool {
    fn clean(v: &Value, s: &Value) -> bool {
        if v == s {
            true
        } else if is_atom(v) {
            !json_bytes(&v["a"]).starts_with(b"SENTINEL")
        } else {
            clean(&v["f"], s) && clean(&v["r"], s)
        }
    }
    plan["calls"].as_array().unwrap().iter().all(|c| c.get("t").map(|t| clean(t, &plan["sent"])).unwrap_or(true))
}

fn gen_plan(r: &mut Rng, mode: &str, reuse: bool) -> Value {
    for _attempt in 0..40 {
        let p = gen_plan_once(r, mode, reuse);
        if !sentinel_unique(&p) {
            continue;
        }
        let clean = mode == "clean" || mode == "chia-clean";
        if !clean || (!f6a(&p) && !f6b(&p)) {
            return p;
        }
    }
    // fallback: a split history without undo (trivially in neither class)
    let sent = atom_json(SENT_BYTES);
    let mut g = Gen { r, sent: sent.clone(), motifs: vec![], decoy_ctr: 0 };
    let pieces = g.split(3, 0xa0);
    json!({"mode": mode, "sent": sent, "reuse": reuse, "expect_clean": true,
           "calls": pieces.iter().map(add_call).collect::<Vec<_>>()})
}

fn gen_plan_once(r: &mut Rng, mode: &str, reuse: bool) -> Value {
    let sent = if r.chance(1, 5) {
        pair(atom_json(SENT_BYTES), atom_json(SENT_BYTES))
    } else {
        atom_json(SENT_BYTES)
    };
    let clean = mode == "clean" || mode == "chia-clean";
    let mut g = Gen { r, sent: sent.clone(), motifs: vec![], decoy_ctr: 0 };
    // motifs: a few sub-tree values (most of serialized length >= 4) that recur across additions
    let nm = g.r.below(5) as usize;
    for _ in 0..nm {
        let b = g.r.range(1, 7) as usize;
        let share = *g.r.pick(&[0u64, 30]);
        let m = rand_tree(g.r, b, 10, share);
        g.motifs.push(g.mark(&m, 0xa0));
    }
    let mut calls: Vec<Value> = Vec::new();
    if mode == "chia" || mode == "chia-clean" {
        // chia_rs BlockBuilder style: add((item . sentinel)) ... ; a rejected item is undone; nil terminates
        let ni = g.r.range(2, 6) as usize;
        let mut items: Vec<Value> = Vec::new();
        for _ in 0..ni {
            let b = g.r.range(3, 16) as usize;
            let it = g.raw_tree(b);
            items.push(g.mark(&it, 0xa0));
        }
        let n = g.r.range(1, 7);
        let mut retained = 0usize;
        for _ in 0..n {
            let it = g.r.pick(&items).clone();
            if g.r.chance(2, 5) {
                // an item that turns out not to fit: add, undo
                let rejected = if clean {
                    let b = g.r.range(3, 16) as usize;
                    let m = g.decoy_marker();
                    let t = g.raw_tree(b);
                    g.mark(&t, m)
                } else if g.r.chance(1, 2) {
                    it.clone()
                } else {
                    g.r.pick(&items).clone()
                };
                calls.push(add_call(&pair(rejected, sent.clone())));
                calls.push(undo_call(1));
                if g.r.chance(1, 3) {
                    break;
                }
            }
            calls.push(add_call(&pair(it, sent.clone())));
            retained += 1;
            if !clean && retained >= 2 && g.r.chance(1, 8) {
                let k = g.r.range(1, retained as i64) as usize;
                calls.push(undo_call(k));
                retained -= k;
            }
        }
        calls.push(add_call(&nil()));
        if g.r.chance(1, 6) {
            // reopen the finished list and terminate it differently
            calls.push(undo_call(1));
            let t = if clean { atom_json(&[0xd0, 1, 2, 3]) } else { g.r.pick(&items).clone() };
            calls.push(add_call(&t));
        }
        return json!({"mode": mode, "sent": sent, "reuse": reuse, "expect_clean": clean, "calls": calls});
    }

    let multi = mode == "multi";
    let maxcalls = g.r.range(1, 10) as usize;
    let pd = *g.r.pick(&[0u64, 20, 40, 60]); // detour probability (percent)
    let use_split = !multi && g.r.chance(1, 2);
    let mut epoch: u8 = 0;
    let mut todo: Vec<Value> = if use_split {
        let m = g.r.range(1, 6) as usize;
        g.split(m, 0xa0)
    } else {
        vec![]
    };
    todo.reverse(); // pop() takes the next true piece
    let mut ret: Vec<Value> = Vec::new();
    let mut ghost: Vec<Value> = Vec::new();
    let open = |ret: &Vec<Value>, s: &Value| count(&partial(ret, s), s);
    let mut guard = 0;
    loop {
        guard += 1;
        let finishing = calls.len() >= maxcalls || guard > 40;
        let o = open(&ret, &sent);
        if o == 0 {
            // complete: sometimes reopen
            if !finishing && !ret.is_empty() && g.r.chance(1, 4) {
                let k = g.r.range(1, ret.len().min(3) as i64) as usize;
                calls.push(undo_call(k));
                let n = ret.len() - k;
                let tail: Vec<Value> = ret.drain(n..).collect();
                if use_split {
                    for t in tail.into_iter().rev() {
                        todo.push(t);
                    }
                } else {
                    epoch += 1;
                }
                continue;
            }
            break;
        }
        if !finishing && g.r.chance(pd, 100) {
            // detour: 1..3 additions that are taken back
            let nd = g.r.range(1, 3) as usize;
            let mut made = 0usize;
            for _ in 0..nd {
                if open(&ret, &sent) == 0 {
                    break;
                }
                let next_true = todo.last().cloned();
                let t = if clean {
                    let m = g.decoy_marker();
                    let b = g.r.range(1, 18) as usize;
                    let ns = if g.r.chance(3, 4) { 1 } else { 0 };
                    g.tree(b, m, ns)
                } else {
                    match g.r.below(8) {
                        6 | 7 if !ret.is_empty() => {
                            // a tree that carries sub-tree values of what has been retained so far
                            let b = g.r.range(2, 14) as usize;
                            let mut t = g.tree(b, 0xa0 + epoch, 0);
                            for _ in 0..g.r.range(1, 3) {
                                let src = g.r.pick(&ret).clone();
                                let mut k = g.r.below(tree_size(&src) as u64) as usize;
                                let sub = node_at(&src, &mut k).unwrap().clone();
                                if count(&sub, &sent) == 0 {
                                    let mut idx = g.r.below(tree_size(&t) as u64) as i64;
                                    t = replace_at(&t, &mut idx, &sub);
                                }
                            }
                            g.place(&t, 1)
                        }
                        4 | 5 if next_true.is_some() => {
                            // the next addition with the children of some pairs swapped: same values, other places
                            let mut t = next_true.unwrap();
                            for _ in 0..g.r.range(1, 3) {
                                let i = g.r.below(tree_size(&t) as u64) as usize;
                                let mut k = i;
                                let sub = node_at(&t, &mut k).unwrap().clone();
                                if !is_atom(&sub) && sub != sent {
                                    let sw = pair(sub["r"].clone(), sub["f"].clone());
                                    let mut idx = i as i64;
                                    t = replace_at(&t, &mut idx, &sw);
                                }
                            }
                            t
                        }
                        0 if next_true.is_some() => next_true.unwrap(), // the same addition again later
                        1 if next_true.is_some() => {
                            // a slightly different addition
                            let nt = next_true.unwrap();
                            let mut idx = g.r.below(tree_size(&nt) as u64) as i64;
                            let repl = if g.r.chance(1, 2) { atom_json(&g.r.bytes(4)) } else { sent.clone() };
                            let t = replace_at(&nt, &mut idx, &repl);
                            if !multi && count(&t, &sent) > 1 { nt } else { t }
                        }
                        2 => {
                            let m = g.decoy_marker();
                            let b = g.r.range(1, 18) as usize;
                            g.tree(b, m, 1)
                        }
                        _ => {
                            let b = g.r.range(1, 18) as usize;
                            let ns = if multi { g.r.below(4) as usize } else { g.r.below(2) as usize };
                            g.tree(b, 0xa0 + epoch, ns)
                        }
                    }
                };
                calls.push(add_call(&t));
                ret.push(t);
                made += 1;
            }
            // take them back: one restore across all, one by one, or even deeper
            let deeper = if !clean || !use_split {
                if g.r.chance(1, 6) && ret.len() > made { g.r.range(1, (ret.len() - made).min(2) as i64) as usize } else { 0 }
            } else {
                0
            };
            let total = made + deeper;
            if g.r.chance(1, 2) {
                calls.push(undo_call(total));
            } else {
                for _ in 0..total {
                    calls.push(undo_call(1));
                }
            }
            let n = ret.len() - total;
            let tail: Vec<Value> = ret.drain(n..).collect();
            if deeper > 0 {
                if use_split {
                    for t in tail.clone().into_iter().rev().skip(made) {
                        todo.push(t);
                    }
                } else {
                    epoch += 1;
                }
            }
            if !clean {
                // remember sub-tree values of what was taken back: later additions may carry them again
                for t in &tail {
                    for _ in 0..2 {
                        let mut k = g.r.below(tree_size(t) as u64) as usize;
                        let sub = node_at(t, &mut k).unwrap();
                        if count(sub, &sent) == 0 && ser_len(sub) >= 4 && ghost.len() < 8 {
                            ghost.push(sub.clone());
                        }
                    }
                }
            }
            continue;
        }
        // next true piece
        let t = if let Some(t) = todo.pop() {
            t
        } else {
            let b = g.r.range(1, 20) as usize;
            let ns = if finishing {
                0
            } else if multi {
                *g.r.pick(&[0usize, 1, 1, 2, 2, 3])
            } else if g.r.chance(1, 5) {
                0
            } else {
                1
            };
            let ns = if multi && o + ns > 4 { 0 } else { ns };
            let t = g.tree(b, 0xa0 + epoch, ns);
            if !clean && !ghost.is_empty() && g.r.chance(1, 2) {
                // content that follows the sentinel position and repeats a value of a taken-back addition
                let v = g.r.pick(&ghost).clone();
                match g.r.below(3) {
                    0 => pair(t, v),
                    1 => pair(t, pair(v, atom_json(&g.r.bytes(2)))),
                    _ => {
                        let mut idx = g.r.below(tree_size(&t) as u64) as i64;
                        let t2 = replace_at(&t, &mut idx, &v);
                        if count(&t2, &sent) == ns { t2 } else { pair(t, v) }
                    }
                }
            } else {
                t
            }
        };
        calls.push(add_call(&t));
        ret.push(t);
    }
    json!({"mode": mode, "sent": sent, "reuse": reuse, "expect_clean": clean, "calls": calls})
}

fn pick_mode(r: &mut Rng) -> &'static str {
    match r.below(20) {
        0..=7 => "clean",
        8..=12 => "free",
        13..=14 => "multi",
        15..=16 => "chia",
        _ => "chia-clean",
    }
}

// ---------------------------------------------------------------------------
// checking a history in Rust (replay of TLC cases, probe)

/// (clause, call index) of the first failing clause of C19 in the recorded events, given the plan
fn check_events(plan: &Value, ev: &[Value]) -> Option<(String, usize)> {
    let ev = &expand(ev)[..];
    let sent = &plan["sent"];
    let mut ret: Vec<Value> = Vec::new();
    let mut snaps: Vec<Vec<u8>> = Vec::new();
    let mut cur: Vec<u8> = Vec::new();
    for (i, e) in ev.iter().enumerate() {
        match e["ev"].as_str().unwrap() {
            "inc_add" => {
                if e.get("done").is_none() {
                    return Some(("add-fails".into(), i));
                }
                snaps.push(cur.clone());
                ret.push(e["t"].clone());
                cur = json_bytes(&e["bytes"]);
                let exp_done = count(&partial(&ret, sent), sent) == 0;
                if e["done"].as_bool().unwrap() != exp_done || e["done2"] != e["done"] {
                    return Some(("done".into(), i));
                }
                if e["size"].as_u64().unwrap() as usize != cur.len() {
                    return Some(("size".into(), i));
                }
                if e["size2"] != e["size"] {
                    return Some(("salt".into(), i));
                }
            }
            "inc_undo" => {
                if e.get("bytes").is_none() {
                    return Some(("undo-fails".into(), i));
                }
                let k = e["k"].as_u64().unwrap() as usize;
                let n = ret.len() - k;
                let exp = snaps[n].clone();
                ret.truncate(n);
                snaps.truncate(n);
                cur = json_bytes(&e["bytes"]);
                if cur != exp || e["size"].as_u64().unwrap() as usize != cur.len() {
                    return Some(("undo".into(), i));
                }
                if e["size2"] != e["size"] {
                    return Some(("salt".into(), i));
                }
            }
            "inc_final" => {
                if e["aborted"].as_bool().unwrap() {
                    return Some(("aborted".into(), i));
                }
                if e.get("bytes").is_none() {
                    return Some(("final-fails".into(), i));
                }
                if e["bytes"] != e["bytes2"] {
                    return Some(("salt".into(), i));
                }
                if e["complete"].as_bool().unwrap() {
                    let mut want = Vec::new();
                    encode(&partial(&ret, sent), &mut want);
                    if !e["dec_ok"].as_bool().unwrap() || json_bytes(&e["dec_classic"]) != want {
                        return Some(("final".into(), i));
                    }
                }
            }
            _ => {}
        }
    }
    None
}

fn main() {
    let args: Vec<String> = std::env::args().collect();
    let cmd = args.get(1).map(|s| s.as_str()).unwrap_or("");
    // panics are caught per call; keep stderr quiet
    std::panic::set_hook(Box::new(|_| {}));
    let mut out = Out::create(&arg(&args, "--out").unwrap_or("-".into()));
    match cmd {
        "replay" => {
            let lines = read_ndjson(&arg(&args, "--in").unwrap());
            let uni = lines[0]["universe"].as_array().unwrap().clone();
            let sent = lines[0]["sent"].clone();
            let reuse = arg_u64(&args, "--reuse", 0) == 1;
            let mut n = 0u64;
            for c in &lines[1..] {
                n += 1;
                let codes: Vec<i64> = c["c"].as_array().unwrap().iter().map(|x| x.as_i64().unwrap()).collect();
                let calls: Vec<Value> = codes
                    .iter()
                    .map(|x| if *x > 0 { add_call(&uni[(*x - 1) as usize]) } else { undo_call((-*x) as usize) })
                    .collect();
                let plan = json!({"mode": "mc", "sent": sent, "reuse": reuse, "calls": calls});
                let ev = expand(&exec(&plan, n));
                // compare with what the specification assigns
                let mut bad: Option<(String, usize)> = None;
                let mut before: Vec<Vec<u8>> = Vec::new(); // bytes before call i (1-based i-1)
                let mut cur: Vec<u8> = Vec::new();
                for (i, e) in ev[1..ev.len() - 1].iter().enumerate() {
                    before.push(cur.clone());
                    if e.get("bytes").is_none() {
                        bad = Some(("call-fails".into(), i + 1));
                        break;
                    }
                    cur = json_bytes(&e["bytes"]);
                    if e["size"].as_u64().unwrap() as usize != cur.len() {
                        bad = Some(("size".into(), i + 1));
                        break;
                    }
                    if e["size2"] != e["size"] {
                        bad = Some(("salt".into(), i + 1));
                        break;
                    }
                    if e["ev"] == "inc_add" {
                        let exp = c["d"][i].as_u64().unwrap() == 1;
                        if e["done"].as_bool().unwrap() != exp || e["done2"].as_bool().unwrap() != exp {
                            bad = Some(("done".into(), i + 1));
                            break;
                        }
                    } else {
                        let j = c["ub"][i].as_u64().unwrap() as usize;
                        if cur != before[j - 1] {
                            bad = Some(("undo".into(), i + 1));
                            break;
                        }
                    }
                }
                let fin = &ev[ev.len() - 1];
                if bad.is_none() {
                    if ev.len() - 2 != codes.len() || fin.get("bytes").is_none() {
                        bad = Some(("final-fails".into(), codes.len()));
                    } else if fin["bytes"] != fin["bytes2"] {
                        bad = Some(("salt".into(), codes.len()));
                    } else if fin["complete"].as_bool().unwrap() != c.get("fin").is_some() {
                        bad = Some(("done".into(), codes.len()));
                    } else if c.get("fin").is_some() {
                        if !fin["dec_ok"].as_bool().unwrap() || json_bytes(&fin["dec_classic"]) != json_bytes(&c["fin"]) {
                            bad = Some(("final".into(), codes.len()));
                        }
                    }
                }
                if let Some((clause, at)) = bad {
                    out.emit(&json!({"case": c, "clause": clause, "at": at, "plan": plan, "final": fin}));
                }
            }
            out.emit(&json!({"done": n}));
        }
        "record" | "probe" => {
            let seed = arg_u64(&args, "--seed", 1);
            let mut r = Rng::new(seed);
            let n = arg_u64(&args, "--n", 1000);
            let fixed = arg(&args, "--mode");
            let reuse_pct = arg_u64(&args, "--reuse", 0);
            let mut stats: HashMap<String, u64> = HashMap::new();
            for h in 0..n {
                let mode: String = match &fixed {
                    Some(m) => m.clone(),
                    None => pick_mode(&mut r).to_string(),
                };
                let reuse = r.chance(reuse_pct, 100);
                let plan = gen_plan(&mut r, &mode, reuse);
                let ev = exec(&plan, h + 1);
                if cmd == "record" {
                    for e in &ev {
                        out.emit(e);
                    }
                } else {
                    let cls = if f6b(&plan) { "F6b" } else if f6a(&plan) { "F6a" } else if f6c(&plan) { "F6c" } else { "none" };
                    let res = check_events(&plan, &ev);
                    let key = format!("{} reuse={} class={} {}", mode, reuse, cls,
                        match &res { None => "ok".to_string(), Some((c, _)) => format!("FAIL:{c}") });
                    *stats.entry(key).or_insert(0) += 1;
                    if let Some((c, _)) = &res {
                        if cls == "none" {
                            out.emit(&json!({"outside": c, "plan": plan, "events": ev}));
                        } else if arg(&args, "--dump").as_deref() == Some(cls) {
                            out.emit(&json!({"outside": c, "cls": cls, "plan": plan, "events": ev}));
                        }
                    }
                }
            }
            if cmd == "probe" {
                let mut keys: Vec<_> = stats.into_iter().collect();
                keys.sort();
                for (k, v) in keys {
                    out.emit(&json!({"stat": k, "n": v}));
                }
            }
        }
        "run" => {
            let plans = read_ndjson(&arg(&args, "--in").unwrap());
            for (h, p) in plans.iter().enumerate() {
                for e in exec(p, h as u64 + 1) {
                    out.emit(&e);
                }
            }
        }
        _ => {
            eprintln!("usage: incser replay|record|run|probe ...");
            std::process::exit(2);
        }
    }
    out.flush();
}
