//! C20 engine: serde_2026 (serialize_2026 / deserialize_2026 / serialized_length_serde_2026)
//! and the classic decoders on MAGIC-prefixed blobs.
//!   serde2026 replay --in <cases.ndjson> --out <mismatches.ndjson>    spec -> impl
//!   serde2026 record --seed S --n N --out <trace.ndjson>              impl -> spec
//!   serde2026 rerun  --in <events.ndjson> --out <trace.ndjson>        re-execute recorded inputs
//!
//! Events (one JSON object per line):
//!   ser   {tree (flat form, shared), src, level (LE digits), ok, blob | panic}
//!   de    {blob, strict, max (LE digits), ok, nodes (LE digits), [tree], used, same, probe:{ok,len} | panic}
//!   len   {blob, strict, max, ok, len | panic}
//!   magic {blob, res:{name: "ok"|"err"|"panic"}}
//! max_atom_len for the decoder stays within {0,1,2,63,64,2^20}: the decoder pre-allocates the
//! declared atom length by documented caller contract.
use clvmr::allocator::{Allocator, NodePtr, SExp};
use clvmr::serde::{
    is_canonical_serialization, node_from_bytes, node_from_bytes_backrefs, node_from_bytes_backrefs_old, parse_triples,
    serialized_length_from_bytes, serialized_length_from_bytes_trusted, tree_hash_from_stream,
};
use clvmr::serde_2026::{
    deserialize_2026, deserialize_2026_body_from_stream, deserialize_2026_from_stream, serialize_2026, serialize_2026_to_stream,
    serialized_length_serde_2026,
};
use serde_json::{json, Value};
use std::collections::HashMap;
use std::io::Cursor;
use vh::*;

const MAGIC: [u8; 6] = [0xfd, 0xff, b'2', b'0', b'2', b'6'];
const BIG: usize = 1 << 20;
const TREE_CAP: u128 = 3000; // expanded nodes written to a trace

// ---------------------------------------------------------------------------
// trees as DAGs (children before parents, root last)

#[derive(Clone)]
enum DN {
    A(Vec<u8>),
    P(usize, usize),
}

#[derive(Clone)]
struct Dag(Vec<DN>);

impl Dag {
    fn expanded(&self) -> u128 {
        let mut sz: Vec<u128> = Vec::with_capacity(self.0.len());
        for n in &self.0 {
            sz.push(match n {
                DN::A(_) => 1,
                DN::P(i, j) => sz[*i].saturating_add(sz[*j]).saturating_add(1),
            });
        }
        *sz.last().unwrap()
    }
    /// flat JSON form with sharing: {"t":[{"a":..}|{"p":[i,j]}]}, 1-based, root last
    fn json(&self) -> Value {
        let tab: Vec<Value> = self
            .0
            .iter()
            .map(|n| match n {
                DN::A(b) => json!({"a": bytes_json(b)}),
                DN::P(i, j) => json!({"p": [i + 1, j + 1]}),
            })
            .collect();
        json!({"t": tab})
    }
    /// allocate with NodePtr sharing (shared = true) or one allocation per occurrence
    fn build(&self, a: &mut Allocator, shared: bool) -> NodePtr {
        if shared {
            let mut v: Vec<NodePtr> = Vec::with_capacity(self.0.len());
            for n in &self.0 {
                v.push(match n {
                    DN::A(b) => a.new_atom(b).unwrap(),
                    DN::P(i, j) => a.new_pair(v[*i], v[*j]).unwrap(),
                });
            }
            *v.last().unwrap()
        } else {
            // expanded: iterative
            enum Op {
                V(usize),
                B,
            }
            let mut ops = vec![Op::V(self.0.len() - 1)];
            let mut vals: Vec<NodePtr> = Vec::new();
            while let Some(op) = ops.pop() {
                match op {
                    Op::V(i) => match &self.0[i] {
                        DN::A(b) => vals.push(a.new_atom(b).unwrap()),
                        DN::P(l, r) => {
                            ops.push(Op::B);
                            ops.push(Op::V(*r));
                            ops.push(Op::V(*l));
                        }
                    },
                    Op::B => {
                        let r = vals.pop().unwrap();
                        let l = vals.pop().unwrap();
                        vals.push(a.new_pair(l, r).unwrap());
                    }
                }
            }
            vals.pop().unwrap()
        }
    }
}

/// allocator tree -> (flat JSON with sharing, expanded node count); iterative, memo on NodePtr
fn flat_of(a: &Allocator, root: NodePtr, want_json: bool) -> (Option<Value>, u128) {
    let mut idx: HashMap<NodePtr, usize> = HashMap::new();
    let mut size: Vec<u128> = Vec::new();
    let mut tab: Vec<Value> = Vec::new();
    let mut st = vec![(root, false)];
    while let Some((n, ready)) = st.pop() {
        if idx.contains_key(&n) {
            continue;
        }
        match a.sexp(n) {
            SExp::Atom => {
                idx.insert(n, size.len());
                size.push(1);
                if want_json {
                    tab.push(json!({"a": bytes_json(a.atom(n).as_ref())}));
                }
            }
            SExp::Pair(f, r) => {
                if ready {
                    let (i, j) = (idx[&f], idx[&r]);
                    idx.insert(n, size.len());
                    size.push(size[i].saturating_add(size[j]).saturating_add(1));
                    if want_json {
                        tab.push(json!({"p": [i + 1, j + 1]}));
                    }
                } else {
                    st.push((n, true));
                    if !idx.contains_key(&r) {
                        st.push((r, false));
                    }
                    if !idx.contains_key(&f) {
                        st.push((f, false));
                    }
                }
            }
        }
    }
    let total = size[idx[&root]];
    (if want_json { Some(json!({"t": tab})) } else { None }, total)
}

/// structural equality of two trees in two allocators (iterative; memo on pointer pairs)
fn tree_eq(a1: &Allocator, n1: NodePtr, a2: &Allocator, n2: NodePtr) -> bool {
    let mut seen: std::collections::HashSet<(NodePtr, NodePtr)> = Default::default();
    let mut st = vec![(n1, n2)];
    while let Some((x, y)) = st.pop() {
        if !seen.insert((x, y)) {
            continue;
        }
        match (a1.sexp(x), a2.sexp(y)) {
            (SExp::Atom, SExp::Atom) => {
                if a1.atom(x).as_ref() != a2.atom(y).as_ref() {
                    return false;
                }
            }
            (SExp::Pair(f1, r1), SExp::Pair(f2, r2)) => {
                st.push((f1, f2));
                st.push((r1, r2));
            }
            _ => return false,
        }
    }
    true
}

// ---------------------------------------------------------------------------
// allocator pool: Allocator::new() reserves 1 MiB (an mmap per call); decoding into a pooled
// allocator that is restored to its initial checkpoint afterwards is observably the same.

thread_local! {
    static POOL: std::cell::RefCell<Vec<(Allocator, clvmr::allocator::Checkpoint)>> = std::cell::RefCell::new(Vec::new());
}

struct Pooled(Option<(Allocator, clvmr::allocator::Checkpoint)>);

impl Pooled {
    fn get() -> Pooled {
        let got = POOL.with(|p| p.borrow_mut().pop());
        Pooled(Some(got.unwrap_or_else(|| {
            let a = Allocator::new();
            let cp = a.checkpoint();
            (a, cp)
        })))
    }
    fn a(&mut self) -> &mut Allocator {
        &mut self.0.as_mut().unwrap().0
    }
    fn r(&self) -> &Allocator {
        &self.0.as_ref().unwrap().0
    }
}

impl Drop for Pooled {
    fn drop(&mut self) {
        if std::thread::panicking() {
            return; // an allocator that saw a panic is not reused
        }
        if let Some((mut a, cp)) = self.0.take() {
            a.restore_checkpoint(&cp);
            POOL.with(|p| p.borrow_mut().push((a, cp)));
        }
    }
}

// ---------------------------------------------------------------------------
// the calls under test

struct DeObs {
    ok: bool,
    tree: Option<Value>,
    nodes: u128,
    used: u64,
    same: bool,
}

fn de_call(blob: &[u8], max: usize, strict: bool, want_tree: bool) -> Result<DeObs, String> {
    catch(|| {
        // stream entry point: gives the number of bytes consumed
        let mut p1 = Pooled::get();
        let mut c = Cursor::new(blob);
        let r1 = deserialize_2026_from_stream(p1.a(), &mut c, max, strict);
        let used = c.position();
        // slice entry point
        let mut p2 = Pooled::get();
        let r2 = deserialize_2026(p2.a(), blob, max, strict);
        // body entry point (prefix stripped by the caller)
        let mut p3 = Pooled::get();
        let r3 = if blob.len() >= 6 && blob[..6] == MAGIC {
            let mut cb = Cursor::new(&blob[6..]);
            let r = deserialize_2026_body_from_stream(p3.a(), &mut cb, max, strict);
            Some((r, cb.position() + 6))
        } else {
            None
        };
        match r1 {
            Ok(n1) => {
                let mut same = match r2 {
                    Ok(n2) => tree_eq(p1.r(), n1, p2.r(), n2),
                    Err(_) => false,
                };
                same = same
                    && match r3 {
                        Some((Ok(n3), u3)) => u3 == used && tree_eq(p1.r(), n1, p3.r(), n3),
                        _ => false,
                    };
                let (_, nodes) = flat_of(p1.r(), n1, false);
                let tree = if want_tree && nodes <= TREE_CAP {
                    flat_of(p1.r(), n1, true).0
                } else {
                    None
                };
                DeObs {
                    ok: true,
                    tree,
                    nodes,
                    used,
                    same,
                }
            }
            Err(_) => {
                let same = r2.is_err() && !matches!(r3, Some((Ok(_), _)));
                DeObs {
                    ok: false,
                    tree: None,
                    nodes: 0,
                    used: 0,
                    same,
                }
            }
        }
    })
}

fn probe_call(blob: &[u8], max: usize, strict: bool) -> Result<Option<u64>, String> {
    catch(|| serialized_length_serde_2026(blob, max, strict).ok())
}

fn probe_json(p: &Result<Option<u64>, String>) -> Value {
    match p {
        Err(m) => json!({"panic": m}),
        Ok(None) => json!({"ok": false, "len": 0}),
        Ok(Some(n)) => json!({"ok": true, "len": n}),
    }
}

fn ser_call(d: &Dag, shared: bool, level: u32) -> Result<Option<Vec<u8>>, String> {
    catch(|| {
        let mut a = Allocator::new();
        let n = d.build(&mut a, shared);
        let r = serialize_2026(&a, n, level).ok();
        // the stream entry point must write the same bytes
        let mut w: Vec<u8> = Vec::new();
        let r2 = serialize_2026_to_stream(&a, n, level, &mut w).ok().map(|_| w);
        if r != r2 {
            panic!("serialize_2026 and serialize_2026_to_stream disagree");
        }
        r
    })
}

fn classic_results(blob: &[u8]) -> Value {
    fn tag<T>(r: Result<Result<T, ()>, String>) -> &'static str {
        match r {
            Err(_) => "panic",
            Ok(Ok(_)) => "ok",
            Ok(Err(_)) => "err",
        }
    }
    json!({
        "node_from_bytes": tag(catch(|| { let mut a = Pooled::get(); node_from_bytes(a.a(), blob).map(|_| ()).map_err(|_| ()) })),
        "node_from_bytes_backrefs": tag(catch(|| { let mut a = Pooled::get(); node_from_bytes_backrefs(a.a(), blob).map(|_| ()).map_err(|_| ()) })),
        "node_from_bytes_backrefs_old": tag(catch(|| { let mut a = Pooled::get(); node_from_bytes_backrefs_old(a.a(), blob).map(|_| ()).map_err(|_| ()) })),
        "serialized_length_from_bytes": tag(catch(|| serialized_length_from_bytes(blob).map(|_| ()).map_err(|_| ()))),
        "serialized_length_from_bytes_trusted": tag(catch(|| serialized_length_from_bytes_trusted(blob).map(|_| ()).map_err(|_| ()))),
        "parse_triples": tag(catch(|| { let mut c = Cursor::new(blob); parse_triples(&mut c, false).map(|_| ()).map_err(|_| ()) })),
        "parse_triples_hashes": tag(catch(|| { let mut c = Cursor::new(blob); parse_triples(&mut c, true).map(|_| ()).map_err(|_| ()) })),
        "tree_hash_from_stream": tag(catch(|| { let mut c = Cursor::new(blob); tree_hash_from_stream(&mut c).map(|_| ()).map_err(|_| ()) })),
        "is_canonical_serialization": tag(catch(|| if is_canonical_serialization(blob) { Ok(()) } else { Err(()) })),
    })
}

// ---------------------------------------------------------------------------
// generators

fn enc_width(v: i64, k: usize) -> Vec<u8> {
    // k-byte varint of v (v must fit 7k bits two's complement)
    let bits = 7 * k as u32;
    let u: u64 = if v < 0 { (v + (1i64 << bits)) as u64 } else { v as u64 };
    let pre: u8 = if k == 1 { 0 } else { (0xffu16 << (9 - k)) as u8 };
    let mut out = vec![pre | (u >> (8 * (k - 1))) as u8];
    for i in (0..k - 1).rev() {
        out.push((u >> (8 * i)) as u8);
    }
    out
}

fn min_width(v: i64) -> usize {
    for k in 1..=8usize {
        let b = 7 * k as u32 - 1;
        if v >= -(1i64 << b) && v <= (1i64 << b) - 1 {
            return k;
        }
    }
    8
}

/// varint of v, minimal unless `wide` (then one or two bytes longer, max 8)
fn venc(r: &mut Rng, v: i64, wide: bool) -> Vec<u8> {
    let k = min_width(v);
    if wide && k < 8 {
        enc_width(v, (k + 1 + r.below(2) as usize).min(8))
    } else {
        enc_width(v, k)
    }
}

fn rand_atom(r: &mut Rng) -> Vec<u8> {
    match r.below(12) {
        0 => vec![],
        1..=4 => vec![r.below(4) as u8 + 1],
        5..=6 => vec![r.below(3) as u8, r.below(3) as u8],
        7 => r.bytes(3),
        8 => gen::rand_atom_bytes(r, 40),
        9 => {
            let n = *r.pick(&[32usize, 48, 63, 64, 65]);
            r.bytes(n)
        }
        _ => {
            let n = r.below(6) as usize;
            r.bytes(n)
        }
    }
}

fn gen_dag_rec(r: &mut Rng, nodes: &mut Vec<DN>, left: &mut i64, share: u64, depth: usize) -> usize {
    *left -= 1;
    if !nodes.is_empty() && r.chance(share, 100) {
        return r.below(nodes.len() as u64) as usize;
    }
    if *left <= 1 || depth > 40 || r.chance(35, 100) {
        nodes.push(DN::A(rand_atom(r)));
    } else {
        let f = gen_dag_rec(r, nodes, left, share, depth + 1);
        let rr = gen_dag_rec(r, nodes, left, share, depth + 1);
        nodes.push(DN::P(f, rr));
    }
    nodes.len() - 1
}

fn gen_dag(r: &mut Rng, budget: usize, share: u64) -> Dag {
    loop {
        let mut nodes = Vec::new();
        let mut left = budget as i64;
        let root = gen_dag_rec(r, &mut nodes, &mut left, share, 0);
        nodes.truncate(root + 1);
        if root + 1 != nodes.len() {
            continue;
        }
        let d = Dag(nodes);
        if d.expanded() <= TREE_CAP {
            return d;
        }
    }
}

fn list_dag(items: Vec<Vec<u8>>, term: Vec<u8>) -> Dag {
    let mut n = vec![DN::A(term)];
    let mut tail = 0usize;
    for it in items.into_iter().rev() {
        n.push(DN::A(it));
        let a = n.len() - 1;
        n.push(DN::P(a, tail));
        tail = n.len() - 1;
    }
    Dag(n)
}

/// shaped trees: long lists over small pools, doubling trees, many distinct atoms, long atoms
fn shaped_dag(r: &mut Rng, big: bool) -> Dag {
    match r.below(8) {
        0 => {
            // list over a small pool with skewed frequencies (exercises the sort keys)
            let pool: Vec<Vec<u8>> = (0..(2 + r.below(8))).map(|_| rand_atom(r)).collect();
            let n = if big { 100 + r.below(900) } else { 3 + r.below(40) } as usize;
            let items = (0..n)
                .map(|_| {
                    let k = (r.below(pool.len() as u64) * r.below(pool.len() as u64 + 1) / pool.len() as u64) as usize;
                    pool[k.min(pool.len() - 1)].clone()
                })
                .collect();
            list_dag(items, vec![])
        }
        1 => {
            // doubling: x_{i+1} = (x_i . x_i)
            let d = 1 + r.below(if big { 10 } else { 6 }) as usize;
            let mut n = vec![DN::A(rand_atom(r))];
            for i in 0..d {
                n.push(DN::P(i, i));
            }
            Dag(n)
        }
        2 => {
            // many distinct atoms of few lengths: multi-atom groups with counts and indices >= 62
            let n = if big { 60 + r.below(140) } else { 2 + r.below(30) } as usize;
            let lens = [1usize, 2, 3, 5];
            let items = (0..n)
                .map(|i| {
                    let l = lens[r.below(4) as usize];
                    let mut b = r.bytes(l);
                    b[0] = (i % 251) as u8 + 1;
                    if l > 1 {
                        b[1] = (i / 251) as u8;
                    }
                    b
                })
                .collect();
            list_dag(items, if r.chance(1, 2) { vec![] } else { vec![1] })
        }
        3 => {
            // repeated sub-lists
            let sub = gen_dag(r, 8, 20);
            let mut n = sub.0.clone();
            let s = n.len() - 1;
            n.push(DN::A(vec![]));
            let mut tail = n.len() - 1;
            for _ in 0..(2 + r.below(if big { 60 } else { 8 })) {
                n.push(DN::P(s, tail));
                tail = n.len() - 1;
            }
            Dag(n)
        }
        4 => {
            // long atoms: length varint of 2 and 3 bytes
            let l = *r.pick(&[64usize, 100, 255, 256, 1000, 8191, 8192, 9000]);
            let l = if big { l } else { l.min(256) };
            let a = r.bytes(l);
            match r.below(3) {
                0 => Dag(vec![DN::A(a)]),
                1 => Dag(vec![DN::A(a), DN::P(0, 0)]),
                _ => {
                    let mut b = a.clone();
                    b[0] ^= 1;
                    Dag(vec![DN::A(a), DN::A(b), DN::P(0, 1)])
                }
            }
        }
        5 => {
            // left-deep (depth) tree
            let n = if big { 50 + r.below(600) } else { 2 + r.below(30) } as usize;
            let mut v = vec![DN::A(rand_atom(r))];
            let mut cur = 0usize;
            for _ in 0..n {
                v.push(DN::A(rand_atom(r)));
                let a = v.len() - 1;
                v.push(DN::P(cur, a));
                cur = v.len() - 1;
            }
            Dag(v)
        }
        6 => Dag(vec![DN::A(rand_atom(r))]),
        _ => gen_dag(r, if big { 400 } else { 40 }, 30),
    }
}

/// a blob assembled from a random atom table and a random instruction stream, with faults
fn structured_blob(r: &mut Rng) -> Vec<u8> {
    let fault = r.chance(1, 2);
    let f = |r: &mut Rng, p: u64| fault && r.chance(1, p);
    let mut out = MAGIC.to_vec();
    let ng = r.below(4) as i64;
    let declared_g = if f(r, 8) { ng + r.range(-2, 2) } else { ng };
    let w = f(r, 10);
    out.extend(venc(r, declared_g, w));
    let mut natoms = 0i64;
    for _ in 0..ng {
        let len = *r.pick(&[1i64, 1, 2, 2, 3, 5, 63, 64, 65]);
        let cnt = 1 + r.below(3) as i64;
        let multi = cnt > 1 || r.chance(1, 5);
        let dlen = if f(r, 12) {
            *r.pick(&[0i64, len + 1, len - 1, 1 << 20, (1 << 20) + 1, 1 << 40])
        } else {
            len
        };
        let w = f(r, 10);
        if multi {
            out.extend(venc(r, -dlen, w));
            let dcnt = if f(r, 10) { *r.pick(&[0i64, -1, cnt + 1, 1 << 54]) } else { cnt };
            let w = f(r, 10);
            out.extend(venc(r, dcnt, w));
        } else {
            out.extend(venc(r, dlen, w));
        }
        out.extend(r.bytes((len * cnt) as usize));
        natoms += cnt;
    }
    // instructions: keep a model of the stack height / pair count
    let ni = 1 + r.below(12) as i64;
    let mut ins: Vec<i64> = Vec::new();
    let mut h = 0i64;
    let mut np = 0i64;
    for _ in 0..ni {
        let c = r.below(10);
        if h >= 2 && c < 4 {
            ins.push(if r.chance(1, 3) { -1 } else { 1 });
            h -= 1;
            np += 1;
        } else if c < 6 || (natoms == 0 && np == 0) {
            ins.push(0);
            h += 1;
        } else if np > 0 && c < 8 {
            ins.push(-(r.below(np as u64) as i64 + 2));
            h += 1;
        } else if natoms > 0 {
            ins.push(r.below(natoms as u64) as i64 + 2);
            h += 1;
        } else {
            ins.push(0);
            h += 1;
        }
        if f(r, 15) {
            let bad = *r.pick(&[natoms + 2, natoms + 3, -(np + 2), -(np + 3), 1, -1, 1 << 33, -(1i64 << 33)]);
            ins.push(bad);
        }
    }
    if !f(r, 6) {
        while h > 1 {
            ins.push(if r.chance(1, 4) { -1 } else { 1 });
            h -= 1;
        }
    }
    let dn = if f(r, 6) {
        let n = ins.len() as i64;
        *r.pick(&[0i64, 0, -1, n - 1, n + 1, 1 << 54])
    } else {
        ins.len() as i64
    };
    let w = f(r, 10);
    out.extend(venc(r, dn, w));
    for i in ins {
        let w = f(r, 12);
        out.extend(venc(r, i, w));
    }
    if r.chance(1, 6) {
        let n = 1 + r.below(4) as usize;
        out.extend(r.bytes(n));
    }
    out
}

/// instruction stream that doubles a pair many times (exponential tree, linear blob)
fn doubling_blob(r: &mut Rng) -> Vec<u8> {
    let mut out = MAGIC.to_vec();
    let k = 1 + r.below(90) as i64;
    out.push(0); // no atoms
    let mut ins: Vec<i64> = vec![0, 0, 1];
    for i in 0..k {
        ins.push(-(i + 2));
        ins.push(-(i + 2));
        ins.push(if r.chance(1, 4) { -1 } else { 1 });
        // drop the previous top: cons it under the new one to keep one item
        ins.push(1);
    }
    // the loop leaves exactly one item (each round: push, push, cons, cons with previous)
    out.extend(enc_width(ins.len() as i64, min_width(ins.len() as i64)));
    for i in ins {
        out.extend(enc_width(i, min_width(i)));
    }
    out
}

fn mutate(r: &mut Rng, b: &[u8]) -> Vec<u8> {
    let mut v = b.to_vec();
    let body = 6.min(v.len());
    match r.below(8) {
        0 => {
            let n = body + r.below((v.len() - body) as u64 + 1) as usize;
            v.truncate(n);
        }
        1 => {
            let n = r.below(v.len() as u64 + 1) as usize;
            v.truncate(n);
        }
        2 | 3 => {
            if v.len() > body {
                let i = body + r.below((v.len() - body) as u64) as usize;
                v[i] = *r.pick(&[0u8, 1, 2, 0x7f, 0x7e, 0x80, 0xbf, 0xc0, 0xff, 0x40, 0x3f]);
            }
        }
        4 => {
            if v.len() > body {
                let i = body + r.below((v.len() - body) as u64) as usize;
                v[i] ^= 1 << r.below(8);
            }
        }
        5 => {
            let i = body + r.below((v.len() - body) as u64 + 1) as usize;
            v.insert(i, r.next() as u8);
        }
        6 => {
            if v.len() > body {
                let i = body + r.below((v.len() - body) as u64) as usize;
                v.remove(i);
            }
        }
        _ => {
            let n = 1 + r.below(5) as usize;
            v.extend(r.bytes(n));
        }
    }
    v
}

// ---------------------------------------------------------------------------
// event emission

fn emit_de(out: &mut Out, blob: &[u8], max: usize, strict: bool) {
    let d = de_call(blob, max, strict, true);
    let p = probe_call(blob, max, strict);
    let mut ev = json!({"ev": "de", "blob": bytes_json(blob), "strict": strict, "max": n_le(max as u128),
                        "probe": probe_json(&p)});
    match d {
        Err(m) => ev["panic"] = json!(m),
        Ok(o) => {
            ev["ok"] = json!(o.ok);
            ev["nodes"] = n_le(o.nodes);
            ev["used"] = json!(o.used);
            ev["same"] = json!(o.same);
            if let Some(t) = o.tree {
                ev["tree"] = t;
            }
        }
    }
    out.emit(&ev);
}

fn emit_len(out: &mut Out, blob: &[u8], max: usize, strict: bool) {
    let p = probe_call(blob, max, strict);
    let mut ev = json!({"ev": "len", "blob": bytes_json(blob), "strict": strict, "max": n_le(max as u128)});
    match p {
        Err(m) => ev["panic"] = json!(m),
        Ok(None) => {
            ev["ok"] = json!(false);
            ev["len"] = json!(0);
        }
        Ok(Some(n)) => {
            ev["ok"] = json!(true);
            ev["len"] = json!(n);
        }
    }
    out.emit(&ev);
}

fn emit_ser(out: &mut Out, d: &Dag, tj: &Value, shared: bool, level: u32) -> Option<Vec<u8>> {
    let s = ser_call(d, shared, level);
    let mut ev = json!({"ev": "ser", "tree": tj.clone(), "level": n_le(level as u128),
                        "src": if shared { "shared" } else { "fresh" }});
    let mut res = None;
    match s {
        Err(m) => ev["panic"] = json!(m),
        Ok(None) => ev["ok"] = json!(false),
        Ok(Some(b)) => {
            ev["ok"] = json!(true);
            ev["blob"] = bytes_json(&b);
            res = Some(b);
        }
    }
    out.emit(&ev);
    res
}

/// tree JSON (flat form, or nested) -> Dag
fn dag_from_json(v: &Value) -> Dag {
    let flat = if v.get("t").is_some() { v.clone() } else { flatten_tree(v) };
    Dag(flat["t"]
        .as_array()
        .unwrap()
        .iter()
        .map(|n| match n.get("a") {
            Some(b) => DN::A(json_bytes(b)),
            None => DN::P(n["p"][0].as_u64().unwrap() as usize - 1, n["p"][1].as_u64().unwrap() as usize - 1),
        })
        .collect())
}

fn emit_magic(out: &mut Out, blob: &[u8]) {
    out.emit(&json!({"ev": "magic", "blob": bytes_json(blob), "res": classic_results(blob)}));
}

fn replay_case(c: &Value) -> Vec<Value> {
    let mut res: Vec<Value> = Vec::new();
    if c["kind"] == "tree" {
        let exp = json_bytes(&c["blob"]);
        let mut bad: Vec<Value> = Vec::new();
        let mut drift: Vec<Value> = Vec::new();
        for level in [0u32, 1, u32::MAX] {
            let r = catch(|| {
                let mut a = Allocator::new();
                let t = json_tree(&mut a, &c["t"]).unwrap();
                let blob = match serialize_2026(&a, t, level) {
                    Ok(b) => b,
                    Err(_) => return (None, vec![json!("serialize failed")]),
                };
                let mut errs = Vec::new();
                for strict in [true, false] {
                    let mut a2 = Allocator::new();
                    let mut cur = Cursor::new(&blob[..]);
                    match deserialize_2026_from_stream(&mut a2, &mut cur, BIG, strict) {
                        Ok(t2) => {
                            if !tree_eq(&a, t, &a2, t2) {
                                errs.push(json!({"strict": strict, "what": "tree differs"}));
                            }
                            if cur.position() as usize != blob.len() {
                                errs.push(json!({"strict": strict, "what": "consumed", "used": cur.position()}));
                            }
                        }
                        Err(_) => errs.push(json!({"strict": strict, "what": "decode failed"})),
                    }
                    match serialized_length_serde_2026(&blob, BIG, strict) {
                        Ok(l) if l as usize == blob.len() => {}
                        o => errs.push(json!({"strict": strict, "what": "probe", "got": format!("{:?}", o.ok())})),
                    }
                }
                (Some(blob), errs)
            });
            match r {
                Err(p) => bad.push(json!({"level": level, "panic": p})),
                Ok((blob, errs)) => {
                    for e in errs {
                        bad.push(json!({"level": level, "err": e}));
                    }
                    if let Some(b) = blob {
                        if b != exp {
                            drift.push(json!({"level": level, "blob": bytes_json(&b)}));
                        }
                    }
                }
            }
        }
        if !bad.is_empty() {
            res.push(json!({"class": "violation", "case": c, "observed": bad}));
        }
        if !drift.is_empty() {
            res.push(json!({"class": "drift", "case": c, "observed": drift}));
        }
    } else {
        let b = json_bytes(&c["b"]);
        let max = c["max"].as_u64().unwrap() as usize;
        let mut diffs: Vec<Value> = Vec::new();
        for (key, strict) in [("s", true), ("l", false)] {
            let e = &c[key];
            match de_call(&b, max, strict, false) {
                Err(p) => diffs.push(json!({"mode": key, "panic": p})),
                Ok(o) => {
                    let exp_ok = e["ok"].as_bool().unwrap();
                    let mut okk = o.ok == exp_ok && o.same;
                    if okk && exp_ok {
                        okk = o.used == e["used"].as_u64().unwrap();
                        if okk {
                            // compare trees structurally
                            let mut a1 = Pooled::get();
                            let t1 = json_tree(a1.a(), &e["tree"]).unwrap();
                            let mut a2 = Pooled::get();
                            let t2 = deserialize_2026(a2.a(), &b, max, strict).unwrap();
                            okk = tree_eq(a1.r(), t1, a2.r(), t2);
                        }
                    }
                    if !okk {
                        diffs.push(json!({"mode": key, "ok": o.ok, "used": o.used, "same": o.same,
                                                      "nodes": n_le(o.nodes)}));
                    }
                }
            }
        }
        for (key, strict) in [("ps", true), ("pl", false)] {
            let e = &c[key];
            let p = probe_call(&b, max, strict);
            let good = match &p {
                Err(_) => false,
                Ok(None) => !e["ok"].as_bool().unwrap(),
                Ok(Some(n)) => e["ok"].as_bool().unwrap() && *n == e["len"].as_u64().unwrap(),
            };
            if !good {
                diffs.push(json!({"mode": key, "probe": probe_json(&p)}));
            }
        }
        if b.len() >= 6 && b[..6] == MAGIC {
            let res = classic_results(&b);
            if res.as_object().unwrap().values().any(|v| v != "err") {
                diffs.push(json!({"mode": "magic", "res": res}));
            }
        }
        if !diffs.is_empty() {
            res.push(json!({"class": "violation", "case": c, "observed": diffs}));
        }
    }
    res
}

const MAXES: [usize; 6] = [0, 1, 2, 63, 64, BIG];

fn main() {
    std::panic::set_hook(Box::new(|_| {}));
    let args: Vec<String> = std::env::args().collect();
    let cmd = args.get(1).map(|s| s.as_str()).unwrap_or("");
    let mut out = Out::create(&arg(&args, "--out").unwrap_or("-".into()));
    match cmd {
        "replay" => {
            let cases = read_ndjson(&arg(&args, "--in").unwrap());
            let nthreads = arg_u64(&args, "--threads", 8).max(1) as usize;
            let chunk = (cases.len() + nthreads - 1) / nthreads.max(1);
            let mut all: Vec<Vec<Value>> = Vec::new();
            std::thread::scope(|sc| {
                let hs: Vec<_> = cases
                    .chunks(chunk.max(1))
                    .map(|ch| sc.spawn(move || ch.iter().flat_map(replay_case).collect::<Vec<Value>>()))
                    .collect();
                for h in hs {
                    all.push(h.join().expect("replay thread"));
                }
            });
            for v in all.into_iter().flatten() {
                out.emit(&v);
            }
            out.emit(&json!({"done": cases.len()}));
        }
        "rerun" => {
            // re-execute the inputs of recorded events on the current library
            for e in read_ndjson(&arg(&args, "--in").unwrap()) {
                let blob = json_bytes(&e["blob"]);
                let max = le_n(&e["max"]) as usize;
                let strict = e["strict"].as_bool().unwrap_or(false);
                match e["ev"].as_str().unwrap_or("") {
                    "ser" => {
                        let d = dag_from_json(&e["tree"]);
                        emit_ser(&mut out, &d, &e["tree"], e["src"] != "fresh", le_n(&e["level"]) as u32);
                    }
                    "de" => emit_de(&mut out, &blob, max, strict),
                    "len" => emit_len(&mut out, &blob, max, strict),
                    "magic" => emit_magic(&mut out, &blob),
                    _ => out.emit(&e),
                }
            }
        }
        "record" => {
            let mut r = Rng::new(arg_u64(&args, "--seed", 1));
            let n = arg_u64(&args, "--n", 300);
            let nbig = arg_u64(&args, "--big", 2);
            let mut valid: Vec<Vec<u8>> = Vec::new();
            for i in 0..n {
                match r.below(10) {
                    0..=3 => {
                        // a tree at the three levels, round trip observed call by call
                        let big = i < nbig;
                        let d = if r.chance(1, 2) {
                            shaped_dag(&mut r, big)
                        } else {
                            let budget = 4 + r.below(if big { 300 } else { 40 }) as usize;
                            let share = *r.pick(&[0u64, 10, 30, 60]);
                            gen_dag(&mut r, budget, share)
                        };
                        let tj = d.json();
                        let mut blob0: Option<Vec<u8>> = None;
                        for (li, level) in [0u32, 1, u32::MAX].iter().enumerate() {
                            if big && li > 0 {
                                continue;
                            }
                            let shared = (i as usize + li) % 2 == 0;
                            let b = emit_ser(&mut out, &d, &tj, shared, *level);
                            if blob0.is_none() {
                                blob0 = b;
                            }
                        }
                        if let Some(b) = blob0 {
                            let longest = d.0.iter().map(|n| if let DN::A(a) = n { a.len() } else { 0 }).max().unwrap_or(0);
                            emit_de(&mut out, &b, BIG, true);
                            emit_de(&mut out, &b, BIG, false);
                            // max_atom_len exactly at / just below the longest atom
                            if longest <= 64 {
                                emit_de(&mut out, &b, longest, r.chance(1, 2));
                                if longest > 0 {
                                    emit_de(&mut out, &b, longest - 1, r.chance(1, 2));
                                }
                            }
                            emit_len(&mut out, &b, BIG, true);
                            emit_len(&mut out, &b, usize::MAX, false);
                            emit_magic(&mut out, &b);
                            if b.len() < 400 && valid.len() < 200 {
                                valid.push(b);
                            }
                        }
                    }
                    k => {
                        let blob = match k {
                            4 | 5 => structured_blob(&mut r),
                            6 | 7 if !valid.is_empty() => {
                                let b = r.pick(&valid).clone();
                                let mut v = mutate(&mut r, &b);
                                if r.chance(1, 4) {
                                    v = mutate(&mut r, &v);
                                }
                                v
                            }
                            8 => {
                                if r.chance(1, 3) {
                                    doubling_blob(&mut r)
                                } else {
                                    structured_blob(&mut r)
                                }
                            }
                            _ => {
                                // random bytes, usually after the prefix
                                let n = r.below(20) as usize;
                                let pl = r.below(7) as usize;
                                let mut v = if r.chance(9, 10) { MAGIC.to_vec() } else { r.bytes(pl) };
                                let mut body = r.bytes(n);
                                if r.chance(1, 2) {
                                    for x in body.iter_mut() {
                                        if r.chance(2, 3) {
                                            *x = *r.pick(&[0u8, 1, 2, 3, 0x7f, 0x7e, 0x7d, 0x80, 0xff, 0x41]);
                                        }
                                    }
                                }
                                v.append(&mut body);
                                v
                            }
                        };
                        let max = *r.pick(&MAXES);
                        emit_de(&mut out, &blob, max, true);
                        emit_de(&mut out, &blob, max, false);
                        if r.chance(1, 2) {
                            let m2 = *r.pick(&MAXES);
                            emit_de(&mut out, &blob, m2, r.chance(1, 2));
                        }
                        emit_len(&mut out, &blob, max, true);
                        emit_len(&mut out, &blob, if r.chance(1, 3) { usize::MAX } else { max }, false);
                        if blob.len() >= 6 && blob[..6] == MAGIC && r.chance(1, 3) {
                            emit_magic(&mut out, &blob);
                        }
                    }
                }
            }
        }
        _ => {
            eprintln!("usage: serde2026 replay|record ...");
            std::process::exit(2);
        }
    }
    out.flush();
}
