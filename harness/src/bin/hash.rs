//! C22 / C24 engine: tree hashers and interning.
//!   hash replay --in <cases.ndjson> --out <mismatches.ndjson>               spec -> impl
//!   hash record --seed S --n N --ev hash|intern|both [--scale K] --out <trace.ndjson>   impl -> spec
//!
//! Observation of one hasher: {"h":[32 bytes]} | {"err":"<EvalErr kind>"} | {"panic":"<msg>"}.
//! `hash` event:   {"ev":"hash","tree":T,"share":..,"rep":..,
//!                  "op_old","op_new","costed_old","costed_new","cache","interned","stream","triples": OBS,
//!                  "triples_nodes":[[32 bytes]..] (pre-order, only for trees <= NODES_CAP nodes),
//!                  "py": OBS  -- OPTIONAL, filled in by the py engine (wheel sha256_treehash); never written here}
//! `intern` event: {"ev":"intern","tree":T,"share":..,"rep":..,
//!                  "atoms":[[bytes]..], "pairs":[{"l":ref,"r":ref}..], "root":ref,
//!                  (ref: -k = k-th atom, +k = k-th pair, 0 = node not in the lists)
//!                  "ser_src":[..],"ser_int":[..],"th_src":OBS,"th_int":OBS,"src_atoms":n,"src_pairs":n}
//!                 or {"ev":"intern","tree":T,..,"err"|"panic":..} when intern_tree itself fails.
use clvmr::allocator::{Allocator, NodePtr, SExp};
use clvmr::error::EvalErr;
use clvmr::reduction::Reduction;
use clvmr::serde::{intern_tree, node_to_bytes, parse_triples, tree_hash_from_stream, treehash, InternedTree, ObjectCache};
use clvmr::sha_tree_op::op_sha256_tree;
use clvmr::treehash::tree_hash_costed;
use serde_json::{json, Map, Value};
use std::collections::{HashMap, HashSet};
use std::io::Cursor;
use vh::gen::{atom_json, list_json, rand_atom_bytes, rand_tree};
use vh::*;

const F_SHA256TREE: u32 = 0x0400;
const F_NEW_COST: u32 = 0x2000;
const NODES_CAP: usize = 80;

// ---------------------------------------------------------------------------
// building a tree in an allocator with a chosen sharing pattern and atom representation

#[derive(Clone, Copy, PartialEq)]
enum Rep {
    Direct, // new_atom: inline small atom when the bytes are a canonical small int
    Concat, // new_concat of two halves: always heap bytes
    Substr, // new_substr view into a longer heap atom
    Random,
}

#[derive(Clone, Copy, PartialEq)]
enum Share {
    None,   // every JSON node its own allocation
    Max,    // equal values share one node
    Random, // each position re-uses an equal earlier node with probability 1/2
}

fn alloc_atom(a: &mut Allocator, b: &[u8], rep: Rep, r: &mut Rng) -> NodePtr {
    let rep = if rep == Rep::Random {
        *r.pick(&[Rep::Direct, Rep::Direct, Rep::Concat, Rep::Substr])
    } else {
        rep
    };
    match rep {
        Rep::Direct | Rep::Random => a.new_atom(b).unwrap(),
        Rep::Concat => {
            let k = b.len() / 2;
            let x = a.new_atom(&b[..k]).unwrap();
            let y = a.new_atom(&b[k..]).unwrap();
            a.new_concat(b.len(), &[x, y]).unwrap()
        }
        Rep::Substr => {
            let mut big = vec![0xaa, 0xbb, 0xcc];
            big.extend_from_slice(b);
            big.extend_from_slice(&[0xdd, 0xee, 0xff]);
            let n = a.new_atom(&big).unwrap();
            a.new_substr(n, 3, 3 + b.len() as u32).unwrap()
        }
    }
}

#[derive(Hash, PartialEq, Eq)]
enum Key {
    A(Vec<u8>),
    P(u32, u32),
}

fn build(a: &mut Allocator, v: &Value, share: Share, rep: Rep, r: &mut Rng) -> NodePtr {
    enum Op<'x> {
        Visit(&'x Value),
        Build,
    }
    let mut ids: HashMap<Key, u32> = HashMap::new();
    let mut memo: HashMap<u32, NodePtr> = HashMap::new();
    let mut ops = vec![Op::Visit(v)];
    let mut vals: Vec<(NodePtr, u32)> = Vec::new();
    while let Some(op) = ops.pop() {
        match op {
            Op::Visit(n) => {
                if let Some(b) = n.get("a") {
                    let bytes = json_bytes(b);
                    let next = ids.len() as u32;
                    let id = *ids.entry(Key::A(bytes.clone())).or_insert(next);
                    let reuse = match share {
                        Share::None => false,
                        Share::Max => true,
                        Share::Random => r.chance(1, 2),
                    };
                    let node = match memo.get(&id) {
                        Some(p) if reuse => *p,
                        _ => alloc_atom(a, &bytes, rep, r),
                    };
                    memo.insert(id, node);
                    vals.push((node, id));
                } else {
                    ops.push(Op::Build);
                    ops.push(Op::Visit(&n["r"]));
                    ops.push(Op::Visit(&n["f"]));
                }
            }
            Op::Build => {
                let (rn, rid) = vals.pop().unwrap();
                let (fnode, fid) = vals.pop().unwrap();
                let next = ids.len() as u32;
                let id = *ids.entry(Key::P(fid, rid)).or_insert(next);
                let reuse = match share {
                    Share::None => false,
                    Share::Max => true,
                    Share::Random => r.chance(1, 2),
                };
                let node = match memo.get(&id) {
                    Some(p) if reuse => *p,
                    _ => a.new_pair(fnode, rn).unwrap(),
                };
                memo.insert(id, node);
                vals.push((node, id));
            }
        }
    }
    vals.pop().unwrap().0
}

/// build exactly the heap of a CASE line: nodes[i] = {"a":bytes} | {"f":j,"r":k} (1-based, children first)
fn build_heap(a: &mut Allocator, heap: &[Value], root: usize, rep: Rep, r: &mut Rng) -> NodePtr {
    let mut nodes: Vec<NodePtr> = Vec::new();
    for n in heap {
        let p = if let Some(b) = n.get("a") {
            alloc_atom(a, &json_bytes(b), rep, r)
        } else {
            let f = nodes[n["f"].as_u64().unwrap() as usize - 1];
            let rr = nodes[n["r"].as_u64().unwrap() as usize - 1];
            a.new_pair(f, rr).unwrap()
        };
        nodes.push(p);
    }
    nodes[root - 1]
}

// ---------------------------------------------------------------------------
// observations

type Obs = std::result::Result<std::result::Result<[u8; 32], EvalErr>, String>;

fn obs_json(o: &Obs) -> Value {
    match o {
        Ok(Ok(h)) => json!({"h": bytes_json(h)}),
        Ok(Err(e)) => json!({"err": err_kind(e)}),
        Err(p) => json!({"panic": p}),
    }
}

fn atom32(a: &Allocator, n: NodePtr) -> std::result::Result<[u8; 32], EvalErr> {
    match a.sexp(n) {
        SExp::Atom => {
            let b = a.atom(n);
            let b: &[u8] = b.as_ref();
            b.try_into().map_err(|_| EvalErr::InternalError(n, "result is not 32 bytes".into()))
        }
        _ => Err(EvalErr::InternalError(n, "result is a pair".into())),
    }
}

fn h_op(a: &mut Allocator, root: NodePtr, fl: u32) -> Obs {
    catch(|| {
        let nil = a.nil();
        let args = a.new_pair(root, nil)?;
        let Reduction(_cost, node) = op_sha256_tree(a, args, u64::MAX, flags(fl))?;
        atom32(a, node)
    })
}

fn h_costed(a: &mut Allocator, root: NodePtr, fl: u32) -> Obs {
    catch(|| {
        let Reduction(_cost, node) = tree_hash_costed(a, root, u64::MAX, flags(fl))?;
        atom32(a, node)
    })
}

fn h_cache(a: &Allocator, root: NodePtr) -> Obs {
    catch(|| {
        let mut oc: ObjectCache<[u8; 32]> = ObjectCache::new(treehash);
        match oc.get_or_calculate(a, &root, None) {
            Some(h) => Ok(*h),
            None => Err(EvalErr::InternalError(root, "object cache returned None".into())),
        }
    })
}

fn h_interned(a: &Allocator, root: NodePtr) -> Obs {
    catch(|| {
        let t = intern_tree(a, root)?;
        Ok(t.tree_hash())
    })
}

fn h_stream(bytes: &[u8]) -> Obs {
    catch(|| {
        let mut c = Cursor::new(bytes);
        tree_hash_from_stream(&mut c)
    })
}

type TripleObs = std::result::Result<std::result::Result<Vec<[u8; 32]>, EvalErr>, String>;

fn h_triples(bytes: &[u8]) -> TripleObs {
    catch(|| {
        let mut c = Cursor::new(bytes);
        let (_triples, hashes) = parse_triples(&mut c, true)?;
        hashes.ok_or(EvalErr::InternalError(NodePtr::NIL, "parse_triples returned no hashes".into()))
    })
}

/// all hash observations of one tree, keyed by implementation
fn observe_hashes(a: &mut Allocator, root: NodePtr, with_nodes: bool) -> Map<String, Value> {
    let mut m = Map::new();
    // the allocator-only hashers first (the costed ones allocate their result atom)
    m.insert("cache".into(), obs_json(&h_cache(a, root)));
    m.insert("interned".into(), obs_json(&h_interned(a, root)));
    let ser = catch(|| node_to_bytes(a, root));
    match &ser {
        Ok(Ok(bytes)) => {
            m.insert("stream".into(), obs_json(&h_stream(bytes)));
            match h_triples(bytes) {
                Ok(Ok(hs)) => {
                    let first: Obs = match hs.first() {
                        Some(h) => Ok(Ok(*h)),
                        None => Ok(Err(EvalErr::InternalError(NodePtr::NIL, "empty hash vector".into()))),
                    };
                    m.insert("triples".into(), obs_json(&first));
                    if with_nodes {
                        m.insert("triples_nodes".into(), Value::Array(hs.iter().map(|h| bytes_json(h)).collect()));
                    }
                }
                Ok(Err(e)) => {
                    m.insert("triples".into(), json!({"err": err_kind(&e)}));
                }
                Err(p) => {
                    m.insert("triples".into(), json!({"panic": p}));
                }
            }
        }
        Ok(Err(e)) => {
            m.insert("stream".into(), json!({"err": format!("node_to_bytes:{}", err_kind(e))}));
            m.insert("triples".into(), json!({"err": format!("node_to_bytes:{}", err_kind(e))}));
        }
        Err(p) => {
            m.insert("stream".into(), json!({"panic": p}));
            m.insert("triples".into(), json!({"panic": p}));
        }
    }
    m.insert("costed_old".into(), obs_json(&h_costed(a, root, 0)));
    m.insert("costed_new".into(), obs_json(&h_costed(a, root, F_NEW_COST)));
    m.insert("op_old".into(), obs_json(&h_op(a, root, F_SHA256TREE)));
    m.insert("op_new".into(), obs_json(&h_op(a, root, F_SHA256TREE | F_NEW_COST)));
    m
}

/// number of distinct atom / pair nodes reachable from root
fn source_counts(a: &Allocator, root: NodePtr) -> (usize, usize) {
    let mut seen: HashSet<NodePtr> = HashSet::new();
    let mut st = vec![root];
    let (mut na, mut np) = (0, 0);
    while let Some(n) = st.pop() {
        if !seen.insert(n) {
            continue;
        }
        match a.sexp(n) {
            SExp::Atom => na += 1,
            SExp::Pair(f, r) => {
                np += 1;
                st.push(f);
                st.push(r);
            }
        }
    }
    (na, np)
}

/// the InternedTree as JSON: atoms (bytes), pairs (child refs), root ref
fn interned_json(t: &InternedTree) -> (Value, Value, i64) {
    let mut refs: HashMap<NodePtr, i64> = HashMap::new();
    for (i, n) in t.atoms.iter().enumerate() {
        refs.entry(*n).or_insert(-(i as i64 + 1));
    }
    for (i, n) in t.pairs.iter().enumerate() {
        refs.entry(*n).or_insert(i as i64 + 1);
    }
    let atoms: Vec<Value> = t
        .atoms
        .iter()
        .map(|n| match t.allocator.sexp(*n) {
            SExp::Atom => bytes_json(t.allocator.atom(*n).as_ref()),
            _ => json!("pair-in-atoms"),
        })
        .collect();
    let pairs: Vec<Value> = t
        .pairs
        .iter()
        .map(|n| match t.allocator.sexp(*n) {
            SExp::Pair(l, r) => json!({"l": refs.get(&l).copied().unwrap_or(0), "r": refs.get(&r).copied().unwrap_or(0)}),
            SExp::Atom => json!({"l": 0, "r": 0}),
        })
        .collect();
    let root = refs.get(&t.root).copied().unwrap_or(0);
    (Value::Array(atoms), Value::Array(pairs), root)
}

fn observe_intern(a: &Allocator, root: NodePtr) -> Map<String, Value> {
    let mut m = Map::new();
    let t = catch(|| intern_tree(a, root));
    let t = match t {
        Ok(Ok(t)) => t,
        Ok(Err(e)) => {
            m.insert("err".into(), json!(err_kind(&e)));
            return m;
        }
        Err(p) => {
            m.insert("panic".into(), json!(p));
            return m;
        }
    };
    let rest = catch(|| {
        let (atoms, pairs, iroot) = interned_json(&t);
        let ser_src = node_to_bytes(a, root);
        let ser_int = node_to_bytes(&t.allocator, t.root);
        let th_int: Obs = catch(|| Ok(t.tree_hash()));
        let th_src = h_cache(a, root);
        let (sa, sp) = source_counts(a, root);
        let ser_v = |s: &std::result::Result<Vec<u8>, EvalErr>| match s {
            Ok(b) => bytes_json(b),
            Err(e) => json!({"err": err_kind(e)}),
        };
        json!({"atoms": atoms, "pairs": pairs, "root": iroot,
               "ser_src": ser_v(&ser_src), "ser_int": ser_v(&ser_int),
               "th_src": obs_json(&th_src), "th_int": obs_json(&th_int),
               "src_atoms": sa, "src_pairs": sp,
               "int_tree": tree_json_nested(&t.allocator, t.root)})
    });
    match rest {
        Ok(Value::Object(o)) => {
            for (k, v) in o {
                m.insert(k, v);
            }
        }
        Ok(_) => {}
        Err(p) => {
            m.insert("panic".into(), json!(p));
        }
    }
    m
}

// ---------------------------------------------------------------------------
// generators

fn int_bytes(v: u32) -> Vec<u8> {
    // canonical CLVM encoding of a non-negative int
    let b = v.to_be_bytes();
    let skip = b.iter().take_while(|x| **x == 0).count();
    let mut out = b[skip..].to_vec();
    if !out.is_empty() && out[0] & 0x80 != 0 {
        out.insert(0, 0);
    }
    out
}

fn noncanonical(v: u32, zeros: usize) -> Vec<u8> {
    let mut out = vec![0u8; zeros];
    out.extend_from_slice(&int_bytes(v));
    out
}

fn small_int_atom(r: &mut Rng) -> Vec<u8> {
    let v = match r.below(4) {
        0 => *r.pick(&[0u32, 1, 35, 36, 37, 38, 40, 127, 128, 255, 256]),
        _ => r.below(41) as u32,
    };
    match r.below(5) {
        0 => noncanonical(v, 1),
        1 => noncanonical(v, 2),
        _ => int_bytes(v),
    }
}

fn spine(r: &mut Rng, depth: usize, kind: u64, atoms: &[Vec<u8>]) -> Value {
    let mut t = atom_json(r.pick::<Vec<u8>>(atoms));
    for i in 0..depth {
        let leaf = atom_json(r.pick::<Vec<u8>>(atoms));
        let left = match kind {
            0 => true,
            1 => false,
            _ => i % 2 == 0,
        };
        t = if left { json!({"f": t, "r": leaf}) } else { json!({"f": leaf, "r": t}) };
    }
    t
}

fn balanced(r: &mut Rng, depth: usize, atoms: &[Vec<u8>]) -> Value {
    if depth == 0 {
        atom_json(r.pick::<Vec<u8>>(atoms))
    } else {
        let f = balanced(r, depth - 1, atoms);
        let rr = if r.chance(1, 3) { f.clone() } else { balanced(r, depth - 1, atoms) };
        json!({"f": f, "r": rr})
    }
}

/// a DAG built bottom-up (every new pair joins two earlier values, recent ones preferred) and
/// unfolded: few distinct sub-trees, many positions
fn dag_tree(r: &mut Rng, steps: usize, k_atoms: usize, cap: usize) -> Value {
    let mut pool: Vec<(Value, usize)> = (0..k_atoms.max(1)).map(|_| (atom_json(&small_int_atom(r)), 1)).collect();
    for _ in 0..steps {
        let pickone = |r: &mut Rng, n: usize| {
            if r.chance(1, 2) && n > 4 { n - 1 - r.below(4) as usize } else { r.below(n as u64) as usize }
        };
        let i = pickone(r, pool.len());
        let j = pickone(r, pool.len());
        let size = 1 + pool[i].1 + pool[j].1;
        if size > cap {
            continue;
        }
        let v = json!({"f": pool[i].0.clone(), "r": pool[j].0.clone()});
        pool.push((v, size));
    }
    pool.pop().unwrap().0
}

const LENS: &[usize] = &[31, 32, 33, 54, 55, 56, 62, 63, 64, 65, 118, 119, 120, 127, 128, 129, 8191, 8192];

const SYSTEMATIC: u64 = 84;

/// (class name, tree)
fn gen_tree(r: &mut Rng, i: u64, scale: usize) -> (&'static str, Value) {
    // the first cases of every trace are systematic: all small ints around the precomputed table
    // (block of SYSTEMATIC cases, recorded twice: atoms via new_atom (inline, uses the table), then random)
    let i = if i < 2 * SYSTEMATIC { i % SYSTEMATIC } else { i };
    if i == 0 {
        let items: Vec<Value> = (0..=40u32).map(|v| atom_json(&int_bytes(v))).collect();
        return ("ints-canonical", list_json(&items));
    }
    if i == 1 {
        let mut items: Vec<Value> = (0..=40u32).map(|v| atom_json(&noncanonical(v, 1))).collect();
        items.push(atom_json(&[0, 0]));
        items.push(atom_json(&[0, 0, 36]));
        return ("ints-noncanonical", list_json(&items));
    }
    if i >= 2 && i < 2 + 82 {
        // one tree per small int: alone, and paired with its non-canonical twin
        let v = ((i - 2) / 2) as u32;
        let c = atom_json(&int_bytes(v));
        return if i % 2 == 0 {
            ("int-single", c)
        } else {
            ("int-twin", json!({"f": c, "r": {"f": atom_json(&noncanonical(v, 1)), "r": atom_json(&int_bytes(v))}}))
        };
    }
    loop {
        let (name, t) = match r.below(8) {
            0 | 1 => {
                let budget = r.range(1, 40) as usize;
                let share = r.range(0, 60) as u64;
                ("random", rand_tree(r, budget, 12, share))
            }
            2 => {
                let n = r.range(1, 30) as usize;
                let items: Vec<Value> = (0..n)
                    .map(|_| {
                        if r.chance(1, 5) {
                            let a = small_int_atom(r);
                            let b = small_int_atom(r);
                            json!({"f": atom_json(&a), "r": atom_json(&b)})
                        } else {
                            atom_json(&small_int_atom(r))
                        }
                    })
                    .collect();
                ("small-ints", list_json(&items))
            }
            3 => {
                let depth = if r.chance(1, 6) { r.range(150, 400) as usize * scale } else { r.range(20, 120) as usize };
                let k = r.range(1, 4) as usize;
                let atoms: Vec<Vec<u8>> = (0..k).map(|_| rand_atom_bytes(r, 6)).collect();
                let kind = r.below(3);
                ("deep", spine(r, depth, kind, &atoms))
            }
            4 => {
                let depth = r.range(3, 6) as usize;
                let k = r.range(1, 5) as usize;
                let atoms: Vec<Vec<u8>> = (0..k).map(|_| small_int_atom(r)).collect();
                ("wide", balanced(r, depth, &atoms))
            }
            5 => {
                let budget = r.range(30, 150) as usize;
                let share = r.range(30, 80) as u64;
                ("heavy-sharing", rand_tree(r, budget, 8, share))
            }
            6 => {
                let steps = r.range(3, 40) as usize;
                let k = r.range(1, 4) as usize;
                let cap = *r.pick(&[60usize, 200, 600 * scale]);
                ("dag", dag_tree(r, steps, k, cap))
            }
            _ => {
                let n = r.range(1, 4) as usize;
                let items: Vec<Value> = (0..n)
                    .map(|_| {
                        let len = if r.chance(1, 12) { *r.pick(LENS) } else { *r.pick(&LENS[..16]) };
                        let mut b = r.bytes(len);
                        if r.chance(1, 2) {
                            b.iter_mut().for_each(|x| *x = 0);
                        }
                        atom_json(&b)
                    })
                    .collect();
                ("long-atoms", list_json(&items))
            }
        };
        if tree_size(&t) <= 900 * scale {
            return (name, t);
        }
    }
}

fn pick_modes(r: &mut Rng) -> (Share, &'static str, Rep, &'static str) {
    let (s, sn) = *r.pick(&[(Share::None, "none"), (Share::Max, "max"), (Share::Random, "random"), (Share::Random, "random")]);
    let (p, pn) = *r.pick(&[
        (Rep::Direct, "direct"),
        (Rep::Direct, "direct"),
        (Rep::Concat, "concat"),
        (Rep::Substr, "substr"),
        (Rep::Random, "random"),
        (Rep::Random, "random"),
    ]);
    (s, sn, p, pn)
}

// ---------------------------------------------------------------------------

fn unfold_string(t: &InternedTree, n: NodePtr) -> String {
    tree_json_nested(&t.allocator, n).to_string()
}

fn main() {
    let args: Vec<String> = std::env::args().collect();
    let cmd = args.get(1).map(|s| s.as_str()).unwrap_or("");
    let mut out = Out::create(&arg(&args, "--out").unwrap_or("-".into()));
    std::panic::set_hook(Box::new(|_| {})); // panics are data; keep stderr quiet
    match cmd {
        "replay" => {
            // every CASE is rebuilt with exactly its sharing pattern in three atom representations
            let cases = read_ndjson(&arg(&args, "--in").unwrap());
            let mut r = Rng::new(7);
            let mut n = 0u64;
            for c in &cases {
                n += 1;
                let heap = c["heap"].as_array().unwrap();
                let rooti = c["root"].as_u64().unwrap() as usize;
                let exp_th = json!({"h": c["th"].clone()});
                for (rep, repn) in [(Rep::Direct, "direct"), (Rep::Concat, "concat"), (Rep::Substr, "substr")] {
                    let mut a = Allocator::new();
                    let root = build_heap(&mut a, heap, rooti, rep, &mut r);
                    let mut bad: Vec<String> = Vec::new();
                    let mut drift: Vec<String> = Vec::new();
                    if tree_json_nested(&a, root) != c["tree"] {
                        drift.push("readback".into());
                    }
                    // C24 first: interning sees the source before the hashers allocate results
                    let it = observe_intern(&a, root);
                    let (sa, sp) = source_counts(&a, root);
                    if it.contains_key("err") || it.contains_key("panic") {
                        bad.push("intern:failed".into());
                    } else {
                        let atoms = it["atoms"].as_array().unwrap();
                        let pairs = it["pairs"].as_array().unwrap();
                        if it["ser_int"] != c["ser"] || it["ser_src"] != c["ser"] {
                            bad.push("intern:ser".into());
                        }
                        if it["th_int"] != exp_th {
                            bad.push("intern:hash".into());
                        }
                        if it["int_tree"] != c["tree"] {
                            bad.push("intern:value".into());
                        }
                        let aset: HashSet<String> = atoms.iter().map(|x| x.to_string()).collect();
                        if aset.len() != atoms.len() {
                            bad.push("intern:atoms_distinct".into());
                        }
                        if atoms.len() as u64 != c["n_atoms"].as_u64().unwrap() {
                            bad.push("intern:atoms_count".into());
                        }
                        if pairs.len() as u64 != c["n_pairs"].as_u64().unwrap() {
                            bad.push("intern:pairs_count".into());
                        }
                        if atoms.len() > sa || pairs.len() > sp {
                            bad.push("intern:le_source".into());
                        }
                        // pairwise distinct sub-trees, literally: unfold every interned pair
                        if let Ok(Ok(t)) = catch(|| intern_tree(&a, root)) {
                            let pset: HashSet<String> = t.pairs.iter().map(|p| unfold_string(&t, *p)).collect();
                            if pset.len() != t.pairs.len() {
                                bad.push("intern:pairs_distinct".into());
                            }
                        }
                        // conformance with the machine of Intern.tla (not property level): insertion orders
                        if it["atoms"] != c["atoms"] || it["pairs"] != c["pairs"] || it["root"] != c["iroot"] {
                            drift.push("intern-order".into());
                        }
                    }
                    let hs = observe_hashes(&mut a, root, true);
                    for k in ["op_old", "op_new", "costed_old", "costed_new", "cache", "interned", "stream", "triples"] {
                        if hs.get(k) != Some(&exp_th) {
                            bad.push(format!("hash:{k}"));
                        }
                    }
                    if !bad.is_empty() || !drift.is_empty() {
                        let mut obs = hs.clone();
                        obs.remove("triples_nodes");
                        let mut iobs = it.clone();
                        iobs.remove("int_tree");
                        out.emit(&json!({"case": c, "rep": repn, "bad": bad, "drift": drift,
                                         "hashes": obs, "intern": iobs}));
                    }
                }
            }
            out.emit(&json!({"done": n}));
        }
        "record" => {
            let mut r = Rng::new(arg_u64(&args, "--seed", 1));
            let n = arg_u64(&args, "--n", 1000);
            let ev = arg(&args, "--ev").unwrap_or("both".into());
            let scale = arg_u64(&args, "--scale", 1) as usize; // thorough tier: deeper / bigger trees
            let mut shared_alloc = Allocator::new(); // some trees live in an allocator with history
            for i in 0..n {
                let (class, t) = gen_tree(&mut r, i, scale);
                let (share, sharen, mut rep, mut repn) = pick_modes(&mut r);
                if i < SYSTEMATIC {
                    (rep, repn) = (Rep::Direct, "direct");
                }
                let fresh = r.chance(3, 4) || shared_alloc.atom_count() > 2_000_000;
                let mut fresh_alloc = Allocator::new();
                let a: &mut Allocator = if fresh { &mut fresh_alloc } else { &mut shared_alloc };
                let root = build(a, &t, share, rep, &mut r);
                let readback_ok = tree_json_nested(a, root) == t;
                let size = tree_size(&t);
                let head = |evn: &str| {
                    let mut m = Map::new();
                    m.insert("ev".into(), json!(evn));
                    m.insert("class".into(), json!(class));
                    m.insert("share".into(), json!(sharen));
                    m.insert("rep".into(), json!(repn));
                    m.insert("fresh".into(), json!(fresh));
                    m.insert("nodes".into(), json!(size));
                    if !readback_ok {
                        m.insert("readback_differs".into(), json!(true));
                    }
                    m.insert("tree".into(), t.clone());
                    m
                };
                if ev == "intern" || ev == "both" {
                    let mut m = head("intern");
                    let mut it = observe_intern(a, root);
                    it.remove("int_tree");
                    m.extend(it);
                    out.emit(&Value::Object(m));
                }
                if ev == "hash" || ev == "both" {
                    let mut m = head("hash");
                    m.extend(observe_hashes(a, root, size <= NODES_CAP));
                    out.emit(&Value::Object(m));
                }
            }
        }
        _ => {
            eprintln!("usage: hash replay|record ...");
            std::process::exit(2);
        }
    }
    out.flush();
}
