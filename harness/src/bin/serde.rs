//! serde engine (C15, C16, C29): classic CLVM serialization.
//!   serde replay --in cases.ndjson --out mism.ndjson [--cap-virtual N] [--cap-full N]
//!        spec -> impl: every CASE line of MCSerClassic is run on the real library
//!   serde record --seed S --n N --mix C15|C16|C29 [--tier quick|thorough] --out trace.ndjson [--stats f]
//!        impl -> spec: generated inputs, one JSON event per call (validated by TraceSerClassic)
//!   serde record --from events.ndjson --out trace.ndjson
//!        re-execute the calls of recorded events on their recorded inputs (replays, self test)
//! Panics of the code under test are data (`catch`), recorded as "panic" in the event.
use clvmr::allocator::{Allocator, NodePtr, SExp};
use clvmr::serde::write_atom::write_atom;
use clvmr::serde::{
    is_canonical_serialization, node_from_bytes, node_from_stream, node_to_bytes, node_to_bytes_backrefs,
    node_to_bytes_backrefs_limit, node_to_bytes_limit, parse_triples, serialized_length,
    serialized_length_atom, serialized_length_from_bytes, serialized_length_from_bytes_trusted,
    tree_hash_from_stream, ObjectCache, ParsedTriple,
};
use serde_json::{json, Value};
use std::collections::HashMap;
use std::io::Cursor;
use vh::gen::{atom_json, rand_atom_bytes, rand_tree, BOUNDARY_ATOMS};
use vh::*;

// ---------------------------------------------------------------------------
// counting allocator (C16 "without over-allocating"): every decoder call is bracketed by
// `measure`, which reports the largest single allocation request and the peak of additional
// live bytes.  While a call is measured, a request above MEM_CAP (1 GiB) is refused: the
// allocator writes "OVERALLOC <function> <bytes>" to stderr and returns null, which ends the
// process - inputs that could provoke that are run in a child process (`guarded`).

use std::alloc::{GlobalAlloc, Layout, System};
use std::sync::atomic::{AtomicUsize, Ordering::Relaxed};

static LIVE: AtomicUsize = AtomicUsize::new(0);
static PEAK: AtomicUsize = AtomicUsize::new(0);
static MAXREQ: AtomicUsize = AtomicUsize::new(0);
static CAP: AtomicUsize = AtomicUsize::new(usize::MAX);
static CUR_FN: AtomicUsize = AtomicUsize::new(0);
const MEM_CAP: usize = 1 << 30;
const FN_NAMES: &[&str] = &[
    "none", "node_from_stream", "node_from_bytes", "parse_triples", "tree_hash_from_stream",
    "is_canonical_serialization", "serialized_length_from_bytes_trusted", "serialized_length_from_bytes",
];

struct Counting;

fn refuse(size: usize) {
    // no allocation here: format into a stack buffer, write to fd 2
    use std::io::Write;
    use std::os::fd::FromRawFd;
    let mut buf = [0u8; 96];
    let mut n = 0;
    let name = FN_NAMES[CUR_FN.load(Relaxed).min(FN_NAMES.len() - 1)];
    for x in b"OVERALLOC ".iter().chain(name.as_bytes()).chain(b" ") {
        buf[n] = *x;
        n += 1;
    }
    let mut digits = [0u8; 24];
    let mut k = 0;
    let mut v = size;
    loop {
        digits[k] = b'0' + (v % 10) as u8;
        k += 1;
        v /= 10;
        if v == 0 {
            break;
        }
    }
    while k > 0 {
        k -= 1;
        buf[n] = digits[k];
        n += 1;
    }
    buf[n] = b'\n';
    n += 1;
    let mut f = std::mem::ManuallyDrop::new(unsafe { std::fs::File::from_raw_fd(2) });
    let _ = f.write_all(&buf[..n]);
    // end the process here (exit code 77) rather than through the allocation-error abort (no core dump, no unwinding)
    std::process::exit(77);
}

fn note_alloc(size: usize) -> bool {
    if size > CAP.load(Relaxed) {
        MAXREQ.fetch_max(size, Relaxed);
        refuse(size);
        return false;
    }
    MAXREQ.fetch_max(size, Relaxed);
    let live = LIVE.fetch_add(size, Relaxed) + size;
    PEAK.fetch_max(live, Relaxed);
    true
}

unsafe impl GlobalAlloc for Counting {
    unsafe fn alloc(&self, l: Layout) -> *mut u8 {
        if !note_alloc(l.size()) {
            return std::ptr::null_mut();
        }
        unsafe { System.alloc(l) }
    }
    unsafe fn alloc_zeroed(&self, l: Layout) -> *mut u8 {
        if !note_alloc(l.size()) {
            return std::ptr::null_mut();
        }
        unsafe { System.alloc_zeroed(l) }
    }
    unsafe fn dealloc(&self, p: *mut u8, l: Layout) {
        LIVE.fetch_sub(l.size(), Relaxed);
        unsafe { System.dealloc(p, l) }
    }
    unsafe fn realloc(&self, p: *mut u8, l: Layout, new_size: usize) -> *mut u8 {
        // the old block may live until the new one is filled
        if !note_alloc(new_size) {
            return std::ptr::null_mut();
        }
        let q = unsafe { System.realloc(p, l, new_size) };
        LIVE.fetch_sub(l.size(), Relaxed);
        q
    }
}

#[global_allocator]
static GLOBAL: Counting = Counting;

struct CapGuard;
impl Drop for CapGuard {
    fn drop(&mut self) {
        CAP.store(usize::MAX, Relaxed);
        CUR_FN.store(0, Relaxed);
    }
}

/// run one library call; returns its result and {"req": largest single request, "peak": peak additional live bytes}
fn measure<T>(func: usize, f: impl FnOnce() -> T) -> (T, Value) {
    let _g = CapGuard;
    let base = LIVE.load(Relaxed);
    PEAK.store(base, Relaxed);
    MAXREQ.store(0, Relaxed);
    CUR_FN.store(func, Relaxed);
    CAP.store(MEM_CAP, Relaxed);
    let r = f();
    CAP.store(usize::MAX, Relaxed);
    let mem = json!({"req": MAXREQ.load(Relaxed), "peak": PEAK.load(Relaxed).saturating_sub(base)});
    (r, mem)
}

/// could a decoder that trusts a length prefix be led to request more than MEM_CAP?  (any position
/// holding a complete 5- or 6-byte prefix announcing 2^30 bytes or more)
fn risky(b: &[u8]) -> bool {
    for i in 0..b.len() {
        let k = (!b[i]).leading_zeros() as usize;
        if (5..=6).contains(&k) && i + k <= b.len() {
            let mut size: u64 = (b[i] & (0xff >> k)) as u64;
            for x in &b[i + 1..i + k] {
                size = (size << 8) | *x as u64;
            }
            if size >= (MEM_CAP as u64) - 64 {
                return true;
            }
        }
    }
    false
}

/// one byte-string event; inputs that could make a faulty decoder ask for more than MEM_CAP are run in a
/// child process, whose death becomes a "crash" event naming the function that asked
type Item = (String, Vec<u8>, bool);

thread_local! {
    static PRE: std::cell::RefCell<HashMap<Item, Value>> = std::cell::RefCell::new(HashMap::new());
    static TMPDIR: std::cell::RefCell<String> = std::cell::RefCell::new(std::env::temp_dir().to_string_lossy().to_string());
}

/// run byte-string events in a child process (`serde childbatch`); when the child dies at an item, that item
/// becomes a "crash" event (naming the function if the allocator refused it) and a new child continues
fn run_batch(items: &[Item]) -> Vec<Value> {
    let exe = std::env::current_exe().expect("current_exe");
    let dir = TMPDIR.with(|d| d.borrow().clone());
    let path = format!("{}/serde-batch-{}.ndjson", dir, std::process::id());
    let mut res: Vec<Value> = Vec::with_capacity(items.len());
    {
        let mut f = Out::create(&path);
        for (kind, b, th) in items {
            f.emit(&json!({"ev": kind, "b": bytes_json(b), "th": th}));
        }
        f.flush();
    }
    while res.len() < items.len() {
        let start = res.len();
        let o = std::process::Command::new(&exe)
            .args(["childbatch", "--in", &path, "--skip", &start.to_string()])
            .output()
            .expect("spawn child");
        let stdout = String::from_utf8_lossy(&o.stdout);
        for l in stdout.lines() {
            if res.len() < items.len() {
                if let Ok(v) = serde_json::from_str::<Value>(l) {
                    res.push(v);
                }
            }
        }
        if res.len() < items.len() && (!o.status.success() || res.len() == start) {
            let (kind, b, th) = &items[res.len()];
            let stderr = String::from_utf8_lossy(&o.stderr).to_string();
            let func = stderr
                .lines()
                .rev()
                .find(|l| l.starts_with("OVERALLOC "))
                .and_then(|l| l.split_whitespace().nth(1))
                .unwrap_or("unknown")
                .to_string();
            let tail: String = stderr.chars().rev().take(300).collect::<Vec<_>>().into_iter().rev().collect();
            res.push(json!({"ev": "crash", "of": kind, "b": bytes_json(b), "th": th, "fn": func,
                            "overalloc": stderr.contains("OVERALLOC "), "msg": tail}));
        }
    }
    let _ = std::fs::remove_file(&path);
    res
}

/// the seven byte-string events of one input
fn all_items(b: &[u8]) -> Vec<Item> {
    vec![
        ("de".to_string(), b.to_vec(), false),
        ("triples".to_string(), b.to_vec(), true),
        ("triples".to_string(), b.to_vec(), false),
        ("hash".to_string(), b.to_vec(), false),
        ("canon".to_string(), b.to_vec(), false),
        ("lenb".to_string(), b.to_vec(), false),
        ("reser".to_string(), b.to_vec(), false),
    ]
}

/// compute the events of risky inputs ahead, in as few child processes as possible
fn prefill(inputs: &[Vec<u8>]) {
    let items: Vec<Item> = inputs.iter().flat_map(|b| all_items(b)).collect();
    if items.is_empty() {
        return;
    }
    let evs = run_batch(&items);
    PRE.with(|p| {
        let mut p = p.borrow_mut();
        for (it, ev) in items.into_iter().zip(evs) {
            p.insert(it, ev);
        }
    });
}

/// one byte-string event; inputs that could make a faulty decoder ask for more than MEM_CAP are run in a
/// child process, whose death becomes a "crash" event naming the function that asked
fn guarded(kind: &str, b: &[u8], th: bool) -> Value {
    if !risky(b) {
        return byte_event(kind, b, th);
    }
    let key: Item = (kind.to_string(), b.to_vec(), kind == "triples" && th);
    if let Some(v) = PRE.with(|p| p.borrow().get(&key).cloned()) {
        return v;
    }
    run_batch(&[key]).pop().unwrap()
}

fn byte_event(kind: &str, b: &[u8], th: bool) -> Value {
    match kind {
        "de" => ev_de(b),
        "triples" => ev_triples(b, th),
        "hash" => ev_hash(b),
        "canon" => ev_canon(b),
        "lenb" => ev_lenb(b),
        _ => ev_reser(b),
    }
}

// ---------------------------------------------------------------------------
// trees

/// materialise a JSON tree (nested or flat form).  `share`: equal sub-trees become the same
/// NodePtr (a DAG), otherwise every occurrence is allocated separately.
fn build_tree(a: &mut Allocator, v: &Value, share: bool) -> NodePtr {
    let flat = if v.get("t").is_some() { v.clone() } else { flatten_tree(v) };
    let tab = flat["t"].as_array().expect("flat tree");
    let mut nodes: Vec<NodePtr> = Vec::with_capacity(tab.len());
    let mut atoms: HashMap<Vec<u8>, NodePtr> = HashMap::new();
    let mut pairs: HashMap<(NodePtr, NodePtr), NodePtr> = HashMap::new();
    for n in tab {
        if let Some(b) = n.get("a") {
            let bytes = json_bytes(b);
            if share {
                if let Some(p) = atoms.get(&bytes) {
                    nodes.push(*p);
                    continue;
                }
            }
            let p = a.new_atom(&bytes).expect("new_atom");
            if share {
                atoms.insert(bytes, p);
            }
            nodes.push(p);
        } else {
            let p = n["p"].as_array().expect("flat pair");
            let f = nodes[p[0].as_u64().unwrap() as usize - 1];
            let r = nodes[p[1].as_u64().unwrap() as usize - 1];
            if share {
                if let Some(q) = pairs.get(&(f, r)) {
                    nodes.push(*q);
                    continue;
                }
            }
            let q = a.new_pair(f, r).expect("new_pair");
            if share {
                pairs.insert((f, r), q);
            }
            nodes.push(q);
        }
    }
    *nodes.last().expect("empty tree")
}

fn same_tree(x: &Value, y: &Value) -> bool {
    flatten_tree(&unflatten_if_needed(x)) == flatten_tree(&unflatten_if_needed(y))
}
fn unflatten_if_needed(v: &Value) -> Value {
    if v.get("t").is_some() { unflatten_tree(v) } else { v.clone() }
}

/// structural equality of two allocator trees (iterative)
fn node_eq(a: &Allocator, x: NodePtr, b: &Allocator, y: NodePtr) -> bool {
    let mut st = vec![(x, y)];
    while let Some((p, q)) = st.pop() {
        match (a.sexp(p), b.sexp(q)) {
            (SExp::Atom, SExp::Atom) => {
                if a.atom(p).as_ref() != b.atom(q).as_ref() {
                    return false;
                }
            }
            (SExp::Pair(f1, r1), SExp::Pair(f2, r2)) => {
                st.push((r1, r2));
                st.push((f1, f2));
            }
            _ => return false,
        }
    }
    true
}

fn res_str<T>(r: &Result<T, clvmr::error::EvalErr>) -> &'static str {
    match r {
        Ok(_) => "ok",
        Err(e) => err_kind(e),
    }
}

fn lenres(r: Result<u64, clvmr::error::EvalErr>) -> Value {
    match r {
        Ok(v) => json!({"ok": true, "v": v}),
        Err(_) => json!({"ok": false}),
    }
}
fn lenres_wide(r: Result<u64, clvmr::error::EvalErr>) -> Value {
    match r {
        Ok(v) => json!({"ok": true, "v": n_le(v as u128)}),
        Err(_) => json!({"ok": false}),
    }
}

fn triple_json(t: &ParsedTriple) -> Value {
    match t {
        ParsedTriple::Atom { start, end, atom_offset } => json!({"k": "a", "s": start, "e": end, "x": atom_offset}),
        ParsedTriple::Pair { start, end, right_index } => json!({"k": "p", "s": start, "e": end, "x": right_index}),
    }
}

fn cache_len(a: &Allocator, node: NodePtr) -> Option<u64> {
    let mut oc = ObjectCache::new(serialized_length);
    oc.get_or_calculate(a, &node, None).copied()
}

// ---------------------------------------------------------------------------
// events on trees

fn with_panic(mut ev: Value, r: Result<Value, String>) -> Value {
    match r {
        Ok(v) => {
            for (k, x) in v.as_object().unwrap() {
                ev[k] = x.clone();
            }
        }
        Err(p) => ev["panic"] = json!(p),
    }
    ev
}

fn ev_ser(t: &Value, share: bool) -> Value {
    let r = catch(|| {
        let mut a = Allocator::new();
        let n = build_tree(&mut a, t, share);
        let r = node_to_bytes(&a, n);
        match &r {
            Ok(b) => json!({"r": "ok", "out": bytes_json(b)}),
            Err(e) => json!({"r": err_kind(e)}),
        }
    });
    with_panic(json!({"ev": "ser", "t": t, "share": share}), r)
}

fn ev_len(t: &Value, share: bool) -> Value {
    let r = catch(|| {
        let mut a = Allocator::new();
        let n = build_tree(&mut a, t, share);
        let b = node_to_bytes_limit(&a, n, usize::MAX).expect("serialize");
        json!({
            "trusted": lenres(serialized_length_from_bytes_trusted(&b)),
            "untrusted": lenres(serialized_length_from_bytes(&b)),
            "cache": cache_len(&a, n).unwrap_or(0),
        })
    });
    with_panic(json!({"ev": "len", "t": t, "share": share}), r)
}

fn ev_limit(t: &Value, func: &str, share: bool) -> Value {
    let r = catch(|| {
        let mut a = Allocator::new();
        let n = build_tree(&mut a, t, share);
        let full = if func == "classic" { node_to_bytes_limit(&a, n, usize::MAX) } else { node_to_bytes_backrefs(&a, n) };
        let Ok(full) = full else {
            return json!({"full": {"r": res_str(&full)}, "res": []});
        };
        let mut res = Vec::new();
        for l in 0..=full.len() + 1 {
            let r = catch(|| {
                if func == "classic" { node_to_bytes_limit(&a, n, l) } else { node_to_bytes_backrefs_limit(&a, n, l) }
            });
            res.push(match r {
                Err(_) => json!({"L": l, "r": "panic", "same": false}),
                Ok(Ok(b)) => {
                    let mut it = json!({"L": l, "r": "ok", "same": b == full});
                    if b != full {
                        it["out"] = bytes_json(&b);
                    }
                    it
                }
                Ok(Err(e)) => json!({"L": l, "r": err_kind(&e), "same": false}),
            });
        }
        json!({"full": {"r": "ok", "out": bytes_json(&full)}, "res": res})
    });
    with_panic(json!({"ev": "limit", "fn": func, "t": t, "share": share}), r)
}

// ---------------------------------------------------------------------------
// events on byte strings

fn ev_de(b: &[u8]) -> Value {
    let r = catch(|| {
        // the Allocator reserves about 1 MiB when it is created: measured from after it exists
        let (s, mem_s) = {
            let mut a = Allocator::new();
            let mut c = Cursor::new(b);
            let (r, mem) = measure(1, || node_from_stream(&mut a, &mut c));
            (match r {
                Ok(n) => json!({"ok": true, "used": c.position(), "t": tree_json(&a, n)}),
                Err(_) => json!({"ok": false}),
            }, mem)
        };
        let (nb, mem_nb) = {
            let mut a = Allocator::new();
            let (r, mem) = measure(2, || node_from_bytes(&mut a, b));
            (match r {
                Ok(n) => json!({"ok": true, "t": tree_json(&a, n)}),
                Err(_) => json!({"ok": false}),
            }, mem)
        };
        json!({"s": s, "nb": nb, "mem_s": mem_s, "mem_nb": mem_nb})
    });
    with_panic(json!({"ev": "de", "b": bytes_json(b)}), r)
}

fn ev_triples(b: &[u8], th: bool) -> Value {
    let r = catch(|| {
        let mut c = Cursor::new(b);
        let (r, mem) = measure(3, || parse_triples(&mut c, th));
        let mut v = match r {
            Ok((tr, hs)) => {
                let mut v = json!({"ok": true, "used": c.position(),
                                   "tr": tr.iter().map(triple_json).collect::<Vec<_>>()});
                if let Some(hs) = hs {
                    v["h"] = bytes_json(&hs[0]);
                    v["nh"] = json!(hs.len());
                }
                v
            }
            Err(_) => json!({"ok": false}),
        };
        v["mem"] = mem;
        v
    });
    with_panic(json!({"ev": "triples", "b": bytes_json(b), "th": th}), r)
}

fn ev_hash(b: &[u8]) -> Value {
    let r = catch(|| {
        let mut c = Cursor::new(b);
        let (r, mem) = measure(4, || tree_hash_from_stream(&mut c));
        let mut v = match r {
            Ok(h) => json!({"ok": true, "used": c.position(), "h": bytes_json(&h)}),
            Err(_) => json!({"ok": false}),
        };
        v["mem"] = mem;
        v
    });
    with_panic(json!({"ev": "hash", "b": bytes_json(b)}), r)
}

fn ev_canon(b: &[u8]) -> Value {
    let r = catch(|| {
        let (v, mem) = measure(5, || is_canonical_serialization(b));
        json!({"v": v, "mem": mem})
    });
    with_panic(json!({"ev": "canon", "b": bytes_json(b)}), r)
}

fn ev_lenb(b: &[u8]) -> Value {
    let r = catch(|| {
        let (t, mem_t) = measure(6, || serialized_length_from_bytes_trusted(b));
        // the validating length creates its own Allocator (which reserves about 1 MiB)
        let (u, mem_u) = measure(7, || serialized_length_from_bytes(b));
        json!({"trusted": lenres(t), "untrusted": lenres(u), "mem_t": mem_t, "mem_u": mem_u})
    });
    with_panic(json!({"ev": "lenb", "b": bytes_json(b)}), r)
}

fn ev_reser(b: &[u8]) -> Value {
    let r = catch(|| {
        let mut a = Allocator::new();
        match node_from_bytes(&mut a, b) {
            Err(_) => json!({"ok": false}),
            Ok(n) => {
                let canon = is_canonical_serialization(b);
                let o = node_to_bytes_limit(&a, n, usize::MAX);
                match &o {
                    Ok(x) => json!({"ok": true, "canon": canon, "r": "ok", "out": bytes_json(x)}),
                    Err(e) => json!({"ok": true, "canon": canon, "r": err_kind(e)}),
                }
            }
        }
    });
    with_panic(json!({"ev": "reser", "b": bytes_json(b)}), r)
}

// ---------------------------------------------------------------------------
// big inputs: lazily zeroed buffers (never touched unless a decoder reads them)

struct ZeroBuf {
    ptr: *mut u8,
    len: usize,
}
impl ZeroBuf {
    fn new(len: usize) -> Option<ZeroBuf> {
        if len == 0 {
            return Some(ZeroBuf { ptr: std::ptr::NonNull::dangling().as_ptr(), len: 0 });
        }
        let layout = std::alloc::Layout::from_size_align(len, 1).ok()?;
        let ptr = unsafe { std::alloc::alloc_zeroed(layout) };
        if ptr.is_null() { None } else { Some(ZeroBuf { ptr, len }) }
    }
    fn as_slice(&self) -> &[u8] {
        unsafe { std::slice::from_raw_parts(self.ptr, self.len) }
    }
    fn as_mut(&mut self) -> &mut [u8] {
        unsafe { std::slice::from_raw_parts_mut(self.ptr, self.len) }
    }
}
impl Drop for ZeroBuf {
    fn drop(&mut self) {
        if self.len > 0 {
            unsafe { std::alloc::dealloc(self.ptr, std::alloc::Layout::from_size_align(self.len, 1).unwrap()) }
        }
    }
}

struct Caps {
    virt: u128, // largest buffer that may be reserved (address space, untouched)
    full: u128, // largest buffer that may be read / copied in full
}

/// input = p ++ fill^have.  Bodies above 1 MiB are zero except for their first byte
/// (nothing the O(1) functions look at), so `fill` must be 0 for those to be read in full.
fn ev_big(p: &[u8], have: u128, fill: u8, caps: &Caps) -> Option<Value> {
    let total = p.len() as u128 + have;
    if total > caps.virt {
        return None;
    }
    let mut buf = ZeroBuf::new(total as usize)?;
    let exact = have <= (1 << 20) || fill == 0;
    {
        let m = buf.as_mut();
        m[..p.len()].copy_from_slice(p);
        if fill != 0 && have > 0 {
            if have <= (1 << 20) {
                for x in m[p.len()..].iter_mut() {
                    *x = fill;
                }
            } else {
                m[p.len()] = fill;
            }
        }
    }
    let b = buf.as_slice();
    let mut ev = json!({"ev": "big", "p": bytes_json(p), "have": n_le(have), "fill": fill});
    let r = catch(|| {
        let mut v = json!({
            "canon": is_canonical_serialization(b),
            "trusted": lenres_wide(serialized_length_from_bytes_trusted(b)),
            "untrusted": lenres_wide(serialized_length_from_bytes(b)),
        });
        if exact && total <= caps.full {
            let mut c = Cursor::new(b);
            v["hash"] = match tree_hash_from_stream(&mut c) {
                Ok(_) => json!({"ok": true, "used": n_le(c.position() as u128)}),
                Err(_) => json!({"ok": false}),
            };
            let mut c = Cursor::new(b);
            v["triples"] = match parse_triples(&mut c, false) {
                Ok((tr, _)) => match &tr[0] {
                    ParsedTriple::Atom { start, end, atom_offset } => json!({
                        "ok": true, "used": n_le(c.position() as u128), "count": tr.len(),
                        "s": n_le(*start as u128), "e": n_le(*end as u128), "x": atom_offset}),
                    _ => json!({"ok": true, "used": n_le(c.position() as u128), "count": 0, "s": [], "e": [], "x": 0}),
                },
                Err(_) => json!({"ok": false}),
            };
            let mut a = Allocator::new();
            let mut c = Cursor::new(b);
            v["de"] = match node_from_stream(&mut a, &mut c) {
                Ok(n) => {
                    let (alen, body_ok) = match a.sexp(n) {
                        SExp::Atom => {
                            let at = a.atom(n);
                            let s = at.as_ref();
                            (s.len(), s.iter().all(|x| *x == fill))
                        }
                        _ => (0, false),
                    };
                    json!({"ok": true, "used": n_le(c.position() as u128), "alen": n_le(alen as u128), "body_ok": body_ok})
                }
                Err(_) => json!({"ok": false}),
            };
        }
        v
    });
    ev = with_panic(ev, r);
    Some(ev)
}

struct CountSink {
    head: Vec<u8>,
    total: u128,
    last_ptr: *const u8,
    last_len: usize,
}
impl std::io::Write for CountSink {
    fn write(&mut self, buf: &[u8]) -> std::io::Result<usize> {
        if self.head.len() < 16 && buf.len() <= 16 {
            self.head.extend_from_slice(buf);
        }
        self.total += buf.len() as u128;
        self.last_ptr = buf.as_ptr();
        self.last_len = buf.len();
        Ok(buf.len())
    }
    fn flush(&mut self) -> std::io::Result<()> {
        Ok(())
    }
}

/// one atom of n bytes `fill` (only the first byte is set above 1 MiB) through a serializer
fn ev_bigser(n: u128, fill: u8, via: &str, caps: &Caps) -> Option<Value> {
    if n > caps.virt || (via != "write_atom" && n > caps.full) {
        return None;
    }
    let mut buf = ZeroBuf::new(n as usize)?;
    let exact = n <= (1 << 20) || fill == 0;
    if fill != 0 && n > 0 {
        let m = buf.as_mut();
        if n <= (1 << 20) {
            for x in m.iter_mut() {
                *x = fill;
            }
        } else {
            m[0] = fill;
        }
    }
    let atom = buf.as_slice();
    let ev = json!({"ev": "bigser", "n": n_le(n), "fill": fill, "via": via});
    let r = catch(|| {
        if via == "write_atom" {
            let mut s = CountSink { head: Vec::new(), total: 0, last_ptr: std::ptr::null(), last_len: 0 };
            match write_atom(&mut s, atom) {
                Ok(()) => {
                    let plen = (s.total - n) as usize;
                    // the body is the atom itself: the last write was handed the atom's own slice
                    let body_ok = n == 0 || (s.last_ptr == atom.as_ptr() && s.last_len as u128 == n);
                    let prefix = s.head[..plen.min(s.head.len())].to_vec();
                    let mut v = json!({"r": "ok", "prefix": bytes_json(&prefix),
                                       "total": n_le(s.total), "body_ok": body_ok});
                    if n < (1u128 << 32) {
                        // serialized_length_atom (what ObjectCache uses) takes the length as u32
                        match catch(|| serialized_length_atom(atom)) {
                            Ok(x) => v["cache"] = n_le(x as u128),
                            Err(p) => v["cache_panic"] = json!(p),
                        }
                    }
                    v
                }
                Err(e) => json!({"r": err_kind(&e)}),
            }
        } else {
            let mut a = Allocator::new();
            let node = a.new_atom(atom).expect("new_atom");
            let o = if via == "node_to_bytes" { node_to_bytes(&a, node) } else { node_to_bytes_limit(&a, node, usize::MAX) };
            match o {
                Ok(out) => {
                    let plen = out.len() - n as usize;
                    let body_ok = if exact { out[plen..].iter().all(|x| *x == fill) } else { out[plen..] == *atom };
                    let mut v = json!({"r": "ok", "prefix": bytes_json(&out[..plen]), "total": n_le(out.len() as u128),
                                       "body_ok": body_ok});
                    match catch(|| cache_len(&a, node).unwrap_or(0)) {
                        Ok(x) => v["cache"] = n_le(x as u128),
                        Err(p) => v["cache_panic"] = json!(p),
                    }
                    v
                }
                Err(e) => json!({"r": err_kind(&e)}),
            }
        }
    });
    Some(with_panic(ev, r))
}

/// n-fold repetition of `item` on a spine ending in `tail`, built directly in the allocator
fn ev_rep(shape: &str, n: u64, item: &Value, tail: &Value) -> Value {
    let ev = json!({"ev": "rep", "shape": shape, "n": n, "item": item, "tail": tail});
    let r = catch(|| {
        let mut a = Allocator::new();
        let it = build_tree(&mut a, item, false);
        let mut acc = if shape == "dbl" { it } else { build_tree(&mut a, tail, false) };
        for _ in 0..n {
            acc = match shape {
                "rlist" => a.new_pair(it, acc).unwrap(),
                "llist" => a.new_pair(acc, it).unwrap(),
                _ => a.new_pair(acc, acc).unwrap(),
            };
        }
        let o = node_to_bytes_limit(&a, acc, usize::MAX);
        let Ok(out) = o else {
            return json!({"r": res_str(&o)});
        };
        let mut v = json!({"r": "ok", "out_len": out.len(), "out_sha": bytes_json(&sha256(&out)),
                           "canon": is_canonical_serialization(&out),
                           "trusted": lenres(serialized_length_from_bytes_trusted(&out)),
                           "untrusted": lenres(serialized_length_from_bytes(&out)),
                           "cache": cache_len(&a, acc).unwrap_or(0)});
        let mut b = Allocator::new();
        let mut c = Cursor::new(&out[..]);
        v["de"] = match node_from_stream(&mut b, &mut c) {
            Ok(m) => json!({"ok": true, "used": c.position(), "same": node_eq(&a, acc, &b, m)}),
            Err(_) => json!({"ok": false, "used": 0, "same": false}),
        };
        v
    });
    with_panic(ev, r)
}

// SHA-256 of a byte string for summaries (independent of the library): FIPS 180-4
fn sha256(data: &[u8]) -> [u8; 32] {
    const K: [u32; 64] = [
        0x428a2f98, 0x71374491, 0xb5c0fbcf, 0xe9b5dba5, 0x3956c25b, 0x59f111f1, 0x923f82a4, 0xab1c5ed5, 0xd807aa98,
        0x12835b01, 0x243185be, 0x550c7dc3, 0x72be5d74, 0x80deb1fe, 0x9bdc06a7, 0xc19bf174, 0xe49b69c1, 0xefbe4786,
        0x0fc19dc6, 0x240ca1cc, 0x2de92c6f, 0x4a7484aa, 0x5cb0a9dc, 0x76f988da, 0x983e5152, 0xa831c66d, 0xb00327c8,
        0xbf597fc7, 0xc6e00bf3, 0xd5a79147, 0x06ca6351, 0x14292967, 0x27b70a85, 0x2e1b2138, 0x4d2c6dfc, 0x53380d13,
        0x650a7354, 0x766a0abb, 0x81c2c92e, 0x92722c85, 0xa2bfe8a1, 0xa81a664b, 0xc24b8b70, 0xc76c51a3, 0xd192e819,
        0xd6990624, 0xf40e3585, 0x106aa070, 0x19a4c116, 0x1e376c08, 0x2748774c, 0x34b0bcb5, 0x391c0cb3, 0x4ed8aa4a,
        0x5b9cca4f, 0x682e6ff3, 0x748f82ee, 0x78a5636f, 0x84c87814, 0x8cc70208, 0x90befffa, 0xa4506ceb, 0xbef9a3f7,
        0xc67178f2,
    ];
    let mut h: [u32; 8] =
        [0x6a09e667, 0xbb67ae85, 0x3c6ef372, 0xa54ff53a, 0x510e527f, 0x9b05688c, 0x1f83d9ab, 0x5be0cd19];
    let mut msg = data.to_vec();
    let bitlen = (data.len() as u64).wrapping_mul(8);
    msg.push(0x80);
    while msg.len() % 64 != 56 {
        msg.push(0);
    }
    msg.extend_from_slice(&bitlen.to_be_bytes());
    for chunk in msg.chunks(64) {
        let mut w = [0u32; 64];
        for i in 0..16 {
            w[i] = u32::from_be_bytes([chunk[4 * i], chunk[4 * i + 1], chunk[4 * i + 2], chunk[4 * i + 3]]);
        }
        for i in 16..64 {
            let s0 = w[i - 15].rotate_right(7) ^ w[i - 15].rotate_right(18) ^ (w[i - 15] >> 3);
            let s1 = w[i - 2].rotate_right(17) ^ w[i - 2].rotate_right(19) ^ (w[i - 2] >> 10);
            w[i] = w[i - 16].wrapping_add(s0).wrapping_add(w[i - 7]).wrapping_add(s1);
        }
        let mut v = h;
        for i in 0..64 {
            let s1 = v[4].rotate_right(6) ^ v[4].rotate_right(11) ^ v[4].rotate_right(25);
            let ch = (v[4] & v[5]) ^ (!v[4] & v[6]);
            let t1 = v[7].wrapping_add(s1).wrapping_add(ch).wrapping_add(K[i]).wrapping_add(w[i]);
            let s0 = v[0].rotate_right(2) ^ v[0].rotate_right(13) ^ v[0].rotate_right(22);
            let maj = (v[0] & v[1]) ^ (v[0] & v[2]) ^ (v[1] & v[2]);
            let t2 = s0.wrapping_add(maj);
            v = [t1.wrapping_add(t2), v[0], v[1], v[2], v[3].wrapping_add(t1), v[4], v[5], v[6]];
        }
        for i in 0..8 {
            h[i] = h[i].wrapping_add(v[i]);
        }
    }
    let mut out = [0u8; 32];
    for i in 0..8 {
        out[4 * i..4 * i + 4].copy_from_slice(&h[i].to_be_bytes());
    }
    out
}

// ---------------------------------------------------------------------------
// generators

const SPECIAL: &[u8] = &[0x00, 0x01, 0x7f, 0x80, 0x81, 0x82, 0xbf, 0xc0, 0xc1, 0xdf, 0xe0, 0xf0, 0xf8, 0xfb, 0xfc, 0xfd, 0xfe, 0xff];

/// the harness's own encoder, used only to *generate* inputs: classic encoding where every
/// atom's length prefix may be widened (non-minimal) with probability widen/100
fn gen_encode(r: &mut Rng, t: &Value, widen: u64) -> Vec<u8> {
    let flat = if t.get("t").is_some() { t.clone() } else { flatten_tree(t) };
    let tab = flat["t"].as_array().unwrap();
    // iterative pre-order over the flat table
    let mut out = Vec::new();
    let mut st = vec![tab.len() - 1];
    while let Some(i) = st.pop() {
        let n = &tab[i];
        if let Some(b) = n.get("a") {
            let bytes = json_bytes(b);
            let len = bytes.len() as u64;
            let min_k: u32 = if len == 1 && bytes[0] < 0x80 {
                0
            } else if len < 0x40 {
                1
            } else if len < 0x2000 {
                2
            } else if len < 0x10_0000 {
                3
            } else if len < 0x800_0000 {
                4
            } else {
                5
            };
            let k = if r.chance(widen, 100) { (min_k.max(1) + r.below(3) as u32).min(6) } else { min_k };
            if k > 0 {
                let marker: u8 = [0x80, 0xc0, 0xe0, 0xf0, 0xf8, 0xfc][(k - 1) as usize];
                let be = len.to_be_bytes();
                let tail = &be[8 - k as usize..];
                out.push(marker | tail[0]);
                out.extend_from_slice(&tail[1..]);
            }
            out.extend_from_slice(&bytes);
        } else {
            let p = n["p"].as_array().unwrap();
            out.push(0xff);
            st.push(p[1].as_u64().unwrap() as usize - 1);
            st.push(p[0].as_u64().unwrap() as usize - 1);
        }
    }
    out
}

fn gen_small_tree(r: &mut Rng, max_nodes: usize) -> Value {
    // few nodes, short atoms, repeated atoms (so that back-references appear)
    let pool: Vec<Vec<u8>> = (0..3)
        .map(|_| match r.below(6) {
            0 => vec![],
            1 => vec![r.below(0x80) as u8],
            2 => vec![0x80 + r.below(0x80) as u8],
            3 => {
                let k = 2 + r.below(4) as usize;
                r.bytes(k)
            }
            4 => r.pick(BOUNDARY_ATOMS).to_vec(),
            _ => {
                let k = *r.pick(&[3usize, 5, 8, 0x3f, 0x40, 0x41]);
                r.bytes(k)
            }
        })
        .collect();
    fn go(r: &mut Rng, left: &mut i64, pool: &[Vec<u8>]) -> Value {
        *left -= 1;
        if *left <= 1 || r.chance(40, 100) {
            atom_json(&pool[r.below(pool.len() as u64) as usize])
        } else {
            let f = go(r, left, pool);
            let rr = go(r, left, pool);
            json!({"f": f, "r": rr})
        }
    }
    let mut left = 1 + r.below(max_nodes as u64) as i64;
    go(r, &mut left, &pool)
}

/// spine of the given depth written directly in the flat form
fn gen_deep(r: &mut Rng, depth: usize) -> Value {
    let mode = r.below(3);
    let mut tab: Vec<Value> = vec![atom_json(&rand_atom_bytes(r, 6))];
    let mut root = 1usize;
    for i in 0..depth {
        tab.push(atom_json(&rand_atom_bytes(r, 4)));
        let leaf = tab.len();
        let left_spine = match mode { 0 => false, 1 => true, _ => i % 2 == 0 };
        tab.push(if left_spine { json!({"p": [root, leaf]}) } else { json!({"p": [leaf, root]}) });
        root = tab.len();
    }
    json!({"t": tab})
}

fn gen_wide(r: &mut Rng, levels: u32) -> Value {
    fn go(r: &mut Rng, l: u32) -> Value {
        if l == 0 {
            atom_json(&rand_atom_bytes(r, 5))
        } else {
            let f = go(r, l - 1);
            let rr = go(r, l - 1);
            json!({"f": f, "r": rr})
        }
    }
    go(r, levels)
}

fn gen_boundary_tree(r: &mut Rng, big: bool) -> Value {
    let lens: &[usize] = if big { &[0x1ffe, 0x1fff, 0x2000, 0x2001] } else { &[0x3e, 0x3f, 0x40, 0x41, 0x7f, 0x80, 0xff, 0x100] };
    let n = *r.pick(lens);
    let fillb = *r.pick(&[0u8, 1, 0x7f, 0x80, 0xfe, 0xff]);
    let mut bytes = vec![fillb; n];
    if r.chance(1, 2) {
        bytes = r.bytes(n);
    }
    let at = atom_json(&bytes);
    match r.below(3) {
        0 => at,
        1 => json!({"f": at, "r": atom_json(&rand_atom_bytes(r, 4))}),
        _ => json!({"f": atom_json(&rand_atom_bytes(r, 4)), "r": {"f": at, "r": atom_json(&[])}}),
    }
}

fn gen_tree(r: &mut Rng, thorough: bool) -> Value {
    match r.below(100) {
        0..=54 => {
            let budget = 1 + r.below(40) as usize;
            let max_atom = *r.pick(&[2usize, 8, 20, 70]);
            let share = *r.pick(&[0u64, 0, 30, 70]);
            rand_tree(r, budget, max_atom, share)
        }
        55..=69 => gen_small_tree(r, 9),
        70..=79 => gen_boundary_tree(r, false),
        80..=81 => gen_boundary_tree(r, true),
        82..=89 => {
            let lv = 1 + r.below(6) as u32;
            gen_wide(r, lv)
        }
        _ => {
            let d = if thorough { 50 + r.below(1500) } else { 50 + r.below(350) };
            gen_deep(r, d as usize)
        }
    }
}

fn rand_bytes_biased(r: &mut Rng, len: usize) -> Vec<u8> {
    (0..len).map(|_| if r.chance(2, 3) { *r.pick(SPECIAL) } else { r.next() as u8 }).collect()
}

fn mutate(r: &mut Rng, b: &mut Vec<u8>) {
    let k = 1 + r.below(3);
    for _ in 0..k {
        match r.below(5) {
            0 if !b.is_empty() => {
                let i = r.below(b.len() as u64) as usize;
                b[i] ^= 1 << r.below(8);
            }
            1 if !b.is_empty() => {
                let i = r.below(b.len() as u64) as usize;
                b[i] = *r.pick(SPECIAL);
            }
            2 => {
                let i = r.below(b.len() as u64 + 1) as usize;
                b.insert(i, *r.pick(SPECIAL));
            }
            3 if !b.is_empty() => {
                let i = r.below(b.len() as u64) as usize;
                b.remove(i);
            }
            _ => {
                if !b.is_empty() {
                    let i = r.below(b.len() as u64) as usize;
                    b[i] = r.next() as u8;
                }
            }
        }
    }
}

fn gen_bytes(r: &mut Rng) -> Vec<u8> {
    let small = |r: &mut Rng| {
        if r.chance(1, 2) { gen_small_tree(r, 9) } else { let bu = 1 + r.below(25) as usize; rand_tree(r, bu, 12, 20) }
    };
    match r.below(100) {
        0..=19 => {
            let n = r.below(13) as usize;
            rand_bytes_biased(r, n)
        }
        20..=34 => {
            let t = small(r);
            gen_encode(r, &t, 0)
        }
        35..=49 => {
            // non-minimal length prefixes
            let t = small(r);
            let w = *r.pick(&[15u64, 40, 100]);
            gen_encode(r, &t, w)
        }
        50..=69 => {
            let t = small(r);
            let w = *r.pick(&[0u64, 0, 30]);
            let mut b = gen_encode(r, &t, w);
            mutate(r, &mut b);
            b
        }
        70..=84 => {
            // truncated
            let t = small(r);
            let w = *r.pick(&[0u64, 0, 30]);
            let mut b = gen_encode(r, &t, w);
            let k = r.below(b.len() as u64 + 1) as usize;
            b.truncate(k);
            b
        }
        85..=91 => {
            // trailing bytes
            let t = small(r);
            let mut b = gen_encode(r, &t, 0);
            let extra = 1 + r.below(4) as usize;
            b.extend(rand_bytes_biased(r, extra));
            b
        }
        _ => {
            // hostile: a complete length prefix of every class announcing (nearly) the most it can, with a
            // body that is missing or far too short - alone, or inside nested cons cells
            let pre: &[u8] = *r.pick(&[
                &[0xbf][..], &[0xdf, 0xff], &[0xef, 0xff, 0xff], &[0xf7, 0xff, 0xff, 0xff], &[0xf8, 0x40, 0x00, 0x00, 0x00],
                &[0xfb, 0xff, 0xff, 0xff, 0xff], &[0xfc, 0x03, 0xff, 0xff, 0xff, 0xff], &[0xfc, 0x00, 0x7f, 0xff, 0xff, 0xff],
                &[0xf0, 0x10, 0x00, 0x00], &[0xe0, 0x20, 0x00], &[0xfd, 0xff, 0xff, 0xff, 0xff, 0xff], &[0xfe, 0xff, 0xff, 0xff, 0xff, 0xff, 0xff],
            ]);
            let mut h = pre.to_vec();
            let extra = r.below(6) as usize;
            h.extend(if r.chance(1, 2) { vec![0u8; extra] } else { r.bytes(extra) });
            match r.below(5) {
                0 | 1 => h,
                2 => [&[0xff][..], &h[..]].concat(),
                3 => [&[0xff, 0x80][..], &h[..]].concat(),
                _ => [&[0xff, 0xff, 0x01, 0x81, 0x80][..], &h[..]].concat(),
            }
        }
    }
}

fn bytes_events(out: &mut Out, b: &[u8], mix: &str, r: &mut Rng) {
    match mix {
        "C16" => {
            out.emit(&guarded("de", b, false));
            out.emit(&guarded("triples", b, true));
            if r.chance(1, 4) || risky(b) {
                out.emit(&guarded("triples", b, false));
            }
            out.emit(&guarded("hash", b, false));
            out.emit(&guarded("canon", b, false));
            if r.chance(1, 3) || risky(b) {
                out.emit(&guarded("lenb", b, false));
            }
        }
        _ => {
            out.emit(&guarded("de", b, false));
            out.emit(&guarded("canon", b, false));
            out.emit(&guarded("reser", b, false));
            out.emit(&guarded("lenb", b, false));
        }
    }
}

fn hwm_kb() -> u64 {
    std::fs::read_to_string("/proc/self/status")
        .ok()
        .and_then(|s| {
            s.lines().find(|l| l.starts_with("VmHWM:")).and_then(|l| l.split_whitespace().nth(1).and_then(|x| x.parse().ok()))
        })
        .unwrap_or(0)
}

fn pow2(k: u32) -> u128 {
    1u128 << k
}

/// the prefix of width k (1..=6) carrying size n, as the decoders read it
fn prefix_of_width(n: u128, k: usize) -> Vec<u8> {
    let marker: u8 = [0x80, 0xc0, 0xe0, 0xf0, 0xf8, 0xfc][k - 1];
    let be = (n as u64).to_be_bytes();
    let tail = &be[8 - k..];
    let mut p = vec![marker | tail[0]];
    p.extend_from_slice(&tail[1..]);
    p
}

fn record_big(out: &mut Out, r: &mut Rng, caps: &Caps, thorough: bool) {
    // sizes around every class boundary the caps allow
    let mut bounds: Vec<u128> = vec![0x40, 0x2000, 0x10_0000, 0x800_0000, 0x1000_0000];
    if thorough {
        bounds.push(1 << 32);
        bounds.push(1 << 34);
    }
    for b in bounds {
        for d in [-1i128, 0, 1] {
            let n = (b as i128 + d) as u128;
            let fill = if n <= (1 << 20) { *r.pick(&[0u8, 0x80, 0xff]) } else { 0 };
            for via in ["write_atom", "node_to_bytes", "node_to_bytes_limit"] {
                if via == "node_to_bytes" && n > 3_000_000 {
                    continue;
                }
                if let Some(e) = ev_bigser(n, fill, via, caps) {
                    out.emit(&e);
                }
            }
            if n >= (1 << 34) {
                // announced sizes of 2^34 and more are refused although the bytes are there
                let p = prefix_of_width(n, 6);
                if let Some(e) = ev_big(&p, n, 0, caps) {
                    out.emit(&e);
                }
                continue;
            }
            // decode side: every prefix width that can carry n, exact and one byte short
            for k in 1..=6usize {
                let cap: u128 = [1 << 6, 1 << 13, 1 << 20, 1 << 27, 1 << 34, 1 << 41][k - 1];
                if n >= cap {
                    continue;
                }
                let p = prefix_of_width(n, k);
                if let Some(e) = ev_big(&p, n, fill, caps) {
                    out.emit(&e);
                }
                if d == 0 && n > 0 {
                    if let Some(e) = ev_big(&p, n - 1, fill, caps) {
                        out.emit(&e);
                    }
                }
            }
        }
    }
}

fn main() {
    let args: Vec<String> = std::env::args().collect();
    let cmd = args.get(1).map(|s| s.as_str()).unwrap_or("");
    let outp = arg(&args, "--out").unwrap_or("-".into());
    if let Some(d) = std::path::Path::new(&outp).parent() {
        if outp != "-" && !d.as_os_str().is_empty() {
            TMPDIR.with(|t| *t.borrow_mut() = d.to_string_lossy().to_string());
        }
    }
    let mut out = Out::create(&outp);
    let caps = Caps {
        virt: pow2(arg_u64(&args, "--cap-virtual", 28) as u32) + 64,
        full: pow2(arg_u64(&args, "--cap-full", 21) as u32) + 64,
    };
    match cmd {
        "replay" => {
            let cases = read_ndjson(&arg(&args, "--in").unwrap());
            let mut n = 0u64;
            let mut skipped = 0u64;
            let risky_inputs: Vec<Vec<u8>> =
                cases.iter().filter(|c| c["kind"] == "bytes").map(|c| json_bytes(&c["b"])).filter(|b| risky(b)).collect();
            prefill(&risky_inputs);
            for c in &cases {
                n += 1;
                let kind = c["kind"].as_str().unwrap_or("");
                let mut what: Vec<&str> = Vec::new();
                let mut obs = json!({});
                match kind {
                    "tree" => {
                        let exp_bytes = json_bytes(&c["bytes"]);
                        let exp_len = c["len"].as_u64().unwrap();
                        for share in [false, true] {
                            let s = ev_ser(&c["t"], share);
                            if s.get("panic").is_some() || s["r"] != "ok" || json_bytes(&s["out"]) != exp_bytes {
                                what.push("ser.bytes");
                                obs["ser"] = s;
                            }
                            let l = ev_len(&c["t"], share);
                            if l.get("panic").is_some()
                                || l["trusted"] != json!({"ok": true, "v": exp_len})
                                || l["untrusted"] != json!({"ok": true, "v": exp_len})
                                || l["cache"] != json!(exp_len)
                            {
                                what.push("len");
                                obs["len"] = l;
                            }
                        }
                        let d = ev_de(&exp_bytes);
                        if d.get("panic").is_some()
                            || d["s"]["ok"] != true
                            || d["s"]["used"] != json!(exp_len)
                            || !same_tree(&d["s"]["t"], &c["t"])
                            || d["nb"]["ok"] != true
                            || !same_tree(&d["nb"]["t"], &c["t"])
                        {
                            what.push("roundtrip");
                            obs["de"] = d;
                        }
                        let cn = ev_canon(&exp_bytes);
                        if cn["v"] != true {
                            what.push("canonical");
                            obs["canon"] = cn;
                        }
                        let h = ev_hash(&exp_bytes);
                        if h["ok"] != true || h["h"] != c["hash"] || h["used"] != json!(exp_len) {
                            what.push("hash");
                            obs["hash"] = h;
                        }
                    }
                    "bytes" => {
                        let b = json_bytes(&c["b"]);
                        let ok = c["ok"].as_bool().unwrap();
                        // C16 "without over-allocating": bound from the specification (SerClassic!MemBoundFor)
                        let mb = c["mb"].as_u64().unwrap_or(u64::MAX);
                        let mbu = c["mbu"].as_u64().unwrap_or(u64::MAX);
                        let memchk = |e: &Value, key: &str, bound: u64, name: &'static str, what: &mut Vec<&'static str>| -> Option<Value> {
                            if e["ev"] == "crash" {
                                what.push(if e["overalloc"] == true { "crash-overalloc" } else { "crash" });
                                return None;
                            }
                            if let Some(m) = e.get(key) {
                                if m["req"].as_u64().unwrap_or(0) > bound || m["peak"].as_u64().unwrap_or(0) > bound {
                                    what.push(name);
                                    return Some(m.clone());
                                }
                            }
                            None
                        };
                        let d = guarded("de", &b, false);
                        if d["ev"] == "crash" {
                            obs["crash_de"] = d.clone();
                        }
                        if let Some(m) = memchk(&d, "mem_s", mb, "mem:node_from_stream", &mut what) {
                            obs["mem:node_from_stream"] = m;
                        }
                        if let Some(m) = memchk(&d, "mem_nb", mb, "mem:node_from_bytes", &mut what) {
                            obs["mem:node_from_bytes"] = m;
                        }
                        let de_ok = d["ev"] == "crash" || d.get("panic").is_none()
                            && d["s"]["ok"] == ok
                            && d["nb"]["ok"] == ok
                            && (!ok
                                || (d["s"]["used"] == c["used"]
                                    && same_tree(&d["s"]["t"], &c["t"])
                                    && same_tree(&d["nb"]["t"], &c["t"])));
                        if !de_ok {
                            what.push("de");
                            obs["de"] = d;
                        }
                        for th in [true, false] {
                            let t = guarded("triples", &b, th);
                        if t["ev"] == "crash" {
                            obs["crash_triples"] = t.clone();
                        }
                            if let Some(m) = memchk(&t, "mem", mb, "mem:parse_triples", &mut what) {
                                obs["mem:parse_triples"] = m;
                            }
                            let t_ok = t["ev"] == "crash" || t.get("panic").is_none()
                                && t["ok"] == ok
                                && (!ok || (t["used"] == c["used"] && t["tr"] == c["tr"] && (!th || t["h"] == c["h"])));
                            if !t_ok {
                                what.push("triples");
                                obs["triples"] = t;
                            }
                        }
                        let h = guarded("hash", &b, false);
                        if h["ev"] == "crash" {
                            obs["crash_hash"] = h.clone();
                        }
                        if let Some(m) = memchk(&h, "mem", mb, "mem:tree_hash_from_stream", &mut what) {
                            obs["mem:tree_hash_from_stream"] = m;
                        }
                        let h_ok = h["ev"] == "crash" || h.get("panic").is_none() && h["ok"] == ok && (!ok || (h["used"] == c["used"] && h["h"] == c["h"]));
                        if !h_ok {
                            what.push("hash");
                            obs["hash"] = h;
                        }
                        let cn = guarded("canon", &b, false);
                        if cn["ev"] == "crash" {
                            obs["crash_canon"] = cn.clone();
                        }
                        if let Some(m) = memchk(&cn, "mem", mb, "mem:is_canonical_serialization", &mut what) {
                            obs["mem:is_canonical_serialization"] = m;
                        }
                        if cn["ev"] != "crash" && (cn.get("panic").is_some() || cn["v"] != c["canon"]) {
                            what.push("canon");
                            obs["canon"] = cn;
                        }
                        let l = guarded("lenb", &b, false);
                        if l["ev"] == "crash" {
                            obs["crash_lenb"] = l.clone();
                        }
                        if let Some(m) = memchk(&l, "mem_t", mb, "mem:serialized_length_from_bytes_trusted", &mut what) {
                            obs["mem:serialized_length_from_bytes_trusted"] = m;
                        }
                        if let Some(m) = memchk(&l, "mem_u", mbu, "mem:serialized_length_from_bytes", &mut what) {
                            obs["mem:serialized_length_from_bytes"] = m;
                        }
                        let lt_ok = c["lt_ok"].as_bool().unwrap();
                        let l_ok = l["ev"] == "crash" || l.get("panic").is_none()
                            && l["trusted"]["ok"] == lt_ok
                            && (!lt_ok || l["trusted"]["v"] == c["lt"])
                            && (c["fe"] == true || (l["untrusted"]["ok"] == ok && (!ok || l["untrusted"]["v"] == c["used"])));
                        if !l_ok {
                            what.push("lenb");
                            obs["lenb"] = l;
                        }
                        if ok {
                            let rs = guarded("reser", &b, false);
                            // decodes and canonical => re-serializes to exactly the consumed bytes
                            let used = c["used"].as_u64().unwrap() as usize;
                            if rs.get("panic").is_some()
                                || rs["ok"] != true
                                || rs["r"] != "ok"
                                || (rs["canon"] == true && json_bytes(&rs["out"]) != b[..used])
                            {
                                what.push("reser");
                                obs["reser"] = rs;
                            }
                        }
                    }
                    "limit" => {
                        let l = c["L"].as_u64().unwrap() as usize;
                        let r = catch(|| {
                            let mut a = Allocator::new();
                            let n = build_tree(&mut a, &c["t"], false);
                            node_to_bytes_limit(&a, n, l)
                        });
                        let good = match &r {
                            Ok(Ok(b)) => c["ok"] == true && *b == json_bytes(&c["bytes"]),
                            Ok(Err(e)) => c["ok"] == false && c["err"] == err_kind(e),
                            Err(_) => false,
                        };
                        if !good {
                            what.push("limit");
                            obs["r"] = match &r {
                                Ok(Ok(b)) => json!({"r": "ok", "out": bytes_json(b)}),
                                Ok(Err(e)) => json!({"r": err_kind(e)}),
                                Err(p) => json!({"panic": p}),
                            };
                        }
                    }
                    "prefix" => {
                        let nn = le_n(&c["n"]);
                        let fill = c["fill"].as_u64().unwrap() as u8;
                        match ev_bigser(nn, fill, "write_atom", &caps) {
                            None => skipped += 1,
                            Some(e) => {
                                let ok = c["ok"].as_bool().unwrap();
                                let total = nn + c["prefix"].as_array().map(|a| a.len()).unwrap_or(0) as u128;
                                let good = e.get("panic").is_none()
                                    && (e["r"] == "ok") == ok
                                    && (!ok || (e["prefix"] == c["prefix"] && e["total"] == n_le(total) && e["body_ok"] == true));
                                let cache_good = e.get("cache_panic").is_none()
                                    && (!ok || e.get("cache").is_none() || e["cache"] == n_le(total));
                                if !good {
                                    what.push("prefix");
                                }
                                if !cache_good {
                                    what.push("prefix.cache");
                                }
                                if !good || !cache_good {
                                    obs["bigser"] = e;
                                }
                            }
                        }
                    }
                    "wprefix" => {
                        let nn = le_n(&c["n"]);
                        let fill = c["fill"].as_u64().unwrap() as u8;
                        let p = json_bytes(&c["p"]);
                        match ev_big(&p, nn, fill, &caps) {
                            None => skipped += 1,
                            Some(e) => {
                                let ok = c["ok"].as_bool().unwrap();
                                let want = if ok { json!({"ok": true, "v": c["used"]}) } else { json!({"ok": false}) };
                                let mut good = e.get("panic").is_none();
                                if good && e["canon"] != c["canon"] {
                                    what.push("wprefix.canon");
                                }
                                if good && (e["trusted"] != want || e["untrusted"] != want) {
                                    what.push("wprefix.len");
                                }
                                if good {
                                    for f in ["de", "hash", "triples"] {
                                        if let Some(x) = e.get(f) {
                                            if x["ok"] != ok || (ok && x["used"] != c["used"]) {
                                                what.push("wprefix.decode");
                                            }
                                            if ok && f == "de" && (x["alen"] != c["n"] || x["body_ok"] != true) {
                                                what.push("wprefix.atom");
                                            }
                                        }
                                    }
                                } else {
                                    what.push("panic");
                                }
                                good = what.is_empty();
                                if !good {
                                    obs["big"] = e;
                                }
                            }
                        }
                    }
                    _ => what.push("unknown-case-kind"),
                }
                if !what.is_empty() {
                    out.emit(&json!({"case": c, "what": what, "obs": obs}));
                }
            }
            out.emit(&json!({"done": n, "skipped": skipped}));
        }
        "record" => {
            if let Some(from) = arg(&args, "--from") {
                // re-execute recorded calls on their recorded inputs
                for e in read_ndjson(&from) {
                    let ev = e["ev"].as_str().unwrap_or("");
                    let share = e["share"].as_bool().unwrap_or(false);
                    let b = json_bytes(&e["b"]);
                    let v = match ev {
                        "ser" => Some(ev_ser(&e["t"], share)),
                        "len" => Some(ev_len(&e["t"], share)),
                        "limit" => Some(ev_limit(&e["t"], e["fn"].as_str().unwrap(), share)),
                        "de" | "hash" | "canon" | "lenb" | "reser" => Some(guarded(ev, &b, false)),
                        "triples" => Some(guarded(ev, &b, e["th"].as_bool().unwrap_or(true))),
                        "crash" => Some(guarded(e["of"].as_str().unwrap_or("de"), &b, e["th"].as_bool().unwrap_or(true))),
                        "big" => ev_big(&json_bytes(&e["p"]), le_n(&e["have"]), e["fill"].as_u64().unwrap() as u8, &caps),
                        "bigser" => ev_bigser(le_n(&e["n"]), e["fill"].as_u64().unwrap() as u8, e["via"].as_str().unwrap(), &caps),
                        "rep" => Some(ev_rep(e["shape"].as_str().unwrap(), e["n"].as_u64().unwrap(), &e["item"], &e["tail"])),
                        _ => None,
                    };
                    if let Some(v) = v {
                        out.emit(&v);
                    }
                }
            } else {
                let seed = arg_u64(&args, "--seed", 1);
                let n = arg_u64(&args, "--n", 1000);
                let mix = arg(&args, "--mix").unwrap_or("C15".into());
                let thorough = arg(&args, "--tier").map(|t| t == "thorough").unwrap_or(false);
                let special = arg_u64(&args, "--special", 0) == 1;
                let mut r = Rng::new(seed ^ match mix.as_str() { "C15" => 0x15, "C16" => 0x16, _ => 0x29 });
                if special && mix == "C15" {
                    // inputs TLC cannot hold: summaries
                    record_big(&mut out, &mut r, &caps, thorough);
                    let reps: &[u64] = if thorough { &[1000, 20000, 100000] } else { &[1000, 10000] };
                    // shared sub-trees: k doublings of one item (a DAG of k pairs, 2^k leaves when expanded)
                    for k in [3u64, 9, if thorough { 16 } else { 13 }] {
                        let item = if r.chance(1, 2) { atom_json(&rand_atom_bytes(&mut r, 4)) } else { gen_small_tree(&mut r, 3) };
                        out.emit(&ev_rep("dbl", k, &item, &atom_json(&[])));
                    }
                    // node_to_bytes is node_to_bytes_limit(2 000 000): atoms whose serialization is 1 999 999 .. 2 000 001 bytes
                    for nn in [1_999_995u128, 1_999_996, 1_999_997] {
                        if let Some(e) = ev_bigser(nn, 0, "node_to_bytes", &caps) {
                            out.emit(&e);
                        }
                    }
                    for &k in reps {
                        for shape in ["rlist", "llist"] {
                            let item = if r.chance(1, 2) { atom_json(&rand_atom_bytes(&mut r, 4)) } else { gen_small_tree(&mut r, 3) };
                            let tail = atom_json(&rand_atom_bytes(&mut r, 3));
                            out.emit(&ev_rep(shape, k, &item, &tail));
                        }
                    }
                }
                // inputs that could provoke a refused (> 1 GiB) allocation are run at the end, in child processes
                let mut deferred: Vec<Vec<u8>> = Vec::new();
                let last = arg(&args, "--last");
                let note = |v: &Value| {
                    // the input about to be run, so that an abort of the process can be attributed
                    if let Some(p) = &last {
                        let _ = std::fs::write(p, v.to_string());
                    }
                };
                for _ in 0..n {
                    match mix.as_str() {
                        "C15" => {
                            if r.chance(3, 5) {
                                let t = gen_tree(&mut r, thorough);
                                let share = r.chance(1, 2);
                                note(&json!({"t": norm_tree(t.clone()), "share": share}));
                                let s = ev_ser(&t, share);
                                let outb = if s["r"] == "ok" { Some(json_bytes(&s["out"])) } else { None };
                                out.emit(&s);
                                out.emit(&ev_len(&t, share));
                                if let Some(b) = outb {
                                    out.emit(&ev_de(&b));
                                    out.emit(&ev_canon(&b));
                                    if r.chance(1, 3) {
                                        out.emit(&ev_reser(&b));
                                    }
                                }
                            } else {
                                let b = gen_bytes(&mut r);
                                if risky(&b) {
                                    deferred.push(b);
                                    continue;
                                }
                                note(&json!({"b": bytes_json(&b)}));
                                bytes_events(&mut out, &b, "C15", &mut r);
                            }
                        }
                        "C16" => {
                            let b = if r.chance(1, 6) {
                                let t = gen_tree(&mut r, thorough);
                                gen_encode(&mut r, &t, 0)
                            } else {
                                gen_bytes(&mut r)
                            };
                            if risky(&b) {
                                deferred.push(b);
                                continue;
                            }
                            note(&json!({"b": bytes_json(&b)}));
                            bytes_events(&mut out, &b, "C16", &mut r);
                        }
                        _ => {
                            // C29: every limit 0..=len+1 for small trees, both limited serializers
                            let t = loop {
                                let t = if r.chance(2, 3) { gen_small_tree(&mut r, 9) } else { let bu = 1 + r.below(14) as usize; rand_tree(&mut r, bu, 6, 40) };
                                if gen_encode(&mut r, &t, 0).len() <= 90 {
                                    break t;
                                }
                            };
                            let share = r.chance(1, 2);
                            note(&json!({"t": norm_tree(t.clone()), "share": share}));
                            out.emit(&ev_limit(&t, "classic", share));
                            out.emit(&ev_limit(&t, "backrefs", share));
                        }
                    }
                }
                if !deferred.is_empty() {
                    out.flush();
                    prefill(&deferred);
                    for b in &deferred {
                        bytes_events(&mut out, b, if mix == "C16" { "C16" } else { "C15" }, &mut r);
                    }
                }
            }
            if let Some(sp) = arg(&args, "--stats") {
                // (the deferred inputs have been emitted above)
                std::fs::write(sp, json!({"lines": out.lines, "hwm_kb": hwm_kb()}).to_string()).unwrap();
            }
        }
        "childbatch" => {
            // byte-string events in a process of its own (see `run_batch`); one line per item, flushed at once
            use std::io::BufRead;
            let f = std::fs::File::open(arg(&args, "--in").unwrap()).expect("open batch");
            let skip = arg_u64(&args, "--skip", 0) as usize;
            for l in std::io::BufReader::new(f).lines().skip(skip) {
                let e: Value = serde_json::from_str(&l.unwrap()).expect("json line");
                let b = json_bytes(&e["b"]);
                out.emit(&byte_event(e["ev"].as_str().unwrap(), &b, e["th"].as_bool().unwrap_or(false)));
                out.flush();
            }
        }
        "probe-pairs" => {
            // not part of any check: the classic decoders on an input with more pairs than the
            // Allocator admits (MAX_NUM_PAIRS = 62 500 000): ff^N 80^(N+1)
            let n = arg_u64(&args, "--pairs", 62_500_001) as usize;
            let mut b = vec![0xffu8; n];
            b.extend(std::iter::repeat(0x80u8).take(n + 1));
            let t0 = std::time::Instant::now();
            let nb = catch(|| {
                let mut a = Allocator::new();
                res_str(&node_from_bytes(&mut a, &b)).to_string()
            });
            let t1 = t0.elapsed().as_secs_f64();
            let th = catch(|| {
                let mut c = Cursor::new(&b[..]);
                let r = tree_hash_from_stream(&mut c);
                json!({"r": res_str(&r), "used": c.position()})
            });
            let t2 = t0.elapsed().as_secs_f64();
            let cn = catch(|| is_canonical_serialization(&b));
            let lt = catch(|| lenres(serialized_length_from_bytes_trusted(&b)));
            out.emit(&json!({"pairs": n, "bytes": b.len(), "node_from_bytes": format!("{:?}", nb), "tree_hash_from_stream": format!("{:?}", th),
                             "is_canonical": format!("{:?}", cn), "trusted_len": format!("{:?}", lt),
                             "secs": [t1, t2], "hwm_kb": hwm_kb()}));
        }
        _ => {
            eprintln!("usage: serde replay|record ...");
            std::process::exit(2);
        }
    }
    out.flush();
}
