//! Shared helpers of the verification harness: the JSON conventions of the
//! traces (see /verif/CONVENTIONS.md), tree conversion, a tiny deterministic RNG,
//! and names for error kinds and flags.
//!
//! JSON conventions
//!   tree   : atom {"a":[b0,b1,..]}   pair {"f":T,"r":T}
//!   wide N : little-endian base-256 digit array, normalised ([] is zero)
//!   bytes  : array of ints 0..255

use clvmr::allocator::{Allocator, NodePtr, SExp};
use clvmr::chia_dialect::ClvmFlags;
use clvmr::error::EvalErr;
use serde_json::{json, Value};
use std::io::{BufRead, Write};

pub mod gen;

// ---------------------------------------------------------------------------
// numbers

pub fn n_le(mut n: u128) -> Value {
    let mut v = Vec::new();
    while n > 0 {
        v.push(json!((n & 255) as u8));
        n >>= 8;
    }
    Value::Array(v)
}

pub fn le_n(v: &Value) -> u128 {
    let mut n: u128 = 0;
    if let Some(a) = v.as_array() {
        for (i, d) in a.iter().enumerate() {
            n |= (d.as_u64().unwrap() as u128) << (8 * i);
        }
    }
    n
}

pub fn bytes_json(b: &[u8]) -> Value {
    Value::Array(b.iter().map(|x| json!(*x)).collect())
}

pub fn json_bytes(v: &Value) -> Vec<u8> {
    v.as_array()
        .map(|a| a.iter().map(|x| x.as_u64().unwrap() as u8).collect())
        .unwrap_or_default()
}

// ---------------------------------------------------------------------------
// trees  (iterative: trees can be deep)

pub fn tree_json(a: &Allocator, root: NodePtr) -> Value {
    norm_tree(tree_json_nested(a, root))
}

/// nested form regardless of depth (do not write this to a trace unchecked: JSON readers
/// on both sides limit nesting; `Out::emit` flattens deep trees automatically)
pub fn tree_json_nested(a: &Allocator, root: NodePtr) -> Value {
    enum Op {
        Visit(NodePtr),
        Build,
    }
    let mut ops = vec![Op::Visit(root)];
    let mut vals: Vec<Value> = Vec::new();
    while let Some(op) = ops.pop() {
        match op {
            Op::Visit(n) => match a.sexp(n) {
                SExp::Atom => vals.push(json!({"a": bytes_json(a.atom(n).as_ref())})),
                SExp::Pair(f, r) => {
                    ops.push(Op::Build);
                    ops.push(Op::Visit(r));
                    ops.push(Op::Visit(f));
                }
            },
            Op::Build => {
                let r = vals.pop().unwrap();
                let f = vals.pop().unwrap();
                vals.push(json!({"f": f, "r": r}));
            }
        }
    }
    vals.pop().unwrap()
}

/// Build a tree in the allocator with `new_atom` for every atom (each JSON node is
/// allocated once; no sharing).
/// the tree with MAXIMAL sharing: equal sub-trees (atoms and pairs) are one node (nested form only, small trees)
pub fn json_tree_shared(a: &mut Allocator, v: &Value) -> Result<NodePtr, EvalErr> {
    fn rec(a: &mut Allocator, v: &Value, memo: &mut std::collections::HashMap<String, NodePtr>) -> Result<NodePtr, EvalErr> {
        let key = v.to_string();
        if let Some(n) = memo.get(&key) {
            return Ok(*n);
        }
        let n = if let Some(b) = v.get("a") {
            a.new_atom(&json_bytes(b))?
        } else {
            let f = rec(a, &v["f"], memo)?;
            let r = rec(a, &v["r"], memo)?;
            a.new_pair(f, r)?
        };
        memo.insert(key, n);
        Ok(n)
    }
    if v.get("t").is_some() {
        return json_tree(a, v);
    }
    rec(a, v, &mut std::collections::HashMap::new())
}

pub fn json_tree(a: &mut Allocator, v: &Value) -> Result<NodePtr, EvalErr> {
    if let Some(tab) = v.get("t").and_then(|t| t.as_array()) {
        // flat form: {"t":[node,..]}, node = {"a":[bytes]} | {"p":[i,j]} (1-based, earlier entries), root last
        let mut nodes: Vec<NodePtr> = Vec::with_capacity(tab.len());
        for n in tab {
            if let Some(b) = n.get("a") {
                nodes.push(a.new_atom(&json_bytes(b))?);
            } else {
                let p = n["p"].as_array().expect("flat pair");
                let f = nodes[p[0].as_u64().unwrap() as usize - 1];
                let r = nodes[p[1].as_u64().unwrap() as usize - 1];
                nodes.push(a.new_pair(f, r)?);
            }
        }
        return Ok(*nodes.last().expect("empty flat tree"));
    }
    enum Op<'x> {
        Visit(&'x Value),
        Build,
    }
    let mut ops = vec![Op::Visit(v)];
    let mut vals: Vec<NodePtr> = Vec::new();
    while let Some(op) = ops.pop() {
        match op {
            Op::Visit(n) => {
                if let Some(b) = n.get("a") {
                    vals.push(a.new_atom(&json_bytes(b))?);
                } else {
                    ops.push(Op::Build);
                    ops.push(Op::Visit(&n["r"]));
                    ops.push(Op::Visit(&n["f"]));
                }
            }
            Op::Build => {
                let r = vals.pop().unwrap();
                let f = vals.pop().unwrap();
                vals.push(a.new_pair(f, r)?);
            }
        }
    }
    Ok(vals.pop().unwrap())
}

/// nesting depth of a nested-form tree (iterative)
pub fn tree_depth(v: &Value) -> usize {
    let mut m = 0;
    let mut st = vec![(v, 1usize)];
    while let Some((x, d)) = st.pop() {
        m = m.max(d);
        if x.get("a").is_none() && x.get("f").is_some() {
            st.push((&x["f"], d + 1));
            st.push((&x["r"], d + 1));
        }
    }
    m
}

pub const MAX_NESTED_DEPTH: usize = 48;

/// nested -> flat form {"t":[..]} (no sharing: one entry per occurrence), iterative
pub fn flatten_tree(v: &Value) -> Value {
    enum Op<'x> {
        Visit(&'x Value),
        Build,
    }
    let mut ops = vec![Op::Visit(v)];
    let mut tab: Vec<Value> = Vec::new();
    let mut idx: Vec<usize> = Vec::new();
    while let Some(op) = ops.pop() {
        match op {
            Op::Visit(n) => {
                if let Some(b) = n.get("a") {
                    let mut e = json!({"a": b.clone()});
                    if let Some(k) = n.get("n") {
                        e["n"] = k.clone();
                    }
                    tab.push(e);
                    idx.push(tab.len());
                } else {
                    ops.push(Op::Build);
                    ops.push(Op::Visit(&n["r"]));
                    ops.push(Op::Visit(&n["f"]));
                }
            }
            Op::Build => {
                let r = idx.pop().unwrap();
                let f = idx.pop().unwrap();
                tab.push(json!({"p": [f, r]}));
                idx.push(tab.len());
            }
        }
    }
    json!({"t": tab})
}

/// flat -> nested (iterative); nested input is returned unchanged
pub fn unflatten_tree(v: &Value) -> Value {
    if let Some(tab) = v.get("t").and_then(|t| t.as_array()) {
        let mut nodes: Vec<Value> = Vec::with_capacity(tab.len());
        for n in tab {
            if n.get("a").is_some() {
                nodes.push(n.clone());
            } else {
                let p = n["p"].as_array().unwrap();
                let f = nodes[p[0].as_u64().unwrap() as usize - 1].clone();
                let r = nodes[p[1].as_u64().unwrap() as usize - 1].clone();
                nodes.push(json!({"f": f, "r": r}));
            }
        }
        return nodes.pop().unwrap();
    }
    v.clone()
}

fn looks_like_tree(v: &Value) -> bool {
    v.is_object() && (v.get("a").is_some() || (v.get("f").is_some() && v.get("r").is_some()))
}

/// a tree in the form that is safe to write: nested when shallow, flat when deep
pub fn norm_tree(v: Value) -> Value {
    if looks_like_tree(&v) && tree_depth(&v) > MAX_NESTED_DEPTH {
        flatten_tree(&v)
    } else {
        v
    }
}

/// flatten every deep tree found in the fields of an event (one level of arrays/objects deep)
pub fn norm_event(v: &mut Value) {
    fn fix(x: &mut Value, level: usize) {
        if looks_like_tree(x) {
            if tree_depth(x) > MAX_NESTED_DEPTH {
                *x = flatten_tree(x);
            }
            return;
        }
        if level >= 3 {
            return;
        }
        match x {
            Value::Object(m) => {
                for (_, y) in m.iter_mut() {
                    fix(y, level + 1);
                }
            }
            Value::Array(a) => {
                for y in a.iter_mut() {
                    fix(y, level + 1);
                }
            }
            _ => {}
        }
    }
    fix(v, 0);
}

pub fn tree_size(v: &Value) -> usize {
    let mut n = 0;
    let mut st = vec![v];
    while let Some(x) = st.pop() {
        n += 1;
        if x.get("a").is_none() {
            st.push(&x["f"]);
            st.push(&x["r"]);
        }
    }
    n
}

/// largest atom length in a JSON tree
pub fn tree_max_atom(v: &Value) -> usize {
    let mut m = 0;
    let mut st = vec![v];
    while let Some(x) = st.pop() {
        if let Some(b) = x.get("a") {
            m = m.max(b.as_array().map(|a| a.len()).unwrap_or(0));
        } else {
            st.push(&x["f"]);
            st.push(&x["r"]);
        }
    }
    m
}

// ---------------------------------------------------------------------------
// errors and flags

pub fn err_kind(e: &EvalErr) -> &'static str {
    match e {
        EvalErr::SerializationError => "SerializationError",
        EvalErr::SerializationBackreferenceError => "SerializationBackreferenceError",
        EvalErr::OutOfMemory => "OutOfMemory",
        EvalErr::PathIntoAtom => "PathIntoAtom",
        EvalErr::TooManyPairs => "TooManyPairs",
        EvalErr::TooManyAtoms => "TooManyAtoms",
        EvalErr::CostExceeded => "CostExceeded",
        EvalErr::UnknownSoftforkExtension => "UnknownSoftforkExtension",
        EvalErr::SoftforkCostMismatch => "SoftforkCostMismatch",
        EvalErr::InternalError(_, _) => "InternalError",
        EvalErr::Raise(_) => "Raise",
        EvalErr::InvalidNilTerminator(_) => "InvalidNilTerminator",
        EvalErr::DivisionByZero(_) => "DivisionByZero",
        EvalErr::ValueStackLimitReached(_) => "ValueStackLimitReached",
        EvalErr::EnvironmentStackLimitReached(_) => "EnvironmentStackLimitReached",
        EvalErr::ShiftTooLarge(_) => "ShiftTooLarge",
        EvalErr::Reserved(_) => "Reserved",
        EvalErr::Invalid(_) => "Invalid",
        EvalErr::Unimplemented(_) => "Unimplemented",
        EvalErr::InvalidOpArg(_, _) => "InvalidOpArg",
        EvalErr::InvalidAllocArg(_, _) => "InvalidAllocArg",
        EvalErr::BLSPairingIdentityFailed(_) => "BLSPairingIdentityFailed",
        EvalErr::BLSVerifyFailed(_) => "BLSVerifyFailed",
        EvalErr::Secp256Failed(_) => "Secp256Failed",
        EvalErr::SoftforkStackDepthExceeded => "SoftforkStackDepthExceeded",
    }
}

pub const FLAG_NAMES: &[(&str, u32)] = &[
    ("CANONICAL_INTS", 0x0001),
    ("NO_UNKNOWN_OPS", 0x0002),
    ("LIMIT_HEAP", 0x0004),
    ("RELAXED_BLS", 0x0008),
    ("LIMIT_SOFTFORK", 0x0010),
    ("ENABLE_GC", 0x0020),
    ("LIMITS", 0x0040),
    ("ENABLE_KECCAK_OPS_OUTSIDE_GUARD", 0x0100),
    ("DISABLE_OP", 0x0200),
    ("ENABLE_SHA256_TREE", 0x0400),
    ("ENABLE_SECP_OPS", 0x0800),
    ("MALACHITE", 0x1000),
    ("NEW_COST_MODEL", 0x2000),
];

pub fn flags_json(bits: u32) -> Value {
    Value::Array(
        FLAG_NAMES
            .iter()
            .filter(|(_, b)| bits & b != 0)
            .map(|(n, _)| json!(n))
            .collect(),
    )
}

pub fn json_flags(v: &Value) -> u32 {
    let mut bits = 0;
    if let Some(a) = v.as_array() {
        for n in a {
            let s = n.as_str().unwrap();
            bits |= FLAG_NAMES.iter().find(|(k, _)| *k == s).expect("flag name").1;
        }
    }
    bits
}

pub fn flags(bits: u32) -> ClvmFlags {
    ClvmFlags::from_bits_truncate(bits)
}

// ---------------------------------------------------------------------------
// deterministic RNG (splitmix64 / xorshift*) - no dependence on crate versions

#[derive(Clone)]
pub struct Rng(pub u64);

impl Rng {
    pub fn new(seed: u64) -> Self {
        let mut r = Rng(seed ^ 0x9E3779B97F4A7C15);
        r.next();
        r
    }
    pub fn next(&mut self) -> u64 {
        self.0 = self.0.wrapping_add(0x9E3779B97F4A7C15);
        let mut z = self.0;
        z = (z ^ (z >> 30)).wrapping_mul(0xBF58476D1CE4E5B9);
        z = (z ^ (z >> 27)).wrapping_mul(0x94D049BB133111EB);
        z ^ (z >> 31)
    }
    pub fn below(&mut self, n: u64) -> u64 {
        if n == 0 {
            0
        } else {
            self.next() % n
        }
    }
    pub fn range(&mut self, lo: i64, hi: i64) -> i64 {
        lo + self.below((hi - lo + 1) as u64) as i64
    }
    pub fn chance(&mut self, num: u64, den: u64) -> bool {
        self.below(den) < num
    }
    pub fn pick<'a, T>(&mut self, v: &'a [T]) -> &'a T {
        &v[self.below(v.len() as u64) as usize]
    }
    pub fn bytes(&mut self, n: usize) -> Vec<u8> {
        (0..n).map(|_| self.next() as u8).collect()
    }
}

// ---------------------------------------------------------------------------
// ndjson I/O

pub struct Out {
    w: std::io::BufWriter<Box<dyn Write>>,
    pub lines: usize,
}

impl Out {
    pub fn create(path: &str) -> Out {
        let f: Box<dyn Write> = if path == "-" {
            Box::new(std::io::stdout())
        } else {
            Box::new(std::fs::File::create(path).expect("create output"))
        };
        Out { w: std::io::BufWriter::new(f), lines: 0 }
    }
    pub fn emit(&mut self, v: &Value) {
        // deep trees are written in the flat form (JSON readers limit nesting depth)
        let mut v = v.clone();
        norm_event(&mut v);
        serde_json::to_writer(&mut self.w, &v).unwrap();
        self.w.write_all(b"\n").unwrap();
        self.lines += 1;
    }
    pub fn flush(&mut self) {
        self.w.flush().unwrap();
    }
}

pub fn read_ndjson(path: &str) -> Vec<Value> {
    let f = std::fs::File::open(path).expect("open input");
    std::io::BufReader::new(f)
        .lines()
        .map(|l| l.unwrap())
        .filter(|l| !l.trim().is_empty())
        .map(|l| serde_json::from_str(&l).expect("json line"))
        .collect()
}

/// `--key value` argument lookup
pub fn arg(args: &[String], key: &str) -> Option<String> {
    args.iter().position(|a| a == key).and_then(|i| args.get(i + 1).cloned())
}
pub fn arg_u64(args: &[String], key: &str, default: u64) -> u64 {
    arg(args, key).map(|s| s.parse().expect("numeric arg")).unwrap_or(default)
}

/// run a closure, turning a panic into Err(message)
pub fn catch<T>(f: impl FnOnce() -> T) -> Result<T, String> {
    let r = std::panic::catch_unwind(std::panic::AssertUnwindSafe(f));
    r.map_err(|e| {
        if let Some(s) = e.downcast_ref::<&str>() {
            s.to_string()
        } else if let Some(s) = e.downcast_ref::<String>() {
            s.clone()
        } else {
            "panic".to_string()
        }
    })
}
