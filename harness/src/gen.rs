//! Generators shared by the engines: boundary-value atoms and random trees
//! (optionally with heavy sub-tree sharing), built directly as JSON values so the
//! same case can be written to a trace and materialised in any allocator.

use crate::Rng;
use serde_json::{json, Value};

pub const BOUNDARY_ATOMS: &[&[u8]] = &[
    &[],
    &[0x00],
    &[0x01],
    &[0x02],
    &[0x24],
    &[0x25],
    &[0x7f],
    &[0x80],
    &[0xff],
    &[0x00, 0x80],
    &[0x00, 0x01],
    &[0x00, 0xff],
    &[0xff, 0x7f],
    &[0xff, 0x80],
    &[0x7f, 0xff],
    &[0x80, 0x00],
    &[0x00, 0x80, 0x00],
    &[0x03, 0xff, 0xff, 0xff],
    &[0x04, 0x00, 0x00, 0x00],
    &[0x7f, 0xff, 0xff, 0xff],
    &[0x00, 0x80, 0x00, 0x00, 0x00],
    &[0x7f, 0xff, 0xff, 0xff, 0xff, 0xff, 0xff, 0xff],
    &[0x80, 0x00, 0x00, 0x00, 0x00, 0x00, 0x00, 0x00],
    &[0x00, 0xff, 0xff, 0xff, 0xff, 0xff, 0xff, 0xff, 0xff],
    &[0xff, 0x00, 0x00, 0x00, 0x00, 0x00, 0x00, 0x00, 0x00],
];

pub fn atom_json(b: &[u8]) -> Value {
    json!({ "a": b.iter().map(|x| json!(*x)).collect::<Vec<_>>() })
}

/// a random atom: boundary value, small int, random short bytes, occasionally longer
pub fn rand_atom_bytes(r: &mut Rng, max_len: usize) -> Vec<u8> {
    match r.below(10) {
        0..=3 => r.pick(BOUNDARY_ATOMS).to_vec(),
        4..=5 => {
            let v = r.below(300) as u32;
            let b = v.to_be_bytes();
            let skip = b.iter().take_while(|x| **x == 0).count();
            let mut out = b[skip..].to_vec();
            if !out.is_empty() && out[0] & 0x80 != 0 {
                out.insert(0, 0);
            }
            out
        }
        6..=8 => {
            let n = r.below(9.min(max_len as u64 + 1)) as usize;
            r.bytes(n)
        }
        _ => {
            let n = r.below(max_len as u64 + 1) as usize;
            r.bytes(n)
        }
    }
}

/// random tree with at most `budget` nodes; `share` in 0..=100 is the percentage
/// chance of re-using an earlier sub-tree value at each position.
pub fn rand_tree(r: &mut Rng, budget: usize, max_atom: usize, share: u64) -> Value {
    let mut pool: Vec<Value> = Vec::new();
    let mut left = budget as i64;
    build(r, &mut left, max_atom, share, &mut pool, 0)
}

fn build(r: &mut Rng, left: &mut i64, max_atom: usize, share: u64, pool: &mut Vec<Value>, depth: usize) -> Value {
    *left -= 1;
    if !pool.is_empty() && r.chance(share, 100) {
        return r.pick(pool).clone();
    }
    let v = if *left <= 1 || depth > 60 || r.chance(35, 100) {
        atom_json(&rand_atom_bytes(r, max_atom))
    } else {
        let f = build(r, left, max_atom, share, pool, depth + 1);
        let rr = build(r, left, max_atom, share, pool, depth + 1);
        json!({"f": f, "r": rr})
    };
    if pool.len() < 64 {
        pool.push(v.clone());
    }
    v
}

/// proper list of the given items
pub fn list_json(items: &[Value]) -> Value {
    let mut t = atom_json(&[]);
    for it in items.iter().rev() {
        t = json!({"f": it.clone(), "r": t});
    }
    t
}
