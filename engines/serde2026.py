"""C20 serde_2026: Ser2026.tla (decoder / length-probe / serializer machines + declarative definitions),
MCSer2026 (bounded model checking + CASE emission), TraceSer2026 (trace validation), harness bin `serde2026`.

Verdict policy
  violation : a property observable of C20 is wrong - a panic, decode(serialize(t)) != t in either mode,
              probe != blob length / bytes consumed, a classic decoder accepting a MAGIC-prefixed blob, or the
              accept/reject / tree / consumed / probe result of a blob differing from the specified decoder.
  drift     : serialize_2026 produced bytes other than the transcribed serializer's (the blob still has to
              decode to the tree; exact bytes are a diagnostic).
"""
import collections, concurrent.futures, hashlib, json, os
from lib import common as C

SPEC_MODULES = ["Ser2026", "MCSer2026", "Varint", "BigInt"]


def _hex(b):
    return bytes(b or []).hex()


def _mc(tier):
    """model checking of the specification + case emission (depends on the spec only -> cached)"""
    key = "mcser2026|%s|%s" % (C.spec_hash(SPEC_MODULES), tier)
    cpath = C.cache_path("mc", key)
    if os.path.exists(cpath):
        return json.load(open(cpath))
    res = C.run_tlc("MCSer2026", workers=min(8, C.NCPU), env={"TIER": tier}, timeout=5400, xmx="8g")
    if res.invariant_violated:
        raise C.ToolError("Ser2026.tla violates its own laws (specification error):\n" + res.out[-3000:])
    C.tlc_ok_or_raise(res, "MCSer2026")
    cases = res.tagged("CASE")
    if not cases:
        raise C.ToolError("MCSer2026 emitted no cases")
    mc = {"cases": cases, "generated": res.generated, "distinct": res.distinct, "wall": res.wall}
    tmp = cpath + ".tmp%d" % os.getpid()
    json.dump(mc, open(tmp, "w"))
    os.replace(tmp, cpath)
    return mc


def _case_sig(c):
    if c.get("kind") == "tree":
        return "tree:" + hashlib.sha256(json.dumps(c["t"], sort_keys=True).encode()).hexdigest()[:16]
    return "bytes:%s:max=%s" % (_hex(c.get("b")), c.get("max"))


def _event_sig(e):
    if e.get("ev") == "ser":
        return "ser:" + hashlib.sha256(json.dumps(e.get("tree"), sort_keys=True).encode()).hexdigest()[:16]
    return "%s:%s:strict=%s:max=%s" % (e.get("ev"), _hex(e.get("blob")), e.get("strict"), C.le_n(e.get("max")) if "max" in e else "-")


def _replay_cases(hb, cases, work, tag):
    cpath = os.path.join(work, "cases-%s-%d.ndjson" % (tag, os.getpid()))
    with open(cpath, "w") as f:
        for c in cases:
            f.write(json.dumps(c) + "\n")
    mm = os.path.join(work, "replay-%s-%d.ndjson" % (tag, os.getpid()))
    C.run([hb, "replay", "--in", cpath, "--out", mm, "--threads", str(min(8, C.NCPU))], timeout=3600)
    lines = [json.loads(l) for l in open(mm)]
    os.remove(cpath)
    os.remove(mm)
    if not lines or lines[-1].get("done") != len(cases):
        raise C.ToolError("serde2026 replay did not complete")
    return lines[:-1]


def _validate_trace(trace, name):
    nlines = sum(1 for _ in open(trace))
    res = C.run_tlc("TraceSer2026", workers=1, env={"TRACE": trace}, deque=True, timeout=3000, name=name)
    C.tlc_ok_or_raise(res, "TraceSer2026")
    done = res.tagged("TRACE-DONE")
    if not done or done[-1]["lines"] != nlines:
        raise C.ToolError("trace not fully consumed: %s of %d\n%s" % (done, nlines, res.out[-2000:]))
    return res, nlines


def _record_and_validate(hb, work, seed, n, big, tag):
    trace = os.path.join(work, "trace-%d-%s.ndjson" % (os.getpid(), tag))
    C.run([hb, "record", "--seed", str(seed), "--n", str(n), "--big", str(big), "--out", trace], timeout=1800)
    res, nlines = _validate_trace(trace, "TraceSer2026-%s" % tag)
    kinds = collections.Counter()
    accepted = 0
    distinct = set()
    first = None
    with open(trace) as f:
        for ln in f:
            e = json.loads(ln)
            if first is None or (e["ev"] == "ser" and first["ev"] != "ser"):
                first = e
            kinds[e["ev"]] += 1
            if e["ev"] in ("de", "len") and e.get("ok"):
                accepted += 1
            distinct.add(hashlib.sha256(ln.encode()).digest()[:12])
    os.remove(trace)
    return res, nlines, kinds, accepted, distinct, first


def check(prop, tier, seed):
    out = C.Outcome(prop)
    bins = C.build_harness("default", ["serde2026"])
    hb = bins["serde2026"]
    work = os.path.join(C.WORK, "serde2026")
    os.makedirs(work, exist_ok=True)

    # 1. design level: laws on the specification machines, one CASE per behaviour
    mc = _mc(tier)
    out.states += mc["distinct"]
    out.transitions += mc["generated"]
    cases = mc["cases"]
    cls = collections.Counter()
    for c in cases:
        if c["kind"] == "tree":
            cls["tree"] += 1
        else:
            cls["bytes:" + (c["l"]["why"] or "accepted")] += 1
            if c["l"]["ok"] and not c["s"]["ok"]:
                cls["bytes:lenient-only"] += 1
            if c["pl"]["ok"] and not c["l"]["ok"]:
                cls["bytes:probe-ok-decode-fails"] += 1
            if c["l"]["ok"] and c["l"]["used"] < len(c["b"]):
                cls["bytes:trailing-data"] += 1
    out.extra["mc_case_classes"] = dict(cls)
    out.extra["mc_wall_s"] = round(mc.get("wall", 0), 1)

    # 2. spec -> impl: every case replayed into the library
    for m in _replay_cases(hb, cases, work, "mc"):
        if m.get("class") == "drift":
            out.drift.append("serialize_2026 bytes differ from the transcribed serializer for %s: %s"
                             % (C.tree_hex(m["case"]["t"])[:120], json.dumps(m["observed"])[:200]))
            continue
        v = C.Violation(prop, "implementation disagrees with Ser2026.tla on an enumerated case %s: %s"
                        % (_case_sig(m["case"])[:120], json.dumps(m["observed"])[:300]),
                        {"direction": "spec->impl", "mismatch": m})
        v.signature = "serde2026:s2i:" + _case_sig(m["case"])
        out.violations.append(v)
    out.traces += len(cases)
    out.sample({"spec_case": cases[len(cases) // 3]})
    out.sample({"spec_case": next(c for c in cases if c["kind"] == "tree" and len(c["blob"]) > 16)})

    # 3. impl -> spec: recorded calls validated by TLC (sharded, shards in parallel)
    if tier == "quick":
        shards, n, big, par = 6, 250, 2, 6
    else:
        shards, n, big, par = 16, 1800, 12, 6
    par = max(1, min(par, C.NCPU // 2))
    kinds = collections.Counter()
    accepted = 0
    distinct = set(hashlib.sha256(json.dumps(c, sort_keys=True).encode()).digest()[:12] for c in cases)
    mismatches, drifts = [], []
    with concurrent.futures.ThreadPoolExecutor(max_workers=par) as ex:
        futs = [ex.submit(_record_and_validate, hb, work, seed * 1000 + s, n, big, "s%d" % s) for s in range(shards)]
        for s, fu in enumerate(futs):
            res, nlines, k, acc, dist, first = fu.result()
            out.add_tlc(res)
            out.traces += nlines
            kinds.update(k)
            accepted += acc
            distinct |= dist
            mismatches += res.tagged("MISMATCH")
            drifts += res.tagged("DRIFT")
            if s == 0 and first is not None:
                if "tree" in first and len(json.dumps(first["tree"])) > 600:
                    first = dict(first, tree="(%d json bytes)" % len(json.dumps(first["tree"])))
                out.sample({"trace_event": first})

    # every mismatch is re-validated once in isolation before it is reported
    if mismatches:
        iso = os.path.join(work, "iso-%d.ndjson" % os.getpid())
        with open(iso, "w") as f:
            for m in mismatches:
                f.write(json.dumps(m["event"]) + "\n")
        res, _ = _validate_trace(iso, "TraceSer2026-iso")
        still = set(m["line"] for m in res.tagged("MISMATCH"))
        os.remove(iso)
        for i, m in enumerate(mismatches):
            if (i + 1) not in still:
                out.drift.append("mismatch not reproduced in isolation: %s" % json.dumps(m["event"])[:200])
                continue
            e = m["event"]
            v = C.Violation(prop, "recorded serde_2026 call contradicts Ser2026.tla: %s" % json.dumps(e)[:300],
                            {"direction": "impl->spec", "event": e})
            v.signature = "serde2026:i2s:" + _event_sig(e)
            out.violations.append(v)
    for d in drifts:
        out.drift.append("serialize_2026 bytes differ from the transcribed serializer (trace line %s): impl %s spec %s"
                         % (d["line"], _hex(d["blob"])[:120], _hex(d["spec_blob"])[:120]))

    out.evaluations = out.traces
    out.nontrivial = len(distinct)
    out.extra["trace_events"] = dict(kinds)
    out.extra["trace_accepted_de_len"] = accepted
    out.extra["abstained"] = 0
    out.rule = ("TLC runs the decoder (strict, lenient), length-probe and serializer machines of Ser2026.tla on every tree "
                "of <= 3 pairs over a 5-atom alphabet (+ hand-picked sorting/grouping/sharing trees; thorough: 4 pairs) and on "
                "every structured blob (all strings of <= 4 (thorough 5) bytes over a 12-symbol varint/boundary alphabet after "
                "MAGIC; atom-table variants x instruction-count variants x instruction sequences x trailing data x "
                "max_atom_len); the laws (round trip, probe = consumed = length, strict => lenient, machine = declarative "
                "definition, classic size-prefix rule rejects MAGIC) are the invariant; one CASE per finished behaviour is "
                "replayed into the library. Recorded library calls (ser at levels 0/1/u32::MAX from shared and fresh "
                "allocations, de, len, classic decoders on MAGIC blobs) are re-executed step by step by TraceSer2026. "
                "distinct_nontrivial counts distinct CASE records plus distinct trace lines.")
    out.assumptions = [
        "max_atom_len for the decoder is limited to {0,1,2,63,64,2^20} and values derived from the longest atom (<= 64): "
        "the decoder pre-allocates the declared atom length by documented caller contract; usize::MAX is used for the probe only",
        "allocator limits (atom/pair counts, heap) are not reached by the generated inputs and are not modelled",
        "intern_tree's memo on source NodePtrs is not modelled (it cannot change the interned result); traces cover both "
        "shared and freshly allocated sources",
        "traced trees are capped at 3000 expanded nodes; larger decode results are compared by node count only",
    ]
    out.exhaustive = False
    return out


def replay(rp):
    """re-run the failing case of a replay file against the current tree"""
    bins = C.build_harness("default", ["serde2026"])
    hb = bins["serde2026"]
    work = os.path.join(C.WORK, "serde2026")
    os.makedirs(work, exist_ok=True)
    case = rp.get("case", {})
    if case.get("direction") == "spec->impl":
        return not [m for m in _replay_cases(hb, [case["mismatch"]["case"]], work, "rp") if m.get("class") != "drift"]
    if case.get("direction") == "impl->spec":
        # re-execute the recorded input on the current library and validate the fresh event
        ein = os.path.join(work, "rp-in-%d.ndjson" % os.getpid())
        eout = os.path.join(work, "rp-out-%d.ndjson" % os.getpid())
        with open(ein, "w") as f:
            f.write(json.dumps(case["event"]) + "\n")
        C.run([hb, "rerun", "--in", ein, "--out", eout], timeout=600)
        res, _ = _validate_trace(eout, "TraceSer2026-rp")
        os.remove(ein)
        os.remove(eout)
        return not res.tagged("MISMATCH")
    o = check(rp["property"], "quick", rp.get("seed", 1))
    return not o.violations


def selftest():
    """binding demonstration: (a) corrupted trace fields must give MISMATCH (and a changed blob byte DRIFT or MISMATCH);
    (b) corrupted CASE expectations must give replay mismatches."""
    bins = C.build_harness("default", ["serde2026"])
    hb = bins["serde2026"]
    work = os.path.join(C.WORK, "serde2026")
    os.makedirs(work, exist_ok=True)
    report = {}
    # (a)
    trace = os.path.join(work, "selftest-trace.ndjson")
    C.run([hb, "record", "--seed", "77", "--n", "60", "--big", "0", "--out", trace], timeout=600)
    ev = [json.loads(l) for l in open(trace)]
    res, _ = _validate_trace(trace, "TraceSer2026-self0")
    report["clean_mismatches"] = len(res.tagged("MISMATCH"))
    muts = []

    def first(pred):
        return next(i for i, e in enumerate(ev) if pred(e))

    i = first(lambda e: e["ev"] == "ser" and len(e.get("blob", [])) > 12)
    e = json.loads(json.dumps(ev[i])); e["blob"][-2] ^= 1; muts.append(("ser blob byte flipped", e))
    i = first(lambda e: e["ev"] == "de" and e.get("ok") and "tree" in e and any("a" in n and n["a"] for n in e["tree"]["t"]))
    e = json.loads(json.dumps(ev[i]))
    for nd in e["tree"]["t"]:
        if nd.get("a"):
            nd["a"][0] ^= 1
            break
    muts.append(("de tree atom byte flipped", e))
    i = first(lambda e: e["ev"] == "de" and e.get("ok"))
    e = json.loads(json.dumps(ev[i])); e["used"] += 1; muts.append(("de consumed + 1", e))
    i = first(lambda e: e["ev"] == "de" and not e.get("ok") and len(e["blob"]) > 6)
    e = json.loads(json.dumps(ev[i])); e["ok"] = True; e["probe"] = {"ok": True, "len": 0}; muts.append(("de reject -> accept", e))
    i = first(lambda e: e["ev"] == "len" and e.get("ok"))
    e = json.loads(json.dumps(ev[i])); e["len"] -= 1; muts.append(("len - 1", e))
    i = first(lambda e: e["ev"] == "magic")
    e = json.loads(json.dumps(ev[i])); e["res"]["node_from_bytes_backrefs"] = "ok"; muts.append(("classic decoder accepts", e))
    i = first(lambda e: e["ev"] == "de" and e.get("ok"))
    e = json.loads(json.dumps(ev[i])); e["probe"]["len"] += 1; muts.append(("probe != consumed", e))
    mt = os.path.join(work, "selftest-mut.ndjson")
    with open(mt, "w") as f:
        for _, e in muts:
            f.write(json.dumps(e) + "\n")
    res, _ = _validate_trace(mt, "TraceSer2026-self1")
    hit = set(m["line"] for m in res.tagged("MISMATCH")) | set(d["line"] for d in res.tagged("DRIFT"))
    report["trace_mutations"] = {name: ((k + 1) in hit) for k, (name, _) in enumerate(muts)}
    os.remove(mt)
    os.remove(trace)
    # (b)
    mc = _mc("quick")
    cases = mc["cases"]
    t = json.loads(json.dumps(next(c for c in cases if c["kind"] == "tree" and len(c["blob"]) > 14)))
    t["blob"][-1] ^= 3
    b1 = json.loads(json.dumps(next(c for c in cases if c["kind"] == "bytes" and c["l"]["ok"])))
    b1["l"]["used"] += 1
    b2 = json.loads(json.dumps(next(c for c in cases if c["kind"] == "bytes" and not c["l"]["ok"] and c["pl"]["ok"])))
    b2["pl"]["ok"] = False
    b3 = json.loads(json.dumps(next(c for c in cases if c["kind"] == "bytes" and c["s"]["ok"] and "f" in c["s"]["tree"])))
    b3["s"]["tree"] = {"f": b3["s"]["tree"]["r"], "r": b3["s"]["tree"]["f"]} if b3["s"]["tree"]["f"] != b3["s"]["tree"]["r"] else {"a": [9]}
    mm = _replay_cases(hb, [t, b1, b2, b3], work, "self")
    report["case_mutations"] = {"tree blob byte (drift)": any(m["class"] == "drift" for m in mm),
                                "bytes used+1": any(m["case"] == b1 for m in mm),
                                "probe accept->reject": any(m["case"] == b2 for m in mm),
                                "tree swapped": any(m["case"] == b3 for m in mm)}
    report["ok"] = (report["clean_mismatches"] == 0 and all(report["trace_mutations"].values())
                    and all(report["case_mutations"].values()))
    return report
