"""C22 (all tree-hash implementations = recursive definition) and C24 (interning preserves the tree and
deduplicates maximally).

Specification: spec/TreeHash.tla (TH, PH, classic Ser, the iterative hashers HM/SM/TM as machines),
spec/Intern.tla (source heap, DistinctAtoms/DistinctPairs, the interning machine IM, the ObjectCache
machine OM, the refinement and the C24 clauses).  spec/MCHash.tla: bounded model + CASE emission,
spec/TraceHash.tla: trace validation.  Harness bin `hash` (replay / record).
"""
import collections, concurrent.futures, hashlib, json, os
from lib import common as C

HASH_KEYS = ["op_old", "op_new", "costed_old", "costed_new", "cache", "interned", "stream", "triples"]
SPEC_MODULES = ["TreeHash", "Intern", "MCHash", "TraceHash", "Prim"]


def _work():
    w = os.path.join(C.WORK, "hash")
    os.makedirs(w, exist_ok=True)
    return w


def _tree_id(t):
    return hashlib.sha256(json.dumps(t, sort_keys=True).encode()).hexdigest()[:12]


def _short(t, n=160):
    s = json.dumps(t)
    return s if len(s) <= n else s[:n] + "..."


# ---------------------------------------------------------------------------
# 1. bounded model checking of the specification (cached: depends on the spec only)

def model_check(tier):
    key = "mchash|%s|%s" % (C.spec_hash(SPEC_MODULES), tier)
    cpath = C.cache_path("mc", key)
    if os.path.exists(cpath):
        return json.load(open(cpath))
    res = C.run_tlc("MCHash", workers=min(8, C.NCPU), env={"TIER": tier}, timeout=3000)
    if res.invariant_violated or "Assumption" in res.out and "is false" in res.out:
        raise C.ToolError("MCHash: the specification violates its own laws (spec error):\n" + res.out[-3000:])
    C.tlc_ok_or_raise(res, "MCHash")
    cases = res.tagged("CASE")
    kinds = collections.Counter(c["kind"] for c in cases)
    # every case must have run to completion: as many unshared as maximally shared tree cases, DAGs present
    if not cases or kinds["unshared"] != kinds["maxshared"] or not kinds["dag"]:
        raise C.ToolError("MCHash: incomplete case emission %s" % dict(kinds))
    mc = {"cases": cases, "generated": res.generated, "distinct": res.distinct, "wall": res.wall,
          "kinds": dict(kinds)}
    json.dump(mc, open(cpath, "w"))
    return mc


# ---------------------------------------------------------------------------
# 2. spec -> impl

def replay_cases(hb, cases, tag):
    work = _work()
    cin = os.path.join(work, "cases-%s-%d.ndjson" % (tag, os.getpid()))
    mm = os.path.join(work, "replay-%s-%d.ndjson" % (tag, os.getpid()))
    with open(cin, "w") as f:
        for c in cases:
            f.write(json.dumps(c) + "\n")
    C.run([hb, "replay", "--in", cin, "--out", mm], timeout=1800)
    lines = [json.loads(l) for l in open(mm)]
    os.remove(cin)
    os.remove(mm)
    if not lines or lines[-1].get("done") != len(cases):
        raise C.ToolError("hash replay did not complete")
    return lines[:-1]


def _s2i_violations(prop, mismatches, out):
    pre = "hash:" if prop == "C22" else "intern:"
    for m in mismatches:
        bad = [b[len(pre):] for b in m["bad"] if b.startswith(pre)]
        for d in m.get("drift", []):
            if d == "readback" or (prop == "C24" and d == "intern-order"):
                out.drift.append("%s on enumerated case %s rep=%s" % (d, _short(m["case"]["heap"]), m["rep"]))
        if not bad:
            continue
        what = "hash implementation(s)" if prop == "C22" else "interning clause(s)"
        v = C.Violation(prop, "%s %s disagree with the specification on enumerated tree %s (atoms as %s)" % (
            what, ",".join(bad), _short(m["case"]["tree"]), m["rep"]),
            {"direction": "spec->impl", "case": m["case"], "rep": m["rep"], "bad": m["bad"],
             "observed": {"hashes": m.get("hashes"), "intern": m.get("intern")}})
        v.signature = "%s:s2i:%s:%s" % (prop, ",".join(sorted(bad)), _tree_id(m["case"]["heap"]))
        out.violations.append(v)


# ---------------------------------------------------------------------------
# 3. impl -> spec

def record(hb, seed, n, ev, scale, path):
    args = ["record", "--seed", str(seed), "--n", str(n), "--ev", ev, "--scale", str(scale)]
    C.run([hb] + args + ["--out", path], timeout=1800)
    return args


def validate(path, name):
    nlines = sum(1 for _ in open(path))
    res = C.run_tlc("TraceHash", workers=1, env={"TRACE": path}, deque=True, timeout=5000, xmx="4g", name=name)
    C.tlc_ok_or_raise(res, "TraceHash")
    done = res.tagged("TRACE-DONE")
    if not done or done[-1]["lines"] != nlines:
        raise C.ToolError("trace %s not fully consumed: %s of %d" % (path, done, nlines))
    return res, nlines


def _shard(hb, seed, n, ev, scale, idx):
    path = os.path.join(_work(), "trace-%s-%d-%d.ndjson" % (ev, os.getpid(), idx))
    args = record(hb, seed, n, ev, scale, path)
    res, nlines = validate(path, "TraceHash-%s-%d" % (ev, idx))
    mism = res.tagged("MISMATCH")
    stats = collections.Counter()
    nodes = 0
    ids = set()
    dedup = 0
    first = None
    bad_events = {}
    want = {m["line"] for m in mism}
    with open(path) as f:
        for i, ln in enumerate(f, 1):
            e = json.loads(ln)
            stats[e["class"]] += 1
            stats["share=" + e["share"]] += 1
            stats["rep=" + e["rep"]] += 1
            nodes += e["nodes"]
            ids.add(_tree_id(e["tree"]) + e["share"] + e["rep"])
            if ev == "intern" and "atoms" in e and len(e["atoms"]) + len(e["pairs"]) < e["nodes"]:
                dedup += 1
            if e.get("readback_differs"):
                stats["readback_differs"] += 1
            if first is None and e["nodes"] > 3:
                first = e
            if i in want:
                bad_events[i] = e
    os.remove(path)
    return {"res": res, "nlines": nlines, "mism": mism, "stats": stats, "nodes": nodes, "ids": ids,
            "dedup": dedup, "first": first, "bad_events": bad_events, "args": args}


def _i2s_violations(prop, sh, out):
    for m in sh["mism"]:
        e = sh["bad_events"][m["line"]]
        bad = list(m["bad"])
        if prop == "C24" and "structure" in bad:
            # the interned lists are not in children-before-parents order: the clauses that read the
            # structure abstain; not one of the observables C24 names
            out.drift.append("InternedTree lists not well formed / not in post-order for tree %s" % _short(e["tree"]))
            out.extra["abstained"] = out.extra.get("abstained", 0) + 1
            bad = [b for b in bad if b != "structure"]
            if not bad:
                continue
        note = " (NOTE: the allocator read the tree back differently from what was built)" if e.get("readback_differs") else ""
        if prop == "C22":
            desc = "tree hash from %s differs from TH(tree) for tree %s [share=%s rep=%s]%s" % (
                ",".join(bad), _short(e["tree"]), e["share"], e["rep"], note)
        else:
            desc = "intern_tree result breaks C24 clause(s) %s for tree %s [share=%s rep=%s]%s" % (
                ",".join(bad), _short(e["tree"]), e["share"], e["rep"], note)
        ev_small = {k: v for k, v in e.items() if k != "triples_nodes"}
        v = C.Violation(prop, desc, {"direction": "impl->spec", "record_args": sh["args"], "line": m["line"],
                                     "bad": m["bad"], "event": ev_small})
        v.signature = "%s:i2s:%s:%s" % (prop, ",".join(sorted(bad)), _tree_id(e["tree"]))
        out.violations.append(v)


TIERS = {
    # shards, trees per shard, scale of the deep/DAG generators per shard index
    "quick": {"shards": 4, "per": 1500, "scale": lambda i: 1, "par": 4},
    "thorough": {"shards": 16, "per": 4000, "scale": lambda i: 1 if i % 2 == 0 else 3, "par": 8},
}


def check(prop, tier, seed):
    out = C.Outcome(prop)
    hb = C.build_harness("default", ["hash"])["hash"]
    cfg = TIERS[tier]

    mc = model_check(tier)
    out.states += mc["distinct"]
    out.transitions += mc["generated"]
    out.extra["mc_cases"] = mc["kinds"]

    mism = replay_cases(hb, mc["cases"], prop)
    _s2i_violations(prop, mism, out)
    out.traces += len(mc["cases"])
    out.extra["replayed_cases_x3_representations"] = len(mc["cases"]) * 3
    out.sample({"spec_case": {k: mc["cases"][len(mc["cases"]) // 2][k] for k in ("kind", "heap", "root", "th", "n_atoms", "n_pairs")}})

    ev = "hash" if prop == "C22" else "intern"
    stats = collections.Counter()
    ids = set()
    nodes = 0
    dedup = 0
    with concurrent.futures.ThreadPoolExecutor(max_workers=max(1, min(cfg["par"], C.NCPU // 2))) as ex:
        futs = [ex.submit(_shard, hb, seed * 1000 + i, cfg["per"], ev, cfg["scale"](i), i) for i in range(cfg["shards"])]
        shards = [f.result() for f in futs]
    for sh in shards:
        out.add_tlc(sh["res"])
        out.traces += sh["nlines"]
        stats.update(sh["stats"])
        ids |= sh["ids"]
        nodes += sh["nodes"]
        dedup += sh["dedup"]
        _i2s_violations(prop, sh, out)
    if stats.get("readback_differs"):
        out.drift.append("%d trees were read back from the allocator differently from what was built" % stats["readback_differs"])
    e = shards[0]["first"]
    if e:
        out.sample({"trace_event": {k: (v if k != "tree" else _short(v, 300)) for k, v in e.items()
                                    if k not in ("triples_nodes", "ser_src", "ser_int")}})
    out.extra["trace_classes"] = dict(stats)
    out.extra["trace_tree_nodes"] = nodes
    if prop == "C22":
        out.evaluations = len(mc["cases"]) * 3 * len(HASH_KEYS) + sum(s["nlines"] for s in shards) * len(HASH_KEYS)
        out.nontrivial = len(ids) + len(mc["cases"])
        out.rule = ("TLC: every tree of <= 5 nodes over {nil,01,24,25,7f,80,0001,00} (thorough: also 7 nodes over 4 atoms), as "
                    "unshared and maximally shared heap, and every DAG heap of <= 4 (5) nodes over 3 atoms; the five machines "
                    "(tree_hash_costed, tree_hash_from_stream, parse_triples, ObjectCache, intern) run in lockstep through Next "
                    "and must equal TH/PH. Each CASE is replayed with atoms as inline/concat/substr representations; 8 hashers "
                    "compared per case. Traces: generated trees (random, small ints 0..40 canonical and non-canonical incl. all "
                    "37 table entries, deep spines, wide, heavy sharing, DAG unfoldings, long atoms at SHA block / prefix "
                    "boundaries) x sharing mode x atom representation; TLC recomputes TH for every event and compares the 8 "
                    "recorded hashes plus the per-node parse_triples hashes (trees <= 80 nodes). distinct_nontrivial = distinct "
                    "(tree, sharing, representation) combinations + enumerated cases.")
    else:
        out.evaluations = len(mc["cases"]) * 3 + sum(s["nlines"] for s in shards)
        out.nontrivial = dedup + sum(1 for c in mc["cases"] if c["n_atoms"] + c["n_pairs"] < len(c["heap"]) or c["kind"] != "maxshared")
        out.extra["trace_trees_with_deduplication"] = dedup
        out.rule = ("TLC: the intern machine (stack, node_to_interned, atom_to_interned, pair_to_interned) on every source heap of the "
                    "bounded universe (see C22) refines the declarative meaning (one atom per distinct byte string, one pair per "
                    "distinct sub-tree value, root unfolds to the source value, counts <= source node counts); each CASE is replayed "
                    "with exactly its sharing pattern in 3 atom representations (serialization, hash, value, distinctness, counts). "
                    "Traces: InternedTree of generated trees validated clause by clause (ser, hash, atoms_distinct, atoms_count, "
                    "pairs_distinct, pairs_count, value, le_source); trees > 60 nodes use the exact linear formulations, model-checked "
                    "equivalent to the literal clauses on all small structures (ASSUME FastLemma). distinct_nontrivial = traced trees in which "
                    "deduplication actually happened (interned nodes < positions) + enumerated cases with sharing or duplicates.")
    out.assumptions = ["SHA-256 inside TLC is the JDK MessageDigest override Prim.SHA256 (independent of chia-sha2)",
                       "the Python wheel's sha256_treehash is validated by the py engine through the optional `py` field of hash events",
                       "allocator limits of the interned allocator are out of scope (C24 is about successful interning)"]
    out.exhaustive = False
    return out


def replay(rp):
    """re-run one recorded failing case; True = passes now"""
    prop = rp["property"]
    case = rp["case"]
    hb = C.build_harness("default", ["hash"])["hash"]
    out = C.Outcome(prop)
    if case["direction"] == "spec->impl":
        _s2i_violations(prop, replay_cases(hb, [case["case"]], "rp"), out)
        return not out.violations
    args = case["record_args"]
    path = os.path.join(_work(), "rp-%d.ndjson" % os.getpid())
    C.run([hb] + args + ["--out", path], timeout=1800)
    with open(path) as f:
        line = [ln for i, ln in enumerate(f, 1) if i == case["line"]]
    with open(path, "w") as f:
        f.write(line[0])
    res, _ = validate(path, "TraceHash-rp")
    os.remove(path)
    return not res.tagged("MISMATCH")


# ---------------------------------------------------------------------------
# binding demonstration

def selftest():
    """(a) corrupt recorded fields -> TraceHash must name the corrupted implementation / clause;
    (b) corrupt expected fields of CASEs -> the replay must report them.  Returns (ok, report)."""
    hb = C.build_harness("default", ["hash"])["hash"]
    work = _work()
    rep = []
    ok = True
    path = os.path.join(work, "selftest-%d.ndjson" % os.getpid())
    record(hb, 99, 420, "both", 1, path)
    evs = [json.loads(l) for l in open(path)]
    hs = [e for e in evs if e["ev"] == "hash" and 5 < e["nodes"] <= 80]
    its = [e for e in evs if e["ev"] == "intern" and e["nodes"] > 8 and len(e.get("pairs", [])) > 2]

    def flip(e, key):
        e = json.loads(json.dumps(e))
        e[key]["h"][5] ^= 1
        return e

    tests = []
    tests.append((hs[0], []))                                              # untouched
    for k in HASH_KEYS:
        tests.append((flip(hs[1], k), [k]))
    e = json.loads(json.dumps(hs[2])); e["triples_nodes"][-1][0] ^= 0x80
    tests.append((e, ["triples_nodes"]))
    e = json.loads(json.dumps(hs[3])); e["py"] = json.loads(json.dumps(e["cache"]))
    tests.append((e, []))                                                  # optional py field, correct
    tests.append((flip(e, "py"), ["py"]))                                  # optional py field, wrong
    e = json.loads(json.dumps(hs[4])); e["stream"] = {"err": "SerializationError"}
    tests.append((e, ["stream"]))
    big = [x for x in its if x["nodes"] > 60][0]
    small = [x for x in its if x["nodes"] <= 60][0]
    for base in (small, big):
        tests.append((base, []))
        e = json.loads(json.dumps(base)); e["atoms"].append(e["atoms"][0]); e["src_atoms"] += 1
        tests.append((e, ["atoms_distinct", "atoms_count"]))
        e = json.loads(json.dumps(base)); e["pairs"].insert(len(e["pairs"]) - 1, dict(e["pairs"][0]))
        e["root"] = len(e["pairs"]); e["src_pairs"] += 1
        tests.append((e, ["pairs_distinct", "pairs_count"]))               # a duplicated (unreferenced) pair
        e = json.loads(json.dumps(base)); e["src_pairs"] = len(e["pairs"]) - 1
        tests.append((e, ["le_source"]))
        e = json.loads(json.dumps(base)); e["ser_int"][-1] ^= 1
        tests.append((e, ["ser"]))
        tests.append((flip(base, "th_int"), ["hash"]))
        e = json.loads(json.dumps(base)); e["root"] = 1 if e["root"] != 1 else 2
        tests.append((e, ["value"]))
        e = json.loads(json.dumps(base)); e["pairs"][-1], e["pairs"][-2] = e["pairs"][-2], e["pairs"][-1]
        tests.append((e, None))                                            # order broken: "structure" (or value)
    with open(path, "w") as f:
        for e, _ in tests:
            f.write(json.dumps(e) + "\n")
    res, n = validate(path, "TraceHash-selftest")
    got = {m["line"]: m["bad"] for m in res.tagged("MISMATCH")}
    for i, (e, exp) in enumerate(tests, 1):
        g = got.get(i, [])
        good = (sorted(g) == sorted(exp)) if exp is not None else bool(g)
        ok &= good
        rep.append("trace line %d (%s): expected %s, TLC reported %s -> %s" % (i, e["ev"], exp if exp is not None else "some mismatch", g, "ok" if good else "WRONG"))
    os.remove(path)

    mc = model_check("quick")
    cs = [c for c in mc["cases"] if c["n_pairs"] >= 2][:3]
    c0 = json.loads(json.dumps(cs[0])); c0["th"][0] ^= 1
    c1 = json.loads(json.dumps(cs[1])); c1["n_pairs"] += 1
    c2 = json.loads(json.dumps(cs[2]))
    mm = replay_cases(hb, [c0, c1, c2], "selftest")
    by = collections.defaultdict(set)
    for m in mm:
        by[json.dumps(m["case"]["heap"]) + str(m["case"]["th"][0])].update(m["bad"])
    b0 = by[json.dumps(c0["heap"]) + str(c0["th"][0])]
    b1 = by[json.dumps(c1["heap"]) + str(c1["th"][0])]
    g0 = b0 == {"hash:" + k for k in HASH_KEYS} | {"intern:hash"}
    g1 = b1 == {"intern:pairs_count"}
    g2 = len(mm) == 6
    ok &= g0 and g1 and g2
    rep.append("CASE with corrupted th: replay reported %s -> %s" % (sorted(b0), "ok" if g0 else "WRONG"))
    rep.append("CASE with n_pairs+1: replay reported %s -> %s" % (sorted(b1), "ok" if g1 else "WRONG"))
    rep.append("untouched CASE reported nothing (3 reps x 2 corrupted = %d mismatch lines) -> %s" % (len(mm), "ok" if g2 else "WRONG"))
    return ok, rep


if __name__ == "__main__":
    good, report = selftest()
    print("\n".join(report))
    print("SELFTEST", "PASS" if good else "FAIL")
