"""`run` engine: whole-program properties decided with Interp.tla / TraceRun.tla.

For a property P the harness records profile P (cases = program + environment, each run
as several variants); TLC re-executes the Interp machine on every recorded run (one TLC
state per machine step) and evaluates (a) conformance of the recorded outcome with the
specification and (b) the relations between recorded variants that P states.
Only the mismatch kinds that P names are violations of P; the others are drift notes."""
import json, os, time
from concurrent.futures import ThreadPoolExecutor
from lib import common as C

# property -> (profile, mismatch kinds that are violations of the property)
PROPS = {
    "C01": ("C01", {"outcome"}),
    "C02": ("C02", {"rel:budget", "rel:budget_up"}),
    "C03": ("C03", {"rel:eq_outcome"}),
    "C04": ("C04", {"rel:eq_full"}),
    "C07": ("C07", {"rel:ok_implies_ok_same", "rel:other_ok_implies_ok_same"}),
    "C08": ("C08", {"rel:other_ok_implies_ok_same_counters"}),
    "C11": ("C11", {"rel:both_ok_same_val"}),
    "C23": ("C23", {"rel:cost_lt"}),
    "C25": ("C25", {"internal"}),
    "C30": ("C30", {"rel:eq_outcome_c30"}),
    "C31": ("C31", {"guard:nil", "guard:counters", "guard:cost", "guard:depth", "guard:verdict", "outcome:depth"}),
    "C13": ("C13", {"cap", "cap:F5", "outcome"}),
}

SIZES = {  # (shards, cases per shard)
    "quick": (8, 260),
    "thorough": (16, 3000),
}


# profiles whose cases are much heavier for the machine (C23: the ChiaLisp tree hasher on trees of up to 512 leaves)
SIZES_BY_PROFILE = {("C23", "thorough"): (16, 1000)}


def _one_shard(args):
    hb, profile, seed, n, idx, work, heavy = args
    trace = os.path.join(work, "trace-%s-%d-%d.ndjson" % (profile, os.getpid(), idx))
    hb, profile, seed, n, idx, work, heavy = args
    C.run([hb, "record", "--profile", profile, "--seed", str(seed), "--n", str(n), "--out", trace,
           "--repo", C.REPO, "--corpus", "1" if idx == 0 else "0", "--heavy", "1" if heavy else "0"], timeout=1800)
    nlines = sum(1 for _ in open(trace))
    res = C.run_tlc("TraceRun", workers=1, env={"TRACE": trace}, deque=True, timeout=5400,
                    name="TraceRun-%s-%d" % (profile, idx), xmx="3g")
    return trace, nlines, res


def record_and_validate(profile, tier, seed, shards=None, per=None):
    bins = C.build_harness("default", ["run"])
    hb = bins["run"]
    work = os.path.join(C.WORK, "run")
    os.makedirs(work, exist_ok=True)
    s, p = SIZES_BY_PROFILE.get((profile, tier), SIZES[tier])
    shards = shards or s
    per = per or p
    key = "run|%s|%s|%s|%d|%d|%d|%s" % (C.bin_hash(hb), profile, tier, seed, shards, per,
                                        C.spec_hash(["TraceRun", "Interp", "Ops", "Sexp", "BigInt", "Prim"]))
    cpath = C.cache_path("run", key)
    if os.path.exists(cpath):
        return json.load(open(cpath))
    jobs = [(hb, profile, seed * 100 + i, per, i, work, tier == "thorough") for i in range(shards)]
    out = {"mismatches": [], "lines": 0, "runs": 0, "abstained": 0, "steps": 0, "generated": 0, "distinct": 0,
           "samples": [], "fuel": 0}
    with ThreadPoolExecutor(max_workers=min(shards, max(2, C.NCPU - 2))) as ex:
        for trace, nlines, res in ex.map(_one_shard, jobs):
            C.tlc_ok_or_raise(res, "TraceRun(%s)" % profile)
            done = res.tagged("TRACE-DONE")
            if not done or done[-1]["lines"] != nlines:
                raise C.ToolError("trace %s not fully consumed (%s of %d lines)\n%s" % (trace, done, nlines, res.out[-2000:]))
            cnt = done[-1]["cnt"]
            out["lines"] += nlines
            out["runs"] += cnt["runs"]
            out["abstained"] += cnt["abstained"]
            out["fuel"] += cnt["fuel"]
            out["steps"] += cnt["steps"]
            out["generated"] += res.generated
            out["distinct"] += res.distinct
            lines = None
            for m in res.tagged("MISMATCH"):
                if lines is None:
                    lines = open(trace).read().splitlines()
                # attach the input of the run (begin event) for the replay file
                b = None
                for j in range(min(m["line"], len(lines)) - 1, -1, -1):
                    e = json.loads(lines[j])
                    if e.get("ev") == "begin" and e.get("case") == m["case"]:
                        if b is None:
                            b = {"prog": e["prog"], "env": e["env"]}
                        if e.get("variant") == m.get("variant"):
                            b.update({"flags": e["flags"], "budget": e["budget"], "dialect": e["dialect"]})
                            break
                m["input"] = b
                out["mismatches"].append(m)
            if len(out["samples"]) < 3:
                with open(trace) as f:
                    for ln in f:
                        e = json.loads(ln)
                        if e.get("ev") == "begin":
                            out["samples"].append({"case": e["case"], "variant": e["variant"], "flags": e["flags"],
                                                   "budget": e["budget"], "prog": C.tree_hex(_nest(e["prog"]))[:400],
                                                   "env": C.tree_hex(_nest(e["env"]))[:200]})
                            break
            os.remove(trace)
    json.dump(out, open(cpath, "w"))
    return out


def _nest(t):
    if "t" not in t:
        return t
    nodes = []
    for n in t["t"]:
        nodes.append(n if "a" in n else {"f": nodes[n["p"][0] - 1], "r": nodes[n["p"][1] - 1]})
    return nodes[-1]


def _has_noncanonical_guard_ext(t):
    """does the program contain (softfork A1 (q . X) ...) with X a non-canonical non-negative integer?"""
    stack = [t]
    while stack:
        x = stack.pop()
        if "a" in x:
            continue
        items = []
        y = x
        while "f" in y:
            items.append(y["f"])
            y = y["r"]
        if len(items) >= 3 and items[0].get("a") == [36]:
            ext = items[2]
            if "f" in ext and ext["f"].get("a") == [1] and "a" in ext["r"]:
                b = ext["r"]["a"]
                if b and b[0] == 0 and (len(b) == 1 or b[1] < 0x80):
                    return True
        stack.append(x["f"])
        stack.append(x["r"])
    return False


def _sig(prop, m):
    inp = m.get("input") or {}
    if prop == "C07" and m["kind"] == "rel:ok_implies_ok_same" and inp.get("prog") is not None:
        fl = set(inp.get("flags") or [])
        if "CANONICAL_INTS" in fl and "NO_UNKNOWN_OPS" not in fl and _has_noncanonical_guard_ext(_nest(inp["prog"])):
            return "C07:F9:canonical-ints-without-no-unknown-ops-makes-guard-with-noncanonical-extension-a-noop"
    if m["kind"] == "cap:F5":
        return "alloc:F5:substr-of-inline-atom-copies"
    return "%s:%s:%s" % (prop, m["kind"], C.sha256_str(json.dumps(inp, sort_keys=True))[:12])


MC_PROPS = {"C01", "C02", "C07", "C08", "C11", "C25", "C30", "C31"}


def mc_part(prop, tier, seed, out):
    """MCInterp (bounded self-composition model, TLC-checked invariants = the properties on the specification) and
    replay of every enumerated (program, configuration, budget) into run_program.  Programs on which the
    implementation disagrees with the specification are ESCALATED: re-recorded as the variants of all relational
    profiles and decided by TraceRun.tla, so the verdict is again a relation on observed outcomes."""
    from engines import mcinterp
    mc = mcinterp.check_mc(tier, 1)       # the enumerated universe does not depend on the check's seed
    out.states += mc["states"]
    out.transitions += mc["transitions"]
    out.traces += mc["cases"]
    out.extra["mcinterp_programs"] = mc["programs"]
    out.extra["mcinterp_cases"] = mc["cases"]
    out.extra["mcinterp_invariants"] = mc["invariants"]
    if prop == "C01":
        ref = mcinterp.check_ref(tier, 1)
        out.states += ref["states"]
        out.transitions += ref["transitions"]
        out.extra["refeval_programs_agreeing"] = ref["agree_ok"] + ref["agree_err"]
    mism = mc["mismatches"]
    if not mism:
        return
    # conformance of the default-flag classic runs is C01's own clause
    progs = {}
    for m in mism:
        c = m["case"]
        if prop == "C01" and c.get("run") == "base" and not c["flags"]:
            v = C.Violation(prop, "enumerated program: " + m["text"], {"mismatch": {"case": c, "obs": m["obs"]}})
            v.signature = "C01:" + m["signature"]
            out.violations.append(v)
        key = json.dumps([c["prog"], c["env"]], sort_keys=True)
        progs.setdefault(key, {"prog": c["prog"], "env": c["env"], "flags": []})
    if prop == "C01":
        return
    work = os.path.join(C.WORK, "run")
    os.makedirs(work, exist_ok=True)
    hb = C.build_harness("default", ["run"])["run"]
    plist = list(progs.values())[:150]
    variants = []
    for base_flags in ([], ["NEW_COST_MODEL"]):
        variants += [dict(p, flags=base_flags) for p in plist]
    inp = os.path.join(work, "esc-in-%d.ndjson" % os.getpid())
    with open(inp, "w") as f:
        for p in variants:
            f.write(json.dumps(p) + "\n")
    trace = os.path.join(work, "esc-%d.ndjson" % os.getpid())
    C.run([hb, "escalate", "--in", inp, "--out", trace], timeout=1800)
    nlines = sum(1 for _ in open(trace))
    res = C.run_tlc("TraceRun", workers=1, env={"TRACE": trace}, deque=True, timeout=5400, name="TraceRun-esc", xmx="3g")
    C.tlc_ok_or_raise(res, "TraceRun(escalation)")
    done = res.tagged("TRACE-DONE")
    if not done or done[-1]["lines"] != nlines:
        raise C.ToolError("escalation trace not consumed")
    out.add_tlc(res)
    out.extra["escalated_programs"] = len(plist)
    kinds = PROPS[prop][1]
    for m in res.tagged("MISMATCH"):
        if m["kind"] in kinds:
            p = variants[m["case"]]
            v = C.Violation(prop, "enumerated program (escalated) %s variant=%s prog=%s: %s" % (
                m["kind"], m.get("variant"), C.tree_hex(p["prog"])[:200], json.dumps(m["detail"])[:300]), {"mismatch": m, "input": p})
            v.signature = "%s:esc:%s:%s" % (prop, m["kind"], C.sha256_str(json.dumps(p, sort_keys=True))[:12])
            out.violations.append(v)
    os.remove(inp)
    os.remove(trace)


def check(prop, tier, seed):
    profile, kinds = PROPS[prop]
    out = C.Outcome(prop)
    res = record_and_validate(profile, tier, seed)
    out.states += res["distinct"]
    out.transitions += res["generated"]
    out.traces += res["runs"]
    out.evaluations = res["runs"]
    out.nontrivial = res["runs"] - res["abstained"]
    out.extra.update({"machine_steps": res["steps"], "abstained": res["abstained"], "fuel_exhausted": res["fuel"],
                      "trace_lines": res["lines"]})
    for s in res["samples"]:
        out.sample(s)
    seen_drift = {}
    for m in res["mismatches"]:
        if m["kind"] == "outcome" and "SoftforkStackDepthExceeded" in json.dumps(m.get("detail")):
            m = dict(m, kind="outcome:depth")     # the 20/21 nesting clause of C31
        if m["kind"] in kinds:
            v = C.Violation(prop, "%s case=%s variant=%s: %s" % (m["kind"], m["case"], m.get("variant"), json.dumps(m["detail"])[:500]),
                            {"mismatch": m})
            v.signature = _sig(prop, m)
            out.violations.append(v)
        else:
            seen_drift[m["kind"]] = seen_drift.get(m["kind"], 0) + 1
            if seen_drift[m["kind"]] <= 3:
                out.drift.append("%s (not a clause of %s) case=%s variant=%s %s" % (m["kind"], prop, m["case"], m.get("variant"), json.dumps(m["detail"])[:300]))
    out.extra["drift_counts"] = seen_drift
    out.rule = ("profile %s of the run harness: generated programs (grammar generator, clvm-fuzzing make_clvm_program, the "
                "RunProgramTest corpus) each run as the variants the property relates; every run is re-executed by the Interp.tla "
                "machine inside TLC (one state per machine step) and the relations are evaluated by TraceRun.tla on the recorded "
                "outcomes. A case is non-trivial when the specification decided it (did not abstain)." % profile)
    if prop == "C07":
        # design-level reproduction of known finding F9 (expected to FAIL) and its absence under the strict combination
        key = "mcf9|%s" % C.spec_hash(["MCF9", "MCF9_strict", "Interp", "Ops", "Sexp", "BigInt", "Prim"])
        cp = C.cache_path("mc", key)
        if os.path.exists(cp):
            f9 = json.load(open(cp))
        else:
            r1 = C.run_tlc("MCF9", cfg="MCF9.cfg", workers=2, timeout=900)
            r2 = C.run_tlc("MCF9", cfg="MCF9_strict.cfg", workers=2, timeout=900)
            if not r1.invariant_violated or r2.invariant_violated or r2.rc != 0:
                raise C.ToolError("MCF9: the design-level reproduction of finding F9 changed (violated=%s / strict violated=%s)"
                                  % (r1.invariant_violated, r2.invariant_violated))
            f9 = {"states": r1.distinct + r2.distinct, "transitions": r1.generated + r2.generated}
            json.dump(f9, open(cp, "w"))
        out.states += f9["states"]
        out.transitions += f9["transitions"]
        out.extra["f9_design_level"] = "TLC violates RestrictionOnlyRemoves for R={CANONICAL_INTS} (MCF9.cfg) and proves it for R={CANONICAL_INTS,NO_UNKNOWN_OPS} (MCF9_strict.cfg)"
    if prop in MC_PROPS:
        mc_part(prop, tier, seed, out)
        out.rule += (" PLUS MCInterp: a bounded universe of programs (every operator at its arities over boundary alphabets, "
                     "apply/((X))/improper forms, unknown opcodes, guards with right/wrong/zero/huge costs, depth-2 samples) "
                     "enumerated by TLC, run as a self-composition of configurations (flags, dialects, budgets C-1/C/C+1) with "
                     "the properties as invariants; every (program, configuration, budget) is replayed into run_program.")
    out.assumptions = ["cryptographic operator results are taken from recorded witnesses (C32 not applicable)",
                       "runs above the evaluation caps of Ops.tla or %d machine steps are abstained" % 60000]
    return out


def replay(rp):
    o = check(rp["property"], rp.get("tier", "quick"), rp.get("seed", 1))
    sig = rp.get("signature")
    return not [v for v in o.violations if sig is None or v.signature == sig]


# ---------------------------------------------------------------------------
# C05: three builds of the harness record the same seeded profiles; TLC compares them line by line

def check_c05(tier, seed):
    prop = "C05"
    out = C.Outcome(prop)
    work = os.path.join(C.WORK, "c05")
    os.makedirs(work, exist_ok=True)
    variants = ["default", "nofast", "diag"]
    bins = {v: C.build_harness(v, ["run", "ops"]) for v in variants}
    quick = tier == "quick"
    jobs = [("run", "C05", 300 if quick else 4000, i) for i in range(3 if quick else 8)] + \
           [("ops", "fast", 1500 if quick else 20000, i) for i in range(2 if quick else 6)] + \
           [("ops", "random", 400 if quick else 5000, i) for i in range(1 if quick else 4)]
    for which, profile, n, idx in jobs:
        paths = {}
        for v in variants:
            p = os.path.join(work, "%s-%s-%d-%s-%d.ndjson" % (which, profile, idx, v, os.getpid()))
            cmd = [bins[v][which], "record", "--profile", profile, "--seed", str(seed * 100 + idx), "--n", str(n), "--out", p]
            if which == "run":
                cmd += ["--repo", C.REPO, "--corpus", "1" if idx == 0 else "0"]
            C.run(cmd, timeout=1800)
            paths[v] = p
        lens = {v: sum(1 for _ in open(paths[v])) for v in variants}
        res = C.run_tlc("TraceSame", workers=1, deque=True, timeout=3000, name="TraceSame-%s-%d" % (profile, idx),
                        env={"TRACE_A": paths["default"], "TRACE_B": paths["nofast"], "TRACE_C": paths["diag"]})
        C.tlc_ok_or_raise(res, "TraceSame")
        done = res.tagged("TRACE-DONE")
        if not done:
            raise C.ToolError("TraceSame did not finish")
        out.add_tlc(res)
        out.traces += sum(lens.values())
        out.evaluations += lens["default"]
        if len(set(lens.values())) != 1:
            v = C.Violation(prop, "builds recorded traces of different length for %s/%s: %s" % (which, profile, lens), {"lens": lens})
            v.signature = "C05:length:%s:%s" % (which, profile)
            out.violations.append(v)
        for m in res.tagged("MISMATCH"):
            d = m["default"]
            desc = "builds differ at line %d of %s/%s: default=%s nofast=%s diag=%s" % (
                m["line"], which, profile, json.dumps(d)[:260], json.dumps(m["nofast"])[:260], json.dumps(m["diag"])[:260])
            v = C.Violation(prop, desc, {"mismatch": m})
            v.signature = "C05:%s:%s" % (which, C.sha256_str(json.dumps(d, sort_keys=True))[:12])
            out.violations.append(v)
        with open(paths["default"]) as f:
            out.sample(json.loads(f.readline()), cap=4)
        for p in paths.values():
            os.remove(p)
    # the default build's records are also validated against the specification (conformance = drift here)
    res = record_and_validate("C05", tier, seed, shards=2 if quick else 8, per=200 if quick else 2500)
    out.states += res["distinct"]
    out.transitions += res["generated"]
    out.traces += res["runs"]
    for m in res["mismatches"]:
        out.drift.append("%s case=%s %s" % (m["kind"], m["case"], json.dumps(m["detail"])[:300]))
    # the counters feature of the diag build: the interpreter's stack high-water marks against the marks of the machine
    # (binds the STEP STRUCTURE of Interp.tla to the code; conformance only, a difference is drift, not a C05 violation)
    stk = {"runs": 0, "mismatches": 0}
    for idx in range(1 if quick else 6):
        p = os.path.join(work, "stk-%d-%d.ndjson" % (idx, os.getpid()))
        C.run([bins["diag"]["run"], "record", "--profile", "STK", "--seed", str(seed * 100 + 50 + idx), "--n", "400" if quick else "4000",
               "--out", p, "--repo", C.REPO, "--corpus", "0", "--heavy", "0"], timeout=1800)
        nlines = sum(1 for _ in open(p))
        r = C.run_tlc("TraceRun", workers=1, env={"TRACE": p}, deque=True, timeout=5400, name="TraceRun-stk-%d" % idx, xmx="3g")
        C.tlc_ok_or_raise(r, "TraceRun(STK)")
        done = r.tagged("TRACE-DONE")
        if not done or done[-1]["lines"] != nlines:
            raise C.ToolError("STK trace not fully consumed")
        out.add_tlc(r)
        stk["runs"] += done[-1]["cnt"]["runs"] - done[-1]["cnt"]["abstained"]
        for m in r.tagged("MISMATCH"):
            if m["kind"] == "stacks":
                stk["mismatches"] += 1
            out.drift.append("STK %s case=%s %s" % (m["kind"], m["case"], json.dumps(m["detail"])[:300]))
        os.remove(p)
    out.extra["stack_marks"] = stk
    out.nontrivial = out.evaluations
    out.rule = ("the default, no-fastpath and counters+pre-eval (observe-only callback) builds of the harness record the same "
                "seeded cases (fast-path-biased programs; direct add/sub/mul/>/sha256 calls on small-integer-biased arguments with "
                "budgets around the cost; random operator calls); TraceSame.tla requires the three traces to be identical line by "
                "line (inputs, result, cost, error message, counters). Distinct = lines of the default trace.")
    out.assumptions = ["the generator is deterministic in the seed; it probes costs with the build under test, so a behavioural difference shows as a difference of the traces"]
    return out


_check_generic = check


def check(prop, tier, seed):
    if prop == "C05":
        return check_c05(tier, seed)
    return _check_generic(prop, tier, seed)


# ---------------------------------------------------------------------------
# binding demonstration: a recorded trace with ONE corrupted field, or with one hook event removed, must be rejected

def selftest():
    bins = C.build_harness("default", ["run"])
    hb = bins["run"]
    work = os.path.join(C.WORK, "run")
    os.makedirs(work, exist_ok=True)
    base = os.path.join(work, "selftest-%d.ndjson" % os.getpid())
    C.run([hb, "record", "--profile", "C31", "--seed", "4242", "--n", "80", "--out", base, "--repo", C.REPO,
           "--corpus", "0", "--heavy", "0"], timeout=900)
    lines = [json.loads(l) for l in open(base)]

    def validate(evs, tag):
        p = os.path.join(work, "selftest-%s-%d.ndjson" % (tag, os.getpid()))
        with open(p, "w") as f:
            for e in evs:
                f.write(json.dumps(e, separators=(",", ":")) + "\n")
        res = C.run_tlc("TraceRun", workers=1, env={"TRACE": p}, deque=True, timeout=1800, name="TraceRun-selftest-" + tag, xmx="3g")
        os.remove(p)
        done = res.tagged("TRACE-DONE")
        consumed = bool(done) and done[-1]["lines"] == len(evs)
        kinds = sorted({m["kind"] for m in res.tagged("MISMATCH")})
        return {"rc": res.rc, "consumed": consumed, "kinds": kinds}
    report = {"trace_lines": len(lines)}
    r0 = validate(lines, "base")
    report["unmodified"] = r0
    ok = r0["consumed"] and not [k for k in r0["kinds"] if k.startswith("guard") or k in ("outcome", "cap")]

    def first(pred):
        return next(i for i, e in enumerate(lines) if pred(e))
    import copy
    # (a) cost of one successful run + 1
    i = first(lambda e: e.get("ev") == "end" and e.get("ok") is True)
    m = copy.deepcopy(lines)
    m[i]["cost"] = C.n_le(C.le_n(m[i]["cost"]) + 1)
    r = validate(m, "cost")
    report["end.cost+1"] = r
    ok = ok and "outcome" in r["kinds"]
    # (b) a guard exit that reports one more atom than its entry
    i = first(lambda e: e.get("ev") == "guard_exit")
    m = copy.deepcopy(lines)
    m[i]["atoms"] += 1
    r = validate(m, "guard")
    report["guard_exit.atoms+1"] = r
    ok = ok and "guard:counters" in r["kinds"]
    # (c) the guard-exit hook removed for one guard: the event sequence is no behaviour of the specification
    m = [e for j, e in enumerate(lines) if j != i]
    r = validate(m, "nohook")
    report["guard_exit removed"] = r
    ok = ok and (not r["consumed"] or bool([k for k in r["kinds"] if k.startswith("guard") or k == "hook"]) or r["rc"] != 0)
    # (d) a result value changed
    i = first(lambda e: e.get("ev") == "end" and e.get("ok") is True and "a" in e.get("val", {}))
    m = copy.deepcopy(lines)
    m[i]["val"] = {"a": list(m[i]["val"]["a"]) + [7]}
    r = validate(m, "val")
    report["end.val changed"] = r
    ok = ok and "outcome" in r["kinds"]
    os.remove(base)
    report["ok"] = bool(ok)
    return report
