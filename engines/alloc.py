"""C12 / C13 / C14 - the allocator.

Specifications: Alloc.tla (the property: every atom a separately stored byte string), AllocMech.tla (the
mechanism as the code implements it + refinement relation), MCAlloc.tla (+ MCAlloc_*.cfg: bounded model
checking of the refinement and of the C13 / C14 invariants, emission of whole behaviours as CASE lines),
TraceAlloc.tla (validation of traces recorded from the real Allocator against the property model).
Harness: harness/src/bin/alloc.rs (replay / record / sweep).

Three sources of verdicts, all against the PROPERTY model:
  spec -> impl   every behaviour TLC enumerated is replayed into a real Allocator (status and the three
                 counters after every call, contents / small view / number / atom_eq at the end)
  impl -> spec   random histories (<= ~200 calls per allocator, near-cap pre-loads, boundary integers,
                 substrings of heap and inline atoms, checkpoints in LIFO order) validated by TraceAlloc
  sweep (C14)    every byte string of length <= 2 (quick: boundary subset) in both representations and
                 boundary integers through all integer constructors, validated by TraceAlloc
  scen (C12,C13) deterministic scenarios: the interpreter's GC pattern (garbage >= 1024 bytes after a transparent
                 checkpoint, maybe_restore_with_node keeping an old node / a substring of old bytes / new small,
                 48-, 49-byte atoms / a pair ...) and every allocating call at distance 0..3 from each cap
Design level: TLC checks that AllocMech refines Alloc with SubstrOfInlineAtomCopies = FALSE, and finds
the F5 counterexample with TRUE (expected; reported in the evidence).

Signature of the known finding F5, computed from the failing call itself:
  alloc:F5:substr-of-inline-atom-copies  <=>  the call is new_substr, its source node is an inline small
  atom (NodePtr::object_type() recorded by the harness), the slice is not a canonical small integer,
  both sides say "ok", atoms / pairs agree and the observed heap_size exceeds the model's by exactly the
  slice length.
"""
import concurrent.futures, hashlib, json, os
from lib import common as C

F5_SIG = "alloc:F5:substr-of-inline-atom-copies"
CAP_ERRORS = ("OutOfMemory", "TooManyAtoms", "TooManyPairs")
SPEC_MODULES = ["Alloc", "AllocMech", "MCAlloc", "BigInt"]

# which bounded models serve which property: (cfg name, expected to hold)
MC_PLAN = {
    "C12": [("core", True), ("ckpt", True), ("gc", True), ("ints", True), ("sim", True), ("f5", False)],
    "C13": [("caps", True), ("sim", True), ("capsf5", False)],
    "C14": [("ints", True), ("bytes", True), ("core", True)],
}
SIM = {"quick": ("1", "16"), "thorough": ("24", "40")}      # (number of walks, depth) of TLC -simulate


def canonical_small(b):
    """bytes are the minimal encoding of a value 0 <= v < 2^26 (own formulation, used for signatures only)"""
    if len(b) == 0:
        return True
    if len(b) > 4 or b[0] & 0x80:
        return False
    if b[0] == 0 and (len(b) == 1 or not (b[1] & 0x80)):
        return False
    return int.from_bytes(bytes(b), "big") < (1 << 26)


def op_digest(op):
    o = {}
    for k, v in op.items():
        if k in ("ev", "st", "ret", "out", "atoms", "pairs", "heap", "rb", "sn", "rneg", "rmag", "rmal", "inl", "ms", "cl", "msg"):
            continue
        if isinstance(v, list) and len(v) > 12:
            v = "len%d:%s" % (len(v), hashlib.sha256(json.dumps(v).encode()).hexdigest()[:8])
        o[k] = v
    return json.dumps(o, sort_keys=True, separators=(",", ":"))


def is_f5(op, inl, src, exp, obs):
    if op.get("op") != "new_substr" or not inl:
        return False
    s, e = op.get("s", 0), op.get("e", 0)
    if not (0 <= s <= e <= len(src)):
        return False
    sl = src[s:e]
    return (not canonical_small(sl) and exp["st"] == "ok" and obs["st"] == "ok"
            and exp["atoms"] == obs["atoms"] and exp["pairs"] == obs["pairs"]
            and obs["heap"] - exp["heap"] == len(sl))


def classify(op, exp, obs, before, lim):
    """classes of a disagreement between the model (exp) and the code (obs) on one call (same rules as
    TraceAlloc.tla)"""
    st_ok = exp["st"] == obs["st"]
    cnt_ok = all(exp[k] == obs[k] for k in ("atoms", "pairs", "heap"))
    cap_ok = obs["atoms"] <= lim["atoms"] and obs["pairs"] <= lim["pairs"] and obs["heap"] <= lim["heap"]
    fail_ch = obs["st"] != "ok" and any(obs[k] != before[k] for k in ("atoms", "pairs", "heap"))
    c13 = (not cap_ok) or (not st_ok and (exp["st"] in CAP_ERRORS or obs["st"] in CAP_ERRORS)) or fail_ch
    c12 = (st_ok and obs["st"] == "ok" and not cnt_ok) or (not st_ok and op.get("op") == "maybe_restore")
    cls = []
    if c12:
        cls.append("C12")
    if c13:
        cls.append("C13")
    if obs.get("rb_differs"):
        cls.append("C14")
    if not st_ok and not c12 and not c13:
        cls.append("OTHER")
    if st_ok and cnt_ok and exp.get("ret") != obs.get("ret"):
        cls.append("HARNESS")
    return cls


# ---------------------------------------------------------------------------
# bounded model checking (spec only -> cached by the hash of the spec files)

def run_mc(cfg, tier, expect_ok):
    key = "mcalloc|%s|%s|%s|%s" % (cfg, C.spec_hash(SPEC_MODULES + ["MCAlloc_%s.cfg" % cfg]), tier,
                                  SIM[tier] if cfg == "sim" else "")
    cpath = C.cache_path("mc", key)
    if os.path.exists(cpath) and os.path.exists(cpath + ".cases"):
        mc = json.load(open(cpath))
        mc["cases_file"] = cpath + ".cases"
        return mc
    env = {"TIER": tier}
    kw = {}
    if cfg == "sim":
        n, depth = SIM[tier]
        env["SIMDEPTH"] = depth
        kw = dict(simulate="num=" + n, extra=["-depth", str(int(depth) + 1), "-seed", "20260921"], workers=1)
    else:
        kw = dict(workers=max(2, min(4, C.NCPU // 4)))
    res = C.run_tlc("MCAlloc", cfg="MCAlloc_%s.cfg" % cfg, env=env, timeout=3400, xmx="6g", name="MCAlloc_" + cfg, **kw)
    cex = res.tagged("CEX")
    mc = {"cfg": cfg, "generated": res.generated, "distinct": res.distinct, "wall": round(res.wall, 1), "cex": cex[:3]}
    if cfg == "sim":
        import re
        m = re.findall(r"The number of states generated: (\d+)", res.out)
        mc["generated"] = mc["distinct"] = int(m[-1]) if m else 0
    if expect_ok:
        if res.invariant_violated or cex or "is violated" in res.out:
            raise C.ToolError("MCAlloc_%s: the mechanism model does not refine the property model (specification "
                              "error, not a verdict on the code):\n%s" % (cfg, (json.dumps(cex[:1]) + res.out[-3000:])[:6000]))
        C.tlc_ok_or_raise(res, "MCAlloc_" + cfg)
        cases = res.tagged("CASE")
        if not cases:
            raise C.ToolError("MCAlloc_%s emitted no behaviour" % cfg)
    else:
        # the code-as-is variant: TLC must find the design-level counterexample of F5
        if not cex:
            raise C.ToolError("MCAlloc_%s: expected the F5 counterexample, TLC found none:\n%s" % (cfg, res.out[-3000:]))
        cases = []
    # the behaviours are kept as an ndjson file that the harness reads directly; the meta data keeps the
    # counts, the per-kind coverage and a sample
    kinds = {}
    for c in cases:
        if c["replayable"]:
            for e in c["ops"]:
                k = kind_of(e["op"]["op"], e["st"], e["op"].get("out", ""))
                kinds[k] = kinds.get(k, 0) + 1
    mc["n_cases"] = len(cases)
    mc["kinds"] = kinds
    mc["sample"] = cases[len(cases) // 2] if cases else None
    tmp = cpath + ".cases.tmp%d" % os.getpid()
    with open(tmp, "w") as f:
        for c in cases:
            f.write(json.dumps(c, separators=(",", ":")) + "\n")
    os.replace(tmp, cpath + ".cases")
    tmp = cpath + ".tmp%d" % os.getpid()
    json.dump(mc, open(tmp, "w"))
    os.replace(tmp, cpath)
    mc["cases_file"] = cpath + ".cases"
    return mc


def f5_story(cex):
    """short text of a design-level counterexample"""
    h = cex["hist"]
    return "%s: %s => mechanism %s, property model %s" % (
        cex["inv"], " ; ".join(op_digest(e["op"]) for e in h),
        json.dumps({k: cex["mech"][k] for k in ("st", "atoms", "pairs", "heap")}, sort_keys=True),
        json.dumps({k: cex["model"][k] for k in ("st", "atoms", "pairs", "heap")}, sort_keys=True))


# ---------------------------------------------------------------------------
# verdicts

def add_violation(out, prop, cls, sig, desc, payload, counts):
    if "HARNESS" in cls:
        raise C.ToolError("harness / model bookkeeping disagreement (tool error): %s" % desc[:1500])
    if prop in cls:
        v = C.Violation(prop, desc, payload)
        v.signature = sig
        out.violations.append(v)
        counts["reported"] += 1
    elif "OTHER" in cls and not any(c in cls for c in ("C12", "C13", "C14")):
        out.drift.append("status disagreement not named by C12-C14: " + desc[:300])
    else:
        # a disagreement that belongs to another property of this engine: it is reported by that property's check
        # (same generators, same models); here it is counted, and shown as DRIFT unless it is the known finding
        counts["other_property"] += 1
        if sig != F5_SIG and len(out.drift) < 20:
            out.drift.append("disagreement of class %s seen while checking %s: %s" % ("+".join(cls), prop, desc[:300]))


def kind_of(op, st, outcome=""):
    return "%s:%s%s" % (op, st, ("/" + outcome) if outcome else "")


def replay_cases(out, prop, hb, work, mc, counts, tag, kinds):
    if not mc["n_cases"]:
        return
    for k, v in mc["kinds"].items():
        kinds[k] = kinds.get(k, 0) + v
    mpath = os.path.join(work, "replay-%s-%d.ndjson" % (tag, os.getpid()))
    C.run([hb, "replay", "--in", mc["cases_file"], "--out", mpath], timeout=3000)
    lines = [json.loads(l) for l in open(mpath)]
    os.remove(mpath)
    if not lines or lines[-1].get("done") != mc["n_cases"]:
        raise C.ToolError("alloc replay did not complete (%s)" % tag)
    fin = lines[-1]
    counts["cases"] += fin["done"] - fin["skipped"]
    counts["cases_not_replayable"] += fin["skipped"]
    counts["replay_steps"] += fin["steps"]
    counts["abstained"] += fin["abstained"]
    for m in lines[:-1]:
        if m["kind"] == "outcome":
            out.drift.append("maybe_restore outcome differs from the mechanism model (not determined by the property): "
                             + json.dumps(m["op"]) + " observed " + m["obs"]["out"])
            continue
        if m["kind"] == "final":
            sig = "alloc:s2i:final:" + hashlib.sha256(json.dumps([m["ops"], m["bad"]], sort_keys=True).encode()).hexdigest()[:16]
            desc = "replayed behaviour %s: final contents differ from Alloc.tla: %s" % (
                [op_digest(o) for o in m["ops"]], json.dumps(m["bad"])[:300])
            add_violation(out, prop, ["C14"], sig, desc, {"direction": "spec->impl", "mismatch": m}, counts)
            continue
        op, exp, obs = m["op"], m["exp"], m["obs"]
        cls = classify(op, exp, obs, m["before"], m["lim"])
        if is_f5(op, obs.get("inl", False), m.get("src", []), exp, obs):
            sig = F5_SIG
            counts["f5_hits"] += 1
        else:
            sig = "alloc:s2i:%s:%s:%s->%s" % ("+".join(cls), op_digest(op), exp["st"], obs["st"])
        desc = "replayed TLC behaviour, call %d %s after %s: Alloc.tla says %s, the Allocator %s" % (
            m["step"], op_digest(op), [op_digest(o) for o in m["prefix"]][-4:],
            json.dumps({k: exp[k] for k in ("st", "atoms", "pairs", "heap")}, sort_keys=True),
            json.dumps({k: obs[k] for k in ("st", "atoms", "pairs", "heap")}, sort_keys=True))
        add_violation(out, prop, cls, sig, desc, {"direction": "spec->impl", "mismatch": m}, counts)


def validate_trace(trace, name):
    counts = {"trace_lines": 0, "trace_skipped_after_status_mismatch": 0, "f5_hits": 0}
    nlines = 0
    distinct = set()
    kinds = {}
    with open(trace) as f:
        for ln in f:
            nlines += 1
            distinct.add(hashlib.sha256(ln.encode()).digest()[:10])
            e = json.loads(ln)
            k = kind_of(e["ev"], e.get("st", e.get("r", "")), e.get("out", ""))
            kinds[k] = kinds.get(k, 0) + 1
    res = C.run_tlc("TraceAlloc", workers=1, env={"TRACE": trace}, deque=True, timeout=3400, name=name)
    C.tlc_ok_or_raise(res, "TraceAlloc")
    done = res.tagged("TRACE-DONE")
    if not done or done[-1]["lines"] != nlines:
        raise C.ToolError("trace not fully consumed: %s of %d\n%s" % (done, nlines, res.out[-2000:]))
    counts["trace_lines"] += nlines
    counts["trace_skipped_after_status_mismatch"] += done[-1]["skipped"]
    res._alloc_distinct = distinct
    res._alloc_kinds = kinds
    mism = []
    for m in res.tagged("MISMATCH"):
        ev, exp, cls = m["event"], m["exp"], m["cls"]
        if ev.get("ev") in ("proj", "eq") or "st" not in ev:
            sig = "alloc:i2s:%s:%s" % ("+".join(cls), hashlib.sha256(json.dumps(ev, sort_keys=True).encode()).hexdigest()[:16])
            desc = "recorded read-back contradicts Alloc.tla (%s): %s" % (m.get("note", ""), json.dumps(ev)[:400])
        else:
            obs = {k: ev.get(k) for k in ("st", "atoms", "pairs", "heap", "ret")}
            if is_f5(ev, ev.get("inl", False), exp.get("src", []), exp, obs):
                sig = F5_SIG
                counts["f5_hits"] += 1
            else:
                sig = "alloc:i2s:%s:%s:%s->%s" % ("+".join(cls), op_digest(ev), exp["st"], ev["st"])
            desc = "recorded call (trace line %d) %s: Alloc.tla says %s, the Allocator %s%s" % (
                m["line"], op_digest(ev), json.dumps({k: exp[k] for k in ("st", "atoms", "pairs", "heap")}, sort_keys=True),
                json.dumps(obs, sort_keys=True), (" [%s]" % m["note"]) if m.get("note") else "")
        mism.append((cls, sig, desc, {"direction": "impl->spec", "line": m["line"], "event": ev, "expected": exp}))
    return res, mism, counts


def record_and_validate(out, prop, hb, work, jobs, counts):
    """jobs: list of (name, harness argv).  Recording is sequential (fast); TLC validations run in parallel."""
    traces = []
    for name, argv in jobs:
        trace = os.path.join(work, "trace-%s-%d.ndjson" % (name, os.getpid()))
        C.run([hb] + argv + ["--out", trace], timeout=1200)
        traces.append((name, trace))
    results = []
    with concurrent.futures.ThreadPoolExecutor(max_workers=max(1, min(len(traces), C.NCPU // 2))) as ex:
        futs = [ex.submit(validate_trace, t, "TraceAlloc-" + n) for n, t in traces]
        for f in futs:
            results.append(f.result())
    distinct = set()
    for (name, trace), (res, mism, cn) in zip(traces, results):
        out.add_tlc(res)
        for k, v in cn.items():
            counts[k] += v
        distinct |= res._alloc_distinct
        for k, v in res._alloc_kinds.items():
            counts["_rk"][k] = counts["_rk"].get(k, 0) + v
        for cls, sig, desc, payload in mism:
            add_violation(out, prop, cls, sig, desc, payload, counts)
        if len(out.samples) < 5:
            with open(trace) as f:
                lines = f.readlines()
            out.sample({"trace": name, "event": json.loads(lines[min(len(lines) - 1, 7)])})
        os.remove(trace)
    return len(distinct)


def check(prop, tier, seed):
    out = C.Outcome(prop)
    hb = C.build_harness("default", ["alloc"])["alloc"]
    work = os.path.join(C.WORK, "alloc")
    os.makedirs(work, exist_ok=True)
    counts = {k: 0 for k in ("cases", "cases_not_replayable", "replay_steps", "abstained", "trace_lines",
                             "trace_skipped_after_status_mismatch", "f5_hits", "reported", "other_property")}

    # 1. design level: bounded model checking (in parallel; cached by the hash of the spec)
    plan = MC_PLAN[prop]
    with concurrent.futures.ThreadPoolExecutor(max_workers=5) as ex:
        futs = [(cfg, ok, ex.submit(run_mc, cfg, tier, ok)) for cfg, ok in plan]
        mcs = [(cfg, ok, f.result()) for cfg, ok, f in futs]
    out.extra["model_checking"] = {}
    for cfg, ok, mc in mcs:
        out.states += mc["distinct"]
        out.transitions += mc["generated"]
        out.extra["model_checking"][cfg] = {"states": mc["distinct"], "behaviours": mc["n_cases"], "tlc_wall_s": mc["wall"],
                                            "holds": ok}
        if not ok:
            out.extra.setdefault("f5_design_counterexample", {})[cfg] = f5_story(mc["cex"][0])

    # 2. spec -> impl: replay every behaviour
    kinds = {}
    counts["_rk"] = {}
    for cfg, ok, mc in mcs:
        replay_cases(out, prop, hb, work, mc, counts, cfg, kinds)
        if mc["sample"]:
            c = mc["sample"]
            out.sample({"tlc_behaviour": cfg, "calls": [op_digest(e["op"]) + " -> " + e["st"] for e in c["ops"]][:8]})

    # 3. impl -> spec: recorded histories
    prof = {"C12": "c12", "C13": "c13", "C14": "c14"}[prop]
    if tier == "quick":
        shards, n, ln = 4, 14, 110
    else:
        shards, n, ln = 16, 120, 200
    jobs = [("rec%d" % s, ["record", "--seed", str(seed * 1000 + s), "--n", str(n), "--len", str(ln), "--profile", prof])
            for s in range(shards)]
    if prop == "C14":
        jobs.append(("sweep", ["sweep", "--mode", "quick" if tier == "quick" else "full"]))
    else:
        # deterministic scenarios: the GC pattern (>= 1024 bytes of garbage after a transparent checkpoint, then
        # maybe_restore_with_node on every kind of kept value) and every call at distance 0..3 from each cap
        jobs.append(("scen", ["scen", "--seed", str(seed)]))
    distinct_events = record_and_validate(out, prop, hb, work, jobs, counts)

    out.traces = counts["cases"] + counts["trace_lines"]
    out.evaluations = counts["replay_steps"] + counts["trace_lines"]
    out.nontrivial = counts["cases"] + distinct_events
    out.extra["recorded_events_by_kind"] = dict(sorted(counts.pop("_rk").items()))
    out.extra["replayed_calls_by_kind"] = dict(sorted(kinds.items()))
    out.extra.update(counts)
    out.extra["abstained"] = counts["abstained"] + counts["trace_skipped_after_status_mismatch"]
    out.rule = ("every TLC behaviour is a distinct call sequence (the state graph of MCAlloc is the tree of call sequences) "
                "and counts once; a recorded event counts once per distinct event line (call, arguments, status, counters, "
                "read-back). After the first disagreement of a replayed behaviour its remaining calls are not compared "
                "(abstained); a recorded history is resynchronised on the observed counters and validated to its end.")
    out.assumptions = [
        "Allocator::new() (heap limit u32::MAX) is modelled with heap limit 2^31-1; traces stay far below",
        "the small caps of the bounded models are reproduced in the real allocator by pre-loading ghosts (add_ghost_atom/pair)",
        "caller errors are not generated: use of invalidated nodes, restoring a checkpoint that was already passed, "
        "new_small_number >= 2^26, new_concat of a single pair, remove_ghost_pair beyond the ghost pairs, new_limited(0)",
        "histories are cut when heap_size exceeds the heap limit (reachable only through F5)",
        "maybe_restore_with_node: the outcome is not determined by the property; the recorded outcome is the witness and is "
        "checked for admissibility; TLC behaviours with thresholds other than 1024/48 are model-checked but not replayed",
        "num-bigint / malachite to_signed_bytes_be / from_signed_bytes_be are assumed (minimal two's complement)",
    ]
    return out


def replay(rp):
    """re-run the check that produced the replay file (same tier and seed, so the same behaviours and the same
    recorded histories are regenerated); True = the recorded failure (same signature) no longer occurs"""
    o = check(rp["property"], rp.get("tier", "quick"), rp.get("seed", 1))
    sig = rp.get("signature")
    return not [v for v in o.violations if sig is None or v.signature == sig]


# ---------------------------------------------------------------------------
# binding demonstration

def selftest():
    """(a) corrupt one recorded field of a trace -> TraceAlloc must report a MISMATCH;
       (b) corrupt one expected field of a CASE -> the replay must report a mismatch."""
    hb = C.build_harness("default", ["alloc"])["alloc"]
    work = os.path.join(C.WORK, "alloc")
    os.makedirs(work, exist_ok=True)
    report = {}
    # (a)
    trace = os.path.join(work, "selftest-trace.ndjson")
    C.run([hb, "record", "--seed", "77", "--n", "3", "--len", "40", "--profile", "c12", "--out", trace], timeout=600)
    lines = [json.loads(l) for l in open(trace)]

    def run_trace(ls):
        p = os.path.join(work, "selftest-mut.ndjson")
        with open(p, "w") as f:
            for e in ls:
                f.write(json.dumps(e) + "\n")
        res = C.run_tlc("TraceAlloc", workers=1, env={"TRACE": p}, deque=True, timeout=1200, name="TraceAllocSelf")
        C.tlc_ok_or_raise(res, "TraceAlloc selftest")
        os.remove(p)
        return [m for m in res.tagged("MISMATCH") if not is_f5(m["event"], m["event"].get("inl", False), m["exp"].get("src", []),
                                                             m["exp"], {k: m["event"].get(k) for k in ("st", "atoms", "pairs", "heap")})]

    base = run_trace(lines)
    report["trace_unmodified_mismatches_other_than_F5"] = len(base)
    muts = {}
    idx = next(i for i, e in enumerate(lines) if e["ev"] == "new_atom" and e["st"] == "ok" and len(e["b"]) > 0)
    m1 = json.loads(json.dumps(lines))
    m1[idx]["heap"] += 1
    muts["heap_size+1 of one new_atom event"] = [m["cls"] for m in run_trace(m1)][:2]
    m2 = json.loads(json.dumps(lines))
    m2[idx]["rb"][0] ^= 1
    muts["one byte of an atom() read-back flipped"] = [m["cls"] for m in run_trace(m2)][:2]
    idx3 = next(i for i, e in enumerate(lines) if e["ev"] == "new_pair" and e["st"] == "ok")
    m3 = json.loads(json.dumps(lines))
    m3[idx3]["st"] = "TooManyPairs"
    m3[idx3]["ret"] = 0
    muts["status of one new_pair changed to TooManyPairs"] = [m["cls"] for m in run_trace(m3)][:2]
    idx4 = max(i for i, e in enumerate(lines) if e["ev"] == "proj" and any(n["k"] == "atom" for n in e["nodes"]))
    m4 = json.loads(json.dumps(lines))
    k = next(j for j, n in enumerate(m4[idx4]["nodes"]) if n["k"] == "atom")
    m4[idx4]["nodes"][k]["sn"] = 5 if m4[idx4]["nodes"][k]["sn"] != 5 else 6
    muts["small_number view of one projected node changed"] = [m["cls"] for m in run_trace(m4)][:2]
    report["trace_mutations_detected"] = muts
    os.remove(trace)
    # (b)
    mc = run_mc("caps", "quick", True)
    cases = []
    with open(mc["cases_file"]) as f:
        for ln in f:
            c = json.loads(ln)
            if c["replayable"]:
                cases.append(c)
            if len(cases) >= 200:
                break

    def run_cases(cs):
        cp = os.path.join(work, "selftest-cases.ndjson")
        mp = os.path.join(work, "selftest-mism.ndjson")
        with open(cp, "w") as f:
            for c in cs:
                f.write(json.dumps(c) + "\n")
        C.run([hb, "replay", "--in", cp, "--out", mp], timeout=600)
        ls = [json.loads(l) for l in open(mp)]
        os.remove(cp)
        os.remove(mp)
        return [l for l in ls[:-1] if not (l["kind"] == "step" and is_f5(l["op"], l["obs"].get("inl", False), l.get("src", []), l["exp"], l["obs"]))]

    report["cases_unmodified_mismatches_other_than_F5"] = len(run_cases(cases))
    c1 = json.loads(json.dumps(cases))
    c1[5]["ops"][-1]["atoms"] += 1
    report["case_mutation_atoms+1_detected"] = [m["kind"] for m in run_cases(c1)]
    c2 = json.loads(json.dumps(cases))
    j = next(i for i, c in enumerate(c2) if any(n["k"] == "atom" and n["b"] for n in c["final"][2:]))
    nn = next(n for n in c2[j]["final"][2:] if n["k"] == "atom" and n["b"])
    nn["b"][0] ^= 1
    report["case_mutation_final_byte_detected"] = [m["kind"] for m in run_cases(c2)]
    ok = (not base and all(muts.values()) and not report["cases_unmodified_mismatches_other_than_F5"]
          and report["case_mutation_atoms+1_detected"] and report["case_mutation_final_byte_detected"])
    report["ok"] = bool(ok)
    return report
