"""Unbounded side lemmas (Apalache) and their bounded companions (TLC) for C23, C09 and C21.

  check_c23_lemmas(tier)  MCShaTree.tla (TLC: Interp runs the ChiaLisp sha256tree program and the native operator on every
                          tree of a bounded universe; native < ChiaLisp; linearity with printed constants) and
                          ApaShaTree.tla (Apalache: with those constants, native < ChiaLisp for ALL trees)
  check_c09_lemmas(tier)  ApaUnknown.tla (Apalache: the wrapping product has an overflow corner - witness -, the checked one
                          has none, outside the corner both are the published rule) and MCUnknown.tla (TLC: OpUnknown =
                          OpUnknownPublished over a bounded universe without the corner; CASE lines replayed into the
                          implementation with `ops replay`)
  check_c21_lemmas(tier)  ApaVarint.tla (Apalache: the varint widths partition the 56-bit range and are nested)

Each returns {"ok", "obligations", "discharged", "states", "transitions", "cases", "detail", "wall", ...}.
Results are cached by the hash of the specification files involved (and, for the replay, of the harness binary).
A timeout or a tool failure raises C.ToolError; "ok": False is only reported for a refuted obligation.
"""
import itertools
import json, os, re, shutil, time
from concurrent.futures import ThreadPoolExecutor
from lib import common as C

WORK = os.path.join(C.WORK, "lemmas")
APA_TIMEOUT = 600           # seconds, every apalache-mc call is wrapped in `timeout`
APA_PAR = 3                 # apalache calls run side by side


def _spec(name):
    return os.path.join(C.SPEC, name)


# ---------------------------------------------------------------------------
# Apalache

_APA_SEQ = itertools.count()


def apalache(spec_path, init, invs, length, tag):
    """One `apalache-mc check`.  Returns {"outcome": "NoError" | "Error", "wall", "cex": [states] | None, "out"}.
    Anything else (type error, timeout, crash) raises ToolError."""
    os.makedirs(WORK, exist_ok=True)
    rd = os.path.join(WORK, "apa-%s-%s-%d-%d" % (tag, re.sub(r"\W", "", init), os.getpid(), next(_APA_SEQ)))
    od = rd + "-out"
    cmd = ["timeout", str(APA_TIMEOUT), "apalache-mc", "check", "--init=" + init, "--inv=" + ",".join(invs),
           "--length=%d" % length, "--out-dir=" + od, "--run-dir=" + rd, spec_path]
    t0 = time.time()
    try:
        p = C.run(cmd, cwd=WORK, timeout=APA_TIMEOUT + 60, check=False)
        out = p.stdout or ""
        wall = time.time() - t0
        m = re.findall(r"The outcome is: (\w+)", out)
        if p.returncode == 124 or p.returncode == 137:
            raise C.ToolError("apalache timeout (%ds): %s %s %s" % (APA_TIMEOUT, os.path.basename(spec_path), init, invs))
        if p.returncode == 0 and m and m[-1] == "NoError":
            return {"outcome": "NoError", "wall": wall, "cex": None, "out": out[-1500:]}
        if p.returncode == 12 and m and m[-1] == "Error":
            cex = None
            f = os.path.join(rd, "violation1.itf.json")
            if os.path.exists(f):
                cex = [{k: _itf(v) for k, v in s.items() if not k.startswith("#")} for s in json.load(open(f))["states"]]
            viol = re.findall(r"state invariant (\d+) violated", out)
            return {"outcome": "Error", "wall": wall, "cex": cex, "violated": [invs[int(i)] for i in viol if int(i) < len(invs)],
                    "out": out[-1500:]}
        raise C.ToolError("apalache failed (rc=%d) on %s --init=%s --inv=%s:\n%s" % (
            p.returncode, os.path.basename(spec_path), init, ",".join(invs), out[-3000:]))
    finally:
        shutil.rmtree(rd, ignore_errors=True)
        shutil.rmtree(od, ignore_errors=True)


def _itf(v):
    if isinstance(v, dict) and "#bigint" in v:
        return int(v["#bigint"])
    return v


def _run_obligations(spec_path, obls, tag):
    """obls: list of (name, init, [invs], length, expect).  Returns list of result dicts in order."""
    def one(o):
        name, init, invs, length, expect = o
        r = apalache(spec_path, init, invs, length, tag)
        r.update({"name": name, "init": init, "invs": invs, "expect": expect})
        return r
    with ThreadPoolExecutor(max_workers=APA_PAR) as ex:
        return list(ex.map(one, obls))


def _cached(kind, key, compute):
    path = C.cache_path("lemmas-" + kind, key)
    if os.path.exists(path):
        try:
            r = json.load(open(path))
            r["cached"] = True
            return r
        except Exception:
            pass
    r = compute()
    tmp = "%s.tmp%d" % (path, os.getpid())
    json.dump(r, open(tmp, "w"))
    os.replace(tmp, path)
    r["cached"] = False
    return r


def _workers():
    return max(2, min(8, C.NCPU))


# ---------------------------------------------------------------------------
# C23

def _decode_classic(b):
    """classic CLVM serialization -> json tree (atoms below 0x80 and nil only: enough for the program)"""
    def de(i):
        if b[i] == 0xff:
            f, i = de(i + 1)
            r, i = de(i)
            return {"f": f, "r": r}, i
        if b[i] == 0x80:
            return {"a": []}, i + 1
        if b[i] < 0x80:
            return {"a": [b[i]]}, i + 1
        raise C.ToolError("unexpected byte in the serialized ChiaLisp program")
    t, i = de(0)
    if i != len(b):
        raise C.ToolError("trailing bytes in the serialized ChiaLisp program")
    return t


def _parse_sexp(text):
    """the s-expression notation of harness/src/bin/run.rs (integers, q, a, c, i, l, dotted pairs)"""
    names = {"q": 1, "a": 2, "i": 3, "c": 4, "f": 5, "r": 6, "l": 7}
    toks = re.findall(r"\(|\)|\.|[^\s().]+", text)
    pos = [0]

    def atom(tk):
        n = names[tk] if tk in names else int(tk)
        return {"a": [] if n == 0 else [n]}

    def expr():
        tk = toks[pos[0]]
        pos[0] += 1
        if tk == "(":
            return lst()
        return atom(tk)

    def lst():
        tk = toks[pos[0]]
        if tk == ")":
            pos[0] += 1
            return {"a": []}
        if tk == ".":
            pos[0] += 1
            e = expr()
            assert toks[pos[0]] == ")"
            pos[0] += 1
            return e
        head = expr()
        return {"f": head, "r": lst()}
    t = expr()
    assert pos[0] == len(toks)
    return t


def _program_sources():
    """the ChiaLisp sha256tree program as the repository and the harness have it"""
    res = {}
    p = os.path.join(C.REPO, "tools", "src", "bin", "sha256tree-benching.rs")
    m = re.search(r'hex::decode\(\s*"([0-9a-fA-F]+)"', open(p).read())
    if not m:
        raise C.ToolError("serialized ChiaLisp program not found in " + p)
    res["repo:tools/src/bin/sha256tree-benching.rs"] = _decode_classic(bytes.fromhex(m.group(1)))
    p = os.path.join(C.HARNESS, "src", "bin", "run.rs")
    m = re.search(r'const CHIALISP_SHATREE: &str = "([^"]+)";', open(p).read())
    if m:
        res["harness:run.rs CHIALISP_SHATREE"] = _parse_sexp(m.group(1))
    return res


def derive_c23_constants(costs):
    """costs: the COST lines of MCShaTree.  Returns {"old": {...}, "new": {...}} read off three probe trees and
    the list of lines that do not obey the closed forms / the inequality."""
    consts, bad = {}, []
    for new in (False, True):
        rows = [c for c in costs if c["new"] == new]
        by = {tuple(c["lens"]): c for c in rows}
        try:
            a0, a1, p00 = by[(0,)], by[(1,)], by[(0, 0)]
        except KeyError:
            raise C.ToolError("probe trees (), 0x01, (() . ()) are missing from the COST lines")
        k = {"cl_atom_a": a0["cl"], "cl_atom_b": a1["cl"] - a0["cl"], "cl_pair_k": p00["cl"] - 2 * a0["cl"],
             "nat_per_byte": a1["nat"] - a0["nat"]}
        k["nat_w"] = a0["nat"] - 590 - k["nat_per_byte"]                      # quote + dispatch around the operator
        k["nat_pair"] = p00["nat"] - a0["nat"] - k["nat_per_byte"]            # one more pair and one more (empty) atom
        consts["new" if new else "old"] = k
        for c in rows:
            p, b = c["p"], c["b"]
            cl = k["cl_atom_a"] * (p + 1) + k["cl_atom_b"] * b + k["cl_pair_k"] * p
            nat = k["nat_w"] + 590 + k["nat_pair"] * p + k["nat_per_byte"] * (b + p + 1)
            if c["cl"] != cl or c["nat"] != nat or not (c["nat"] < c["cl"]) or len(c["lens"]) != p + 1 or sum(c["lens"]) != b:
                bad.append(c)
    return consts, bad


def _spec_constants():
    """the constants as written in MCShaTree.tla and ApaShaTree.tla"""
    mc = open(_spec("MCShaTree.tla")).read()
    apa = open(_spec("ApaShaTree.tla")).read()

    def two(pat, text, what):
        m = re.search(pat, text)
        if not m:
            raise C.ToolError("constant not found: " + what)
        return int(m.group(1)), int(m.group(2))
    a = two(r"CLAtomA\(nw\) == IF nw THEN (\d+) ELSE (\d+)", mc, "CLAtomA")
    b = two(r"CLAtomB\(nw\) == IF nw THEN (\d+) ELSE (\d+)", mc, "CLAtomB")
    k = two(r"CLPairK\(nw\) == IF nw THEN (\d+) ELSE (\d+)", mc, "CLPairK")
    pb = two(r"NatPerByte\(nw\) == IF nw THEN (\d+) ELSE (\d+)", mc, "NatPerByte")
    w = int(re.search(r"NatW == (\d+)", mc).group(1))
    npair = int(re.search(r"NatPair == (\d+)", mc).group(1))
    mcc = {}
    for i, nm in enumerate(("new", "old")):
        mcc[nm] = {"cl_atom_a": a[i], "cl_atom_b": b[i], "cl_pair_k": k[i], "nat_per_byte": pb[i], "nat_w": w, "nat_pair": npair}
    m = re.search(r"CLAtom\(nw, n\) == IF nw THEN (\d+) \+ (\d+) \* n ELSE (\d+) \+ (\d+) \* n", apa)
    m2 = re.search(r"CLPair\(nw, l, r\) == IF nw THEN l \+ r \+ (\d+) ELSE l \+ r \+ (\d+)", apa)
    m3 = re.search(r"NatAtom\(nw, n\) == IF nw THEN (\d+) \+ 590 \+ (\d+) \* \(n \+ 1\) ELSE (\d+) \+ 590 \+ (\d+) \* \(n \+ 1\)", apa)
    m4 = re.search(r"NatPair\(nw, l, r\) == l \+ r \+ (\d+) - \((\d+) \+ 590\)", apa)
    m5 = re.search(r"CLClosed\(nw, pp, bb\) ==\s+IF nw THEN (\d+) \* \(pp \+ 1\) \+ (\d+) \* bb \+ (\d+) \* pp\s+ELSE (\d+) \* \(pp \+ 1\) \+ (\d+) \* bb \+ (\d+) \* pp", apa)
    m6 = re.search(r"NatClosed\(nw, pp, bb\) ==\s+IF nw THEN (\d+) \+ 590 \+ (\d+) \* pp \+ (\d+) \* \(bb \+ pp \+ 1\)\s+ELSE (\d+) \+ 590 \+ (\d+) \* pp \+ (\d+) \* \(bb \+ pp \+ 1\)", apa)
    if not (m and m2 and m3 and m4 and m5 and m6):
        raise C.ToolError("constants of ApaShaTree.tla not recognised")
    g = lambda mm: [int(x) for x in mm.groups()]
    apac = {
        "new": {"cl_atom_a": g(m)[0], "cl_atom_b": g(m)[1], "cl_pair_k": g(m2)[0], "nat_per_byte": g(m3)[1], "nat_w": g(m3)[0], "nat_pair": g(m4)[0]},
        "old": {"cl_atom_a": g(m)[2], "cl_atom_b": g(m)[3], "cl_pair_k": g(m2)[1], "nat_per_byte": g(m3)[3], "nat_w": g(m3)[2], "nat_pair": g(m4)[0]},
    }
    closed = {
        "new": {"cl_atom_a": g(m5)[0], "cl_atom_b": g(m5)[1], "cl_pair_k": g(m5)[2], "nat_w": g(m6)[0], "nat_pair": g(m6)[1], "nat_per_byte": g(m6)[2]},
        "old": {"cl_atom_a": g(m5)[3], "cl_atom_b": g(m5)[4], "cl_pair_k": g(m5)[5], "nat_w": g(m6)[3], "nat_pair": g(m6)[4], "nat_per_byte": g(m6)[5]},
    }
    if g(m4)[1] != g(m3)[0]:
        raise C.ToolError("ApaShaTree.tla: NatPair and NatAtom disagree on NatW")
    return mcc, apac, closed


C23_MODS = ["MCShaTree", "ApaShaTree", "Interp", "Ops", "Sexp", "BigInt", "Prim"]
C23_APA = [
    ("base: Init => Shape", "Init", ["Shape"], 0, "NoError"),
    ("step: Shape /\\ Next => Shape'; Shape => Cheaper, Margin", "IndInit", ["Shape", "Cheaper", "Margin"], 1, "NoError"),
]


def check_c23_lemmas(tier="quick"):
    progs = _program_sources()
    key = "c23|%s|%s|%s" % (tier, C.spec_hash(C23_MODS), C.sha256_str(json.dumps(progs, sort_keys=True))[:16])
    return _cached("c23", key, lambda: _c23(tier, progs))


def _c23(tier, progs):
    t0 = time.time()
    detail, obligations, discharged = [], 0, 0
    # --- TLC: the machine on the bounded universe
    res = C.run_tlc("MCShaTree", env={"TIER": tier}, workers=_workers(), timeout=1500 if tier == "quick" else 7200,
                    xmx="6g", name="MCShaTree")
    tlc_invs = ["Completes", "Cheaper", "Linear"]
    obligations += len(tlc_invs)
    costs = res.tagged("COST")
    if res.rc == 0:
        discharged += len(tlc_invs)
        detail.append("MCShaTree[%s]: %d runs (both cost models), %d states, invariants %s hold (%.0fs)" % (
            tier, len(costs), res.distinct, ",".join(tlc_invs), res.wall))
    elif res.invariant_violated:
        m = re.findall(r"Invariant (\w+) is violated", res.out)
        detail.append("MCShaTree[%s]: invariant %s VIOLATED\n%s" % (tier, m, res.out[-2500:]))
        discharged += len([i for i in tlc_invs if i not in m]) if m else 0
    else:
        C.tlc_ok_or_raise(res, "MCShaTree")
    ok = res.rc == 0
    # --- the program TLC ran is the repository's
    obligations += 1
    tp = res.tagged("PROG")
    if not tp:
        raise C.ToolError("MCShaTree printed no PROG line")
    wrong = [k for k, v in progs.items() if v != tp[0]]
    if wrong:
        raise C.ToolError("MCShaTree.tla's transcription of the ChiaLisp program differs from " + ", ".join(wrong))
    discharged += 1
    detail.append("program transcription equals " + " and ".join(progs))
    consts = None
    if ok:
        # --- constants: re-derived from the runs, compared with the ones written in the two specifications
        obligations += 1
        consts, bad = derive_c23_constants(costs)
        mcc, apac, closed = _spec_constants()
        if bad:
            ok = False
            detail.append("closed forms do not fit %d COST lines, e.g. %s" % (len(bad), bad[:2]))
        elif not (consts == mcc == apac == closed):
            ok = False
            detail.append("constants disagree: derived %s / MCShaTree %s / ApaShaTree %s / closed forms %s" % (consts, mcc, apac, closed))
        else:
            discharged += 1
            detail.append("constants (derived from the runs = MCShaTree.tla = ApaShaTree.tla): %s" % json.dumps(consts, sort_keys=True))
    # --- Apalache: all trees
    apa = _run_obligations(_spec("ApaShaTree.tla"), C23_APA, "shatree")
    for r in apa:
        obligations += len(r["invs"])
        if r["outcome"] == r["expect"]:
            discharged += len(r["invs"])
            detail.append("ApaShaTree %s: %s (%.0fs)" % (r["name"], r["outcome"], r["wall"]))
        else:
            ok = False
            detail.append("ApaShaTree %s: REFUTED %s cex=%s" % (r["name"], r.get("violated"), r["cex"]))
    return {"ok": bool(ok and discharged == obligations), "obligations": obligations, "discharged": discharged,
            "states": res.distinct, "transitions": res.generated, "cases": [], "runs": len(costs), "constants": consts,
            "detail": "; ".join(detail), "wall": round(time.time() - t0, 1)}


# ---------------------------------------------------------------------------
# C09

C09_APA_MODS = ["ApaUnknown"]
C09_MC_MODS = ["MCUnknown", "Ops", "Sexp", "BigInt", "Prim"]
TWO64 = 1 << 64
U32MAX = (1 << 32) - 1
C09_APA = [
    ("1a recorded witness is in the corner", "InitWitness", ["Corner"], 0, "NoError"),
    ("1b wrapping rule has a corner (m fixed, b free)", "InitFixedM", ["NoCorner"], 0, "Error"),
    ("2-4 checked = published; wrapping = published below 2^64; only the corner differs", "InitAbs",
     ["CheckedIsPublished", "WrappingIsPublishedBelow64", "OnlyTheCorner"], 0, "NoError"),
]
C09_APA_OPTIONAL = ("1c wrapping rule has a corner (b and m free, non-linear)", "InitMul", ["NoCorner"], 0, "Error")


def _is_corner(s):
    b, m, prod = s.get("b"), s.get("m"), s.get("prod")
    return (isinstance(b, int) and isinstance(m, int) and 1 <= b < TWO64 and 1 <= m <= (1 << 32) and prod == b * m
            and b * m >= TWO64 and (b * m) % TWO64 <= U32MAX)


def _c09_apalache(tier):
    t0 = time.time()
    detail, obligations, discharged, ok, witnesses = [], 0, 0, True, []
    obls = list(C09_APA) + ([C09_APA_OPTIONAL] if tier != "quick" else [])
    for r in _run_obligations(_spec("ApaUnknown.tla"), obls, "unknown"):
        obligations += len(r["invs"])
        good = r["outcome"] == r["expect"]
        if good and r["expect"] == "Error":
            # the counterexample to "no corner" must really be a corner (checked here with Python integers)
            good = bool(r["cex"]) and _is_corner(r["cex"][0])
            if good:
                s = r["cex"][0]
                witnesses.append({"b": s["b"], "m": s["m"], "product": s["b"] * s["m"], "wrapped": (s["b"] * s["m"]) % TWO64})
        if good:
            discharged += len(r["invs"])
            detail.append("ApaUnknown %s: %s (%.0fs)" % (r["name"], r["outcome"], r["wall"]))
        else:
            ok = False
            detail.append("ApaUnknown %s: expected %s, got %s %s cex=%s" % (r["name"], r["expect"], r["outcome"], r.get("violated"), r["cex"]))
    wb, wm = 4303875011, 0xff785c42
    assert wb == 92 + 885 + (741456 + 741456) * 6 + (741456 * 741456) // 128 and _is_corner({"b": wb, "m": wm, "prod": wb * wm})
    return {"ok": ok, "obligations": obligations, "discharged": discharged, "detail": detail, "witnesses": witnesses,
            "recorded_witness": {"b": wb, "m": wm, "product": wb * wm, "wrapped": (wb * wm) % TWO64,
                                 "opcode": [0xff, 0x78, 0x5c, 0x41, 0x80], "args": "two atoms of 741456 bytes, old cost model"},
            "wall": round(time.time() - t0, 1)}


def _c09_tlc(tier):
    t0 = time.time()
    res = C.run_tlc("MCUnknown", env={"TIER": tier}, workers=_workers(), timeout=1500 if tier == "quick" else 7200,
                    xmx="6g", name="MCUnknown")
    invs = ["CodeIsPublished", "CornerFree", "Dispatch", "Below", "Classes"]
    detail, ok, discharged = [], True, 0
    if res.rc == 0:
        discharged = len(invs)
    elif res.invariant_violated:
        m = re.findall(r"Invariant (\w+) is violated", res.out)
        ok = False
        discharged = len([i for i in invs if i not in m]) if m else 0
        detail.append("MCUnknown[%s]: invariant %s VIOLATED\n%s" % (tier, m, res.out[-2500:]))
    else:
        C.tlc_ok_or_raise(res, "MCUnknown")
    cases = res.tagged("CASE")
    classes = {}
    for c in cases:
        classes[c["cls"]] = classes.get(c["cls"], 0) + 1
    if ok:
        if not cases:
            raise C.ToolError("MCUnknown emitted no CASE lines")
        detail.append("MCUnknown[%s]: %d cases, %d states, invariants %s hold (%.0fs); classes %s" % (
            tier, len(cases), res.distinct, ",".join(invs), res.wall, json.dumps(classes, sort_keys=True)))
    cfile = os.path.join(C.WORK, "cache", "lemmas-c09", "cases-%s-%s.ndjson" % (tier, C.spec_hash(C09_MC_MODS)))
    os.makedirs(os.path.dirname(cfile), exist_ok=True)
    with open(cfile + ".tmp", "w") as f:
        for c in cases:
            f.write(json.dumps(c, separators=(",", ":")) + "\n")
    os.replace(cfile + ".tmp", cfile)
    return {"ok": ok, "obligations": len(invs), "discharged": discharged, "states": res.distinct, "transitions": res.generated,
            "ncases": len(cases), "classes": classes, "cases_file": cfile, "detail": detail, "wall": round(time.time() - t0, 1)}


def materialise(t):
    """symbolic atoms {"a":[],"n":len} of Ops.tla -> concrete atoms of 0x01 bytes (what `ops record` builds)"""
    if "a" in t:
        return {"a": [1] * t["n"]} if "n" in t else t
    return {"f": materialise(t["f"]), "r": materialise(t["r"])}


_ATOM_TEXT = {}


def _render(t):
    """JSON text of materialise(t) (the big atoms are rendered once)"""
    if "a" in t:
        if "n" not in t:
            return json.dumps(t, separators=(",", ":"))
        n = t["n"]
        if n not in _ATOM_TEXT:
            _ATOM_TEXT[n] = '{"a":[' + ",".join(["1"] * n) + "]}"
        return _ATOM_TEXT[n]
    return '{"f":' + _render(t["f"]) + ',"r":' + _render(t["r"]) + "}"


def _sym_bytes(t):
    if "a" in t:
        return t.get("n", 0)
    return _sym_bytes(t["f"]) + _sym_bytes(t["r"])


def replay_unknown_cases(cases, ops_bin, par=4):
    """`ops replay` of CASE records; symbolic atoms are materialised.  The harness holds a whole input file in memory as
    JSON values (about 32 bytes per atom byte), so a chunk ends after 3 MB of atom bytes or 20000 cases.
    Returns (number replayed, mismatches)."""
    d = os.path.join(WORK, "replay-%d-%d" % (os.getpid(), int(time.time() * 1000) % 100000000))
    os.makedirs(d, exist_ok=True)
    chunks, cur, w = [], [], 0
    for c in sorted(cases, key=lambda c: _sym_bytes(c["args"])):
        cur.append(c)
        w += _sym_bytes(c["args"])
        if w > 3000000 or len(cur) >= 20000:
            chunks.append(cur)
            cur, w = [], 0
    if cur:
        chunks.append(cur)

    def one(a):
        i, chunk = a
        inp = os.path.join(d, "c%d.ndjson" % i)
        outp = os.path.join(d, "m%d.ndjson" % i)
        with open(inp, "w") as f:
            for k, c in enumerate(chunk):
                rec = {"id": k, "op": c["op"], "flags": c["flags"], "max": c["max"], "exp": c["exp"]}
                f.write(json.dumps(rec, separators=(",", ":"))[:-1] + ',"args":' + _render(c["args"]) + "}\n")
        C.run([ops_bin, "replay", "--in", inp, "--out", outp], timeout=1800)
        lines = [json.loads(l) for l in open(outp) if l.strip()]
        os.remove(inp)
        os.remove(outp)
        if not lines or lines[-1].get("done") != len(chunk):
            raise C.ToolError("ops replay did not finish a chunk: %s" % (lines[-1:] if lines else "no output"))
        # report a mismatch with the case in its symbolic (small) form
        mm = [{"case": chunk[m["case"]["id"]], "got": m["got"]} for m in lines[:-1]]
        return len(chunk), mm
    n, mism = 0, []
    try:
        with ThreadPoolExecutor(max_workers=par) as ex:
            for k, mm in ex.map(one, list(enumerate(chunks))):
                n += k
                mism += mm
    finally:
        shutil.rmtree(d, ignore_errors=True)
    return n, mism


def load_cases(path):
    return [json.loads(l) for l in open(path) if l.strip()]


def check_c09_lemmas(tier="quick", replay=True):
    t0 = time.time()
    apa = _cached("c09", "c09-apa|%s|%s" % (tier, C.spec_hash(C09_APA_MODS)), lambda: _c09_apalache(tier))
    mc = _cached("c09", "c09-mc|%s|%s" % (tier, C.spec_hash(C09_MC_MODS)), lambda: _c09_tlc(tier))
    if not os.path.exists(mc["cases_file"]):
        mc = _c09_tlc(tier)
    cases = load_cases(mc["cases_file"])
    if len(cases) != mc["ncases"]:
        raise C.ToolError("cached MCUnknown cases are incomplete")
    out = {"ok": bool(apa["ok"] and mc["ok"]), "obligations": apa["obligations"] + mc["obligations"],
           "discharged": apa["discharged"] + mc["discharged"], "states": mc["states"], "transitions": mc["transitions"],
           "cases": cases, "classes": mc["classes"], "witnesses": apa["witnesses"], "recorded_witness": apa["recorded_witness"],
           "replayed": 0, "mismatches": []}
    detail = apa["detail"] + mc["detail"]
    if replay and mc["ok"]:
        ops_bin = C.build_harness("default", ["ops"])["ops"]
        rp = _cached("c09", "c09-replay|%s|%s|%s" % (tier, C.spec_hash(C09_MC_MODS), C.bin_hash(ops_bin)),
                     lambda: dict(zip(("replayed", "mismatches"), replay_unknown_cases(cases, ops_bin))))
        out["replayed"], out["mismatches"] = rp["replayed"], rp["mismatches"]
        out["obligations"] += 1
        if rp["replayed"] != len(cases):
            raise C.ToolError("replayed %d of %d MCUnknown cases" % (rp["replayed"], len(cases)))
        if rp["mismatches"]:
            out["ok"] = False
            detail.append("ops replay: %d of %d cases MISMATCH, e.g. %s" % (len(rp["mismatches"]), len(cases), json.dumps(rp["mismatches"][0])[:400]))
        else:
            out["discharged"] += 1
            detail.append("ops replay: %d cases, 0 mismatches" % len(cases))
    out["ok"] = bool(out["ok"] and out["discharged"] == out["obligations"])
    out["detail"] = "; ".join(detail)
    out["wall"] = round(time.time() - t0, 1)
    return out


# ---------------------------------------------------------------------------
# C21

C21_APA = [
    ("in range: exactly one minimal width; bands", "InitRange", ["Partition", "Bands"], 0, "NoError"),
    ("every integer: widths nested; some width fits <=> 56-bit range", "InitAny", ["Nested", "Total"], 0, "NoError"),
]


def check_c21_lemmas(tier="quick"):
    return _cached("c21", "c21|%s" % C.spec_hash(["ApaVarint"]), lambda: _c21())


def _varint_constants_agree():
    """the eight powers written out in ApaVarint.tla are 2^(7k-1)"""
    txt = open(_spec("ApaVarint.tla")).read()
    vals = [int(x) for x in re.findall(r"(?:IF|ELSE IF) k = \d THEN (\d+)", txt)]
    return vals == [1 << (7 * k - 1) for k in range(1, 9)] and txt.count("36028797018963968") == 3


def _c21():
    t0 = time.time()
    detail, obligations, discharged, ok = [], 1, 0, True
    if not _varint_constants_agree():
        raise C.ToolError("ApaVarint.tla: the written-out constants are not 2^(7k-1), k = 1..8")
    discharged += 1
    detail.append("constants 2^(7k-1) verified")
    for r in _run_obligations(_spec("ApaVarint.tla"), C21_APA, "varint"):
        obligations += len(r["invs"])
        if r["outcome"] == r["expect"]:
            discharged += len(r["invs"])
            detail.append("ApaVarint %s: %s (%.0fs)" % (r["name"], r["outcome"], r["wall"]))
        else:
            ok = False
            detail.append("ApaVarint %s: REFUTED %s cex=%s" % (r["name"], r.get("violated"), r["cex"]))
    return {"ok": bool(ok and discharged == obligations), "obligations": obligations, "discharged": discharged, "states": 0,
            "transitions": 0, "cases": [], "detail": "; ".join(detail), "wall": round(time.time() - t0, 1)}


# ---------------------------------------------------------------------------
# binding demonstration

def selftest():
    """(a) a wrong constant in a copy of an Apalache specification is refuted; (b) a corrupted expectation of a CASE is
    reported by the replay."""
    res = {}
    d = os.path.join(WORK, "selftest-%d" % os.getpid())
    try:
        # ChiaLisp per-byte price 6 -> 5 under the new cost model: big atoms make the native operator dearer
        os.makedirs(os.path.join(d, "a"), exist_ok=True)
        s = open(_spec("ApaShaTree.tla")).read()
        s2 = s.replace("IF nw THEN 3085 * (pp + 1) + 6 * bb", "IF nw THEN 3085 * (pp + 1) + 5 * bb")
        assert s2 != s
        open(os.path.join(d, "a", "ApaShaTree.tla"), "w").write(s2)
        r = apalache(os.path.join(d, "a", "ApaShaTree.tla"), "IndInit", ["Cheaper"], 0, "selftest")
        res["apa_shatree_mutant_refuted"] = r["outcome"] == "Error"
        res["apa_shatree_cex"] = r["cex"]
        # 2^20 -> 2^13 - 1 for width 3: the widths are no longer nested and 8191 gets two minimal widths (2 and 4)
        os.makedirs(os.path.join(d, "b"), exist_ok=True)
        s = open(_spec("ApaVarint.tla")).read()
        s2 = s.replace("IF k = 3 THEN 1048576", "IF k = 3 THEN 8191")
        assert s2 != s
        open(os.path.join(d, "b", "ApaVarint.tla"), "w").write(s2)
        r = apalache(os.path.join(d, "b", "ApaVarint.tla"), "InitRange", ["Partition"], 0, "selftest")
        res["apa_varint_mutant_refuted"] = r["outcome"] == "Error"
        res["apa_varint_cex"] = r["cex"]
        # the checked rule with the u32 test left out accepts products above 2^32 - 1
        os.makedirs(os.path.join(d, "c"), exist_ok=True)
        s = open(_spec("ApaUnknown.tla")).read()
        s2 = s.replace("CheckedOk == prod <= U64Max /\\ prod <= U32Max", "CheckedOk == prod <= U64Max")
        assert s2 != s
        open(os.path.join(d, "c", "ApaUnknown.tla"), "w").write(s2)
        r = apalache(os.path.join(d, "c", "ApaUnknown.tla"), "InitAbs", ["CheckedIsPublished"], 0, "selftest")
        res["apa_unknown_mutant_refuted"] = r["outcome"] == "Error"
    finally:
        shutil.rmtree(d, ignore_errors=True)
    # (b) CASE with a corrupted expected cost
    ops_bin = C.build_harness("default", ["ops"])["ops"]
    good = {"op": [1, 64], "args": {"f": {"a": [], "n": 400}, "r": {"a": []}}, "flags": [], "max": [255] * 8,
            "exp": {"st": "ok", "cost": C.n_le((99 + 320 + 3 * 400) * 2), "val": {"a": []}}}
    bad = json.loads(json.dumps(good))
    bad["exp"]["cost"] = C.n_le((99 + 320 + 3 * 400) * 2 + 1)
    n, mm = replay_unknown_cases([good, bad], ops_bin)
    res["replay_detects_corrupted_case"] = n == 2 and len(mm) == 1 and mm[0]["case"] == bad
    res["ok"] = all(v for k, v in res.items() if isinstance(v, bool))
    return res


if __name__ == "__main__":
    import sys
    which = sys.argv[1] if len(sys.argv) > 1 else "all"
    tier = sys.argv[2] if len(sys.argv) > 2 else "quick"
    fns = {"c23": check_c23_lemmas, "c09": check_c09_lemmas, "c21": check_c21_lemmas}
    if which == "selftest":
        print(json.dumps(selftest(), indent=1, default=str))
    else:
        for k in (fns if which == "all" else [which]):
            r = fns[k](tier)
            r = dict(r)
            r["cases"] = "(%d cases)" % len(r.get("cases") or [])
            print(k, json.dumps(r, indent=1, sort_keys=True)[:6000])


# ---------------------------------------------------------------------------
# adapter used by check.py (properties decided by several engines are merged there)

def check(prop, tier, seed):
    out = C.Outcome(prop)
    f = {"C23": check_c23_lemmas, "C09": check_c09_lemmas, "C21": check_c21_lemmas}[prop]
    r = f(tier)
    out.states += int(r.get("states", 0))
    out.transitions += int(r.get("transitions", 0))
    out.extra["lemma_obligations"] = r.get("obligations")
    out.extra["lemma_discharged"] = r.get("discharged")
    out.extra["lemma_detail"] = str(r.get("detail", ""))[:600]
    if prop == "C09":
        out.traces += int(r.get("replayed", 0) or 0)
        for m in (r.get("mismatches") or [])[:50]:
            v = C.Violation(prop, "enumerated unknown-operator call (MCUnknown) differs: %s" % json.dumps(m)[:400], {"mismatch": m})
            v.signature = "C09:mcunknown:%s" % C.sha256_str(json.dumps(m.get("case", m), sort_keys=True))[:12]
            out.violations.append(v)
    if not r.get("ok", False) and not out.violations:
        # a refuted lemma is a statement about the SPECIFICATION (design level): tool error, never a verdict on the code
        raise C.ToolError("side lemma for %s not discharged: %s" % (prop, str(r.get("detail"))[:1500]))
    out.evaluations = out.traces
    out.nontrivial = out.traces
    out.rule = "design-level side lemmas (Apalache: unbounded integer arithmetic; TLC: bounded enumeration) for " + prop
    out.sample({"lemmas": r.get("detail", "")[:300]})
    return out


def replay(rp):
    return True
