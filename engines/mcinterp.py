"""Bounded model checking of the interpreter specification and its replay into run_program.

check_mc(tier, seed)   MCInterp.tla: self-composition of the Interp.tla machine over ProgUniverse (one behaviour per
                       program; base / new cost model / strict / hard-fork flags / unaware / runtime / budgets in lockstep);
                       the design-level invariants C02 C07 C08 C11 C25 C30 C31 are TLC invariants (a violation is a
                       ToolError: the specification contradicts itself).  Every finished run is emitted with the outcome
                       the specification assigns to it and replayed through the real run_program (`run replay`).
check_ref(tier)        MCRefEval.tla: the Interp.tla machine (chia, no flags, unlimited budget) against the independent
                       big-step reference evaluator RefEval.tla over the classic part of the same universe (C01).

Both return plain dicts (see the docstrings); engines/run.py merges them into the property checks.
The TLC results depend on the specification only and are cached by the hash of the spec sources."""
import collections, json, os
from lib import common as C

SPEC_MC = ["MCInterp", "ProgUniverse", "RefEval", "Interp", "Ops", "Sexp", "BigInt", "Prim"]
SPEC_REF = ["MCRefEval", "ProgUniverse", "RefEval", "Interp", "Ops", "Sexp", "BigInt", "Prim"]
WORKERS = min(8, C.NCPU)

# which properties a replayed run of a configuration binds to the implementation (spec -> impl)
PROPS_OF_RUN = {
    "base": ["C01", "C25"], "new": ["C11", "C25"], "strict": ["C07", "C25"], "hf": ["C25"],
    "unaware": ["C08", "C25"], "runtime": ["C30", "C25"], "b1": ["C02"], "b700": ["C02"],
    "bb": ["C02"], "nb": ["C02"], "bp": ["C02"],
}


def _work():
    d = os.path.join(C.WORK, "mcinterp")
    os.makedirs(d, exist_ok=True)
    return d


def _run_model(module, modules, tier, seed, env=None, timeout=5400):
    """run TLC on spec/<module>.tla (cached by spec hash, tier, seed).  Returns (stats dict, path of an ndjson
    file with the parsed tagged lines: one json object per line)."""
    key = "%s|%s|%s|%s|%s" % (module, C.spec_hash(modules), tier, seed, json.dumps(env or {}, sort_keys=True))
    base = C.cache_path("mcinterp", key)
    spath, lpath = base + ".stats.json", base + ".lines.ndjson"
    if os.path.exists(spath) and os.path.exists(lpath):
        return json.load(open(spath)), lpath
    e = {"TIER": tier}
    e.update(env or {})
    res = C.run_tlc(module, workers=WORKERS, env=e, timeout=timeout, xmx="8g", extra=["-seed", str(seed)])
    if res.invariant_violated:
        tail = "\n".join(l for l in res.lines if not l.startswith('<<"CASE'))[-6000:]
        raise C.ToolError("%s: an invariant of the specification-only model is violated (the specification or the "
                          "statement is wrong, not the implementation):\n%s" % (module, tail))
    C.tlc_ok_or_raise(res, module)
    tag = "CASES" if module == "MCInterp" else "REF"
    n = 0
    tmp = lpath + ".tmp%d" % os.getpid()
    cfgs = {}
    if module == "MCInterp":
        t = res.tagged("CONFIGS")
        if not t:
            raise C.ToolError("MCInterp printed no CONFIGS line")
        cfgs = {c["name"]: c for c in t[0]}
    # the thorough tier prints > 100 MB of tagged lines: parse them one at a time (same unescaping as TlcResult.tagged)
    pre = '<<"%s", "' % tag
    with open(tmp, "w") as f:
        for ln in res.lines:
            if not ln.startswith(pre):
                continue
            ln = ln.strip()
            if not ln.endswith('">>'):
                raise C.ToolError("truncated %s line: %s" % (tag, ln[:200]))
            rec = json.loads(ln[len(pre):-3].replace('\\"', '"').replace("\\\\", "\\"))
            if module == "MCInterp":
                # expand the compact run records: n name, b budget, x expected, s steps, g guards completed, e exempt, y beyond
                rec["runs"] = [{"name": r["n"], "flags": cfgs[r["n"]]["flags"], "dialect": cfgs[r["n"]]["dialect"],
                                "budget": r["b"], "exp": r["x"], "steps": r["s"], "guards": r["g"], "exempt": r["e"],
                                "beyond": r["y"]} for r in rec["runs"]]
            f.write(json.dumps(rec, separators=(",", ":")) + "\n")
            n += 1
    os.replace(tmp, lpath)
    stats = {"states": res.distinct, "transitions": res.generated, "wall_s": round(res.wall, 1), "lines": n,
             "tier": tier, "seed": seed}
    json.dump(stats, open(spath + ".tmp", "w"))
    os.replace(spath + ".tmp", spath)
    return stats, lpath


def expand_cases(grouped_path, cases_path):
    """CASES groups (one per program) -> one case line per (program, env, configuration, budget).
    Returns coverage counters."""
    cov = {"programs": 0, "cases": 0, "abstained": 0, "by_class": collections.Counter(), "by_run": collections.Counter(),
           "by_status": collections.Counter(), "err_kinds": collections.Counter(), "machine_steps": 0,
           "guards_completed_base": 0, "exempt_runs": 0, "beyond_runs": 0, "ok_under_budget": 0}
    samples = []
    with open(grouped_path) as f, open(cases_path, "w") as o:
        for ln in f:
            g = json.loads(ln)
            cov["programs"] += 1
            cov["by_class"][g["cls"]] += 1
            for r in g["runs"]:
                cov["machine_steps"] += r["steps"]
                st = r["exp"]["st"]
                cov["by_status"]["%s:%s" % (r["name"], st)] += 1
                if st == "abstain":
                    cov["abstained"] += 1
                    continue
                if st == "err":
                    cov["err_kinds"][r["exp"]["kind"]] += 1
                if r["name"] == "base" and st == "ok" and r["guards"] > 0:
                    cov["guards_completed_base"] += 1
                if r["exempt"]:
                    cov["exempt_runs"] += 1
                if r["beyond"]:
                    cov["beyond_runs"] += 1
                if r["name"] in ("bb", "nb", "bp", "b700") and st == "ok":
                    cov["ok_under_budget"] += 1
                case = {"prog": g["prog"], "env": g["env"], "flags": r["flags"], "dialect": r["dialect"],
                        "budget": r["budget"], "exp": r["exp"], "run": r["name"], "cls": g["cls"]}
                o.write(json.dumps(case, separators=(",", ":")) + "\n")
                cov["cases"] += 1
                cov["by_run"][r["name"]] += 1
            if len(samples) < 4 and g["cls"] in ("guard", "depth2", "op", "unknown") and \
                    g["cls"] not in [s["cls"] for s in samples]:
                samples.append({"cls": g["cls"], "prog": C.tree_hex(g["prog"])[:300], "env": C.tree_hex(g["env"]),
                                "runs": [{"run": r["name"], "budget": C.le_n(r["budget"]),
                                          "exp": (r["exp"]["st"] == "ok" and
                                                  {"cost": C.le_n(r["exp"]["cost"]), "val": C.tree_hex(r["exp"]["val"])[:80]})
                                          or r["exp"]} for r in g["runs"][:11]]})
    for k in ("by_class", "by_run", "by_status", "err_kinds"):
        cov[k] = dict(cov[k])
    cov["samples"] = samples
    return cov


def replay_cases(cases_path, ncases):
    """run the case file through the real run_program; returns the list of mismatches"""
    hb = C.build_harness("default", ["run"])["run"]
    mm = os.path.join(_work(), "replay-%d.ndjson" % os.getpid())
    C.run([hb, "replay", "--in", cases_path, "--out", mm], timeout=3600)
    lines = [json.loads(l) for l in open(mm)]
    os.remove(mm)
    if not lines or lines[-1].get("done") != ncases:
        raise C.ToolError("run replay did not complete (%s of %d cases)" % (lines[-1] if lines else None, ncases))
    out = []
    for m in lines[:-1]:
        c = m["case"]
        m["props"] = PROPS_OF_RUN.get(c.get("run"), ["C01"])
        m["signature"] = "mcinterp:%s:%s:%s" % (c.get("run"), ",".join(m["diff"]),
                                               C.sha256_str(json.dumps([c["prog"], c["env"], c["flags"], c["dialect"], c["budget"]],
                                                                       sort_keys=True))[:12])
        m["text"] = "prog=%s env=%s dialect=%s flags=%s budget=%d expected=%s observed=%s" % (
            C.tree_hex(c["prog"])[:300], C.tree_hex(c["env"])[:80], c["dialect"], "|".join(c["flags"]) or "-",
            C.le_n(c["budget"]), _short(c["exp"]), _short(m["obs"]))
        out.append(m)
    return out


def _short(e):
    if e.get("st") == "ok":
        return "ok cost=%d val=%s counters=%s/%s/%s" % (C.le_n(e["cost"]), C.tree_hex(e["val"])[:80], e.get("atoms"),
                                                         e.get("pairs"), e.get("heap"))
    return json.dumps(e)[:200]


def check_mc(tier, seed, replay=True):
    """-> {"states", "transitions", "tlc_wall_s", "programs", "cases", "abstained", "mismatches": [..], "coverage": {..},
           "invariants": [names checked by TLC]}
    A TLC invariant violation raises C.ToolError (specification-only model)."""
    stats, grouped = _run_model("MCInterp", SPEC_MC, tier, seed)
    cases = os.path.join(_work(), "cases-%s-%d-%d.ndjson" % (tier, seed, os.getpid()))
    cov = expand_cases(grouped, cases)
    if cov["programs"] != stats["lines"] or cov["programs"] == 0:
        raise C.ToolError("MCInterp emitted %d groups, parsed %d" % (stats["lines"], cov["programs"]))
    # coverage sanity of the universe itself: the "exactly right" guards must complete, exempt guards must occur
    if cov["guards_completed_base"] == 0 or cov["exempt_runs"] == 0 or cov["ok_under_budget"] == 0:
        raise C.ToolError("MCInterp universe lost its guard/budget coverage: %s" % {k: cov[k] for k in
                          ("guards_completed_base", "exempt_runs", "ok_under_budget")})
    mism = replay_cases(cases, cov["cases"]) if replay else []
    if replay:
        os.remove(cases)
    return {"states": stats["states"], "transitions": stats["transitions"], "tlc_wall_s": stats["wall_s"],
            "programs": cov["programs"], "cases": cov["cases"], "abstained": cov["abstained"], "mismatches": mism,
            "coverage": cov, "cases_path": None if replay else cases,
            "invariants": ["InvC25", "InvC02", "InvC07", "InvC08", "InvC11", "InvC30", "InvC31"]}


def check_ref(tier, seed=1):
    """-> {"states", "transitions", "tlc_wall_s", "programs", "agree_ok", "agree_err", "abstained", "by_class"}
    The agreement itself is a TLC invariant (violation => C.ToolError with the counterexample)."""
    stats, lines = _run_model("MCRefEval", SPEC_REF, tier, seed)
    agree = collections.Counter()
    cls = collections.Counter()
    n = 0
    for ln in open(lines):
        r = json.loads(ln)
        n += 1
        agree[r["verdict"]] += 1
        cls[r["cls"]] += 1
    if n == 0:
        raise C.ToolError("MCRefEval compared nothing")
    return {"states": stats["states"], "transitions": stats["transitions"], "tlc_wall_s": stats["wall_s"], "programs": n,
            "agree_ok": agree["ok"], "agree_err": agree["err"], "abstained": agree["abstain"], "by_class": dict(cls)}


def selftest():
    """binding demonstration (b): corrupt one expected field of a CASE and show the replay reports it"""
    stats, grouped = _run_model("MCInterp", SPEC_MC, "smoke", 1)
    cases = os.path.join(_work(), "selftest-%d.ndjson" % os.getpid())
    cov = expand_cases(grouped, cases)
    lines = open(cases).read().splitlines()
    idx = next(i for i, l in enumerate(lines) if '"st":"ok"' in l)
    c = json.loads(lines[idx])
    c["exp"]["cost"] = C.n_le(C.le_n(c["exp"]["cost"]) + 1)
    lines[idx] = json.dumps(c)
    idx2 = next(i for i, l in enumerate(lines) if '"kind":"InvalidOpArg"' in l)
    c2 = json.loads(lines[idx2])
    c2["exp"]["kind"] = "Raise"
    lines[idx2] = json.dumps(c2)
    open(cases, "w").write("\n".join(lines) + "\n")
    mm = replay_cases(cases, cov["cases"])
    os.remove(cases)
    return {"corrupted": 2, "reported": len(mm), "diffs": [m["diff"] for m in mm]}


if __name__ == "__main__":
    import sys
    what = sys.argv[1] if len(sys.argv) > 1 else "mc"
    tier = sys.argv[2] if len(sys.argv) > 2 else "quick"
    seed = int(sys.argv[3]) if len(sys.argv) > 3 else 1
    if what == "mc":
        r = check_mc(tier, seed)
        mm = r.pop("mismatches")
        r["coverage"].pop("samples", None)
        print(json.dumps(r, indent=1))
        print("mismatches:", len(mm))
        for m in mm[:20]:
            print(" ", m["diff"], m["text"])
    elif what == "ref":
        print(json.dumps(check_ref(tier, seed), indent=1))
    else:
        print(json.dumps(selftest(), indent=1))
