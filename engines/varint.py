"""C21 serde_2026 varints: Varint.tla (codec + laws), MCVarint (bounded MC + case emission),
TraceVarint (trace validation), harness bin `varint`."""
import json, os
from lib import common as C


def check(prop, tier, seed):
    out = C.Outcome(prop)
    bins = C.build_harness("default", ["varint"])
    hb = bins["varint"]
    work = os.path.join(C.WORK, "varint")
    os.makedirs(work, exist_ok=True)

    # 1. model checking of the specification codec + case emission (depends on the spec only -> cached)
    key = "mcvarint|%s|%s" % (C.spec_hash(["Varint", "MCVarint", "BigInt"]), tier)
    cpath = C.cache_path("mc", key)
    if os.path.exists(cpath):
        mc = json.load(open(cpath))
    else:
        res = C.run_tlc("MCVarint", workers=min(8, C.NCPU), env={"TIER": tier}, timeout=3000)
        if res.invariant_violated:
            raise C.ToolError("specification codec violates its own laws:\n" + res.out[-3000:])
        C.tlc_ok_or_raise(res, "MCVarint")
        mc = {"cases": res.tagged("CASE"), "generated": res.generated, "distinct": res.distinct}
        json.dump(mc, open(cpath, "w"))
    out.states += mc["distinct"]
    out.transitions += mc["generated"]

    # 2. spec -> impl: replay every case into read_varint / write_varint
    cases = os.path.join(work, "cases-%d.ndjson" % os.getpid())
    with open(cases, "w") as f:
        for c in mc["cases"]:
            f.write(json.dumps(c) + "\n")
    mm = os.path.join(work, "replay-%d.ndjson" % os.getpid())
    C.run([hb, "replay", "--in", cases, "--out", mm], timeout=600)
    lines = [json.loads(l) for l in open(mm)]
    if not lines or "done" not in lines[-1] or lines[-1]["done"] != len(mc["cases"]):
        raise C.ToolError("varint replay did not complete")
    for m in lines[:-1]:
        v = C.Violation(prop, "implementation disagrees with Varint.tla on an enumerated case: %s" % json.dumps(m)[:300],
                        {"direction": "spec->impl", "mismatch": m})
        v.signature = "varint:s2i:" + json.dumps(m["case"].get("b", m["case"].get("mag")))
        out.violations.append(v)
    out.traces += len(mc["cases"])
    out.sample({"spec_case": mc["cases"][len(mc["cases"]) // 3]})
    out.sample({"spec_case": mc["cases"][-1]})
    os.remove(cases)
    os.remove(mm)

    # 3. impl -> spec: random values / byte strings recorded from the implementation, validated by TLC
    n = 6000 if tier == "quick" else 120000
    shards = 1 if tier == "quick" else 8
    per = n // shards
    for s in range(shards):
        trace = os.path.join(work, "trace-%d-%d.ndjson" % (os.getpid(), s))
        C.run([hb, "record", "--seed", str(seed * 1000 + s), "--n", str(per), "--out", trace], timeout=600)
        nlines = sum(1 for _ in open(trace))
        res = C.run_tlc("TraceVarint", workers=1, env={"TRACE": trace}, deque=True, timeout=3000,
                        name="TraceVarint%d" % s)
        C.tlc_ok_or_raise(res, "TraceVarint")
        done = res.tagged("TRACE-DONE")
        if not done or done[-1]["lines"] != nlines:
            raise C.ToolError("trace not fully consumed: %s of %d" % (done, nlines))
        out.add_tlc(res)
        out.traces += nlines
        for m in res.tagged("MISMATCH"):
            v = C.Violation(prop, "recorded varint event contradicts Varint.tla: %s" % json.dumps(m["event"])[:300],
                            {"direction": "impl->spec", "event": m["event"]})
            v.signature = "varint:i2s:" + json.dumps(m["event"].get("b", m["event"].get("mag")))
            out.violations.append(v)
        if s == 0:
            with open(trace) as f:
                out.sample({"trace_event": json.loads(f.readline())})
        os.remove(trace)

    # 4. exhaustive law sweep on the implementation (laws model-checked for the specification codec)
    k = 3 if tier == "quick" else 4
    sw = os.path.join(work, "sweep-%d.ndjson" % os.getpid())
    C.run([hb, "sweep", "--bytes", str(k), "--out", sw], timeout=7200)
    lines = [json.loads(l) for l in open(sw)]
    os.remove(sw)
    if not lines or "done" not in lines[-1]:
        raise C.ToolError("sweep did not complete")
    for m in lines[:-1]:
        v = C.Violation(prop, "codec law broken on encoding %s" % m["b"], {"direction": "law-sweep", "mismatch": m})
        v.signature = "varint:law:" + json.dumps(m["b"])
        out.violations.append(v)
    out.evaluations = out.traces + lines[-1]["done"]
    out.nontrivial = out.traces
    out.extra["law_sweep_encodings"] = lines[-1]["done"]
    out.rule = ("TLC enumerates every byte string of length <= 2, boundary-structured strings up to 9 bytes and values at "
                "+-2^(7k-1)+-2 (each is one state; codec laws are the invariant; one CASE per state is replayed into the "
                "implementation); random values/byte strings recorded from the implementation are validated line by line by "
                "TraceVarint; all encodings of <= %d bytes are swept on the implementation for the laws. A case is distinct "
                "by its byte string / value; all are non-trivial (each exercises encode or decode)." % k)
    out.assumptions = ["SHA-256 override not used here", "values beyond 8-byte encodings are outside the format (write_varint panics by contract)"]
    out.exhaustive = False
    return out


def selftest():
    """binding demonstration: one corrupted field of a recorded varint event must be reported by TraceVarint"""
    hb = C.build_harness("default", ["varint"])["varint"]
    work = os.path.join(C.WORK, "varint")
    os.makedirs(work, exist_ok=True)
    base = os.path.join(work, "selftest-%d.ndjson" % os.getpid())
    C.run([hb, "record", "--seed", "4242", "--n", "200", "--out", base], timeout=600)
    lines = [json.loads(l) for l in open(base)]
    os.remove(base)

    def validate(evs, tag):
        p = os.path.join(work, "selftest-%s-%d.ndjson" % (tag, os.getpid()))
        with open(p, "w") as f:
            for e in evs:
                f.write(json.dumps(e, separators=(",", ":")) + "\n")
        res = C.run_tlc("TraceVarint", workers=1, env={"TRACE": p}, deque=True, timeout=900, name="TraceVarint-selftest")
        os.remove(p)
        done = res.tagged("TRACE-DONE")
        return {"consumed": bool(done) and done[-1]["lines"] == len(evs), "mismatches": len(res.tagged("MISMATCH"))}
    rep = {"unmodified": validate(lines, "base")}
    ok = rep["unmodified"]["consumed"] and rep["unmodified"]["mismatches"] == 0
    i = next(j for j, e in enumerate(lines) if e["ev"] == "enc" and len(e["out"]) >= 2)
    m = json.loads(json.dumps(lines))
    m[i]["out"][-1] ^= 1
    rep["enc.out bit flipped"] = validate(m, "enc")
    ok = ok and rep["enc.out bit flipped"]["mismatches"] == 1
    i = next(j for j, e in enumerate(lines) if e["ev"] == "dec" and e.get("ok"))
    m = json.loads(json.dumps(lines))
    m[i]["used"] += 1
    rep["dec.used+1"] = validate(m, "dec")
    ok = ok and rep["dec.used+1"]["mismatches"] == 1
    m = json.loads(json.dumps(lines))
    m[i]["ok"] = False
    rep["dec.ok flipped"] = validate(m, "acc")
    ok = ok and rep["dec.ok flipped"]["mismatches"] == 1
    rep["ok"] = bool(ok)
    return rep


def replay(rp):
    # re-run the whole quick check; a replay file documents the failing case
    o = check(rp["property"], "quick", rp.get("seed", 1))
    return not [v for v in o.violations]
