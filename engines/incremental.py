"""C19 incremental serializer histories: Incremental.tla (abstract add/undo machine, Assemble, DecodeBR,
the three clauses, history classes F6a/F6b/F6c), MCIncremental (all bounded histories + CASE emission),
TraceIncremental (validation of recorded histories), IncrementalMech (shadow-tree mechanism model),
harness bin `incser` (cargo forbids a binary called `incremental`)."""
import hashlib, json, os
from concurrent.futures import ThreadPoolExecutor
from lib import common as C

SIG = {
    "F6a": "C19:F6a:undone-add-shares-subtree-value-with-retained-content",
    "F6b": "C19:F6b:added-tree-contains-sentinel-more-than-once",
    # found by this engine (not in DESIGN.md section 7): see F6c in Incremental.tla
    "F6c": "C19:F6c:sentinel-bearing-allocator-node-added-more-than-once",
}

# (configuration, depth) of the bounded models per tier; see MCIncremental.tla
MC_CONFS = {
    "quick": [("wide", 3), ("deep", 5), ("six", 6), ("ab", 3)],
    "thorough": [("wide", 4), ("deep", 5), ("six", 7), ("ab", 3)],
}
SPEC_MODULES = ["Incremental", "MCIncremental"]
# the shadow-tree mechanism model is compared with the replay of the same universe/depth
MECH_CONF = {"quick": ("deep", 4), "thorough": ("deep", 5)}


def _work():
    w = os.path.join(C.WORK, "incremental")
    os.makedirs(w, exist_ok=True)
    return w


def _short(obj):
    return hashlib.sha256(json.dumps(obj, sort_keys=True).encode()).hexdigest()[:12]


def signature(cls, clause, history):
    if cls in SIG:
        return SIG[cls]
    return "C19:%s:%s" % (clause, _short(history))


# ---------------------------------------------------------------------------
# 1. bounded model checking of the abstract machine + case emission (spec only -> cached)

def _mc_one(conf, depth):
    key = "mcincremental|%s|%s|%d" % (C.spec_hash(SPEC_MODULES), conf, depth)
    cpath = C.cache_path("mc", key)
    if os.path.exists(cpath):
        return json.load(open(cpath))
    res = C.run_tlc("MCIncremental", workers=max(2, min(6, C.NCPU // 3)), env={"CONF": conf, "DEPTH": str(depth)},
                    timeout=5000, name="MCIncremental-%s%d" % (conf, depth), xmx="6g")
    if res.invariant_violated:
        raise C.ToolError("the abstract machine violates its own laws (%s/%d):\n%s" % (conf, depth, res.out[-3000:]))
    C.tlc_ok_or_raise(res, "MCIncremental %s/%d" % (conf, depth))
    uni = res.tagged("UNIVERSE")
    if len(uni) != 1:
        raise C.ToolError("MCIncremental: no UNIVERSE line")
    mc = {"conf": conf, "depth": depth, "universe": uni[0]["universe"], "sent": uni[0]["sent"],
          "cases": res.tagged("CASE"), "generated": res.generated, "distinct": res.distinct, "wall": res.wall}
    if not mc["cases"]:
        raise C.ToolError("MCIncremental emitted no cases")
    with open(cpath + ".tmp", "w") as f:
        json.dump(mc, f)
    os.replace(cpath + ".tmp", cpath)
    return mc


def _mech_one(mech, reuse, conf, depth):
    """IncrementalMech (spec only -> cached): complete histories with the may/must flags of the mechanism model"""
    key = "incrementalmech|%s|%s|%s|%s|%d" % (C.spec_hash(["Incremental", "IncrementalMech"]), mech, reuse, conf, depth)
    cpath = C.cache_path("mc", key)
    if os.path.exists(cpath):
        return json.load(open(cpath))
    res = C.run_tlc("IncrementalMech", workers=max(2, min(6, C.NCPU // 3)), timeout=5000, xmx="6g",
                    env={"MECH": mech, "REUSE": "1" if reuse else "0", "CONF": conf, "DEPTH": str(depth)},
                    name="IncrementalMech-%s-%s" % (mech, "r" if reuse else "f"))
    if res.invariant_violated:
        raise C.ToolError("IncrementalMech (%s, reuse=%s): a law of the mechanism model is violated:\n%s" % (mech, reuse, res.out[-3000:]))
    C.tlc_ok_or_raise(res, "IncrementalMech")
    r = {"mech": mech, "reuse": reuse, "rows": res.tagged("MECH"), "generated": res.generated, "distinct": res.distinct}
    with open(cpath + ".tmp", "w") as f:
        json.dump(r, f)
    os.replace(cpath + ".tmp", cpath)
    return r


def _replay_cases(hb, mc, reuse, tag):
    """spec -> impl: every emitted history through the real Serializer; returns mismatch records"""
    work = _work()
    cases = os.path.join(work, "cases-%s-%d.ndjson" % (tag, os.getpid()))
    with open(cases, "w") as f:
        f.write(json.dumps({"universe": mc["universe"], "sent": mc["sent"]}) + "\n")
        for c in mc["cases"]:
            f.write(json.dumps(c) + "\n")
    mm = os.path.join(work, "replay-%s-%d.ndjson" % (tag, os.getpid()))
    C.run([hb, "replay", "--in", cases, "--out", mm, "--reuse", "1" if reuse else "0"], timeout=3000)
    lines = [json.loads(l) for l in open(mm)]
    os.remove(cases)
    os.remove(mm)
    if not lines or lines[-1].get("done") != len(mc["cases"]):
        raise C.ToolError("incser replay did not complete")
    return lines[:-1]


# ---------------------------------------------------------------------------
# 2. traces

def _plan_of(events):
    """the history (plan) a group of recorded events describes"""
    new = events[0]
    calls = []
    for e in events[1:]:
        if e["ev"] == "inc_add":
            calls.append({"op": "add", "t": e["t"]})
        elif e["ev"] == "inc_undo":
            calls.append({"op": "undo", "k": e["k"]})
    return {"mode": new.get("mode"), "sent": new["sent"], "reuse": new.get("reuse", False),
            "expect_clean": False, "calls": calls}


def _validate(trace, name):
    nlines = sum(1 for _ in open(trace))
    res = C.run_tlc("TraceIncremental", workers=1, env={"TRACE": trace}, deque=True, timeout=6000, name=name, xmx="3g")
    C.tlc_ok_or_raise(res, "TraceIncremental")
    done = res.tagged("TRACE-DONE")
    if not done or done[-1]["lines"] != nlines:
        raise C.ToolError("trace not fully consumed: %s of %d" % (done[-1:] if done else None, nlines))
    return res, done[-1], nlines


def _history_events(trace, wanted):
    got = {}
    cur = None
    for l in open(trace):
        e = json.loads(l)
        if e["ev"] == "inc_new":
            cur = e["h"] if e["h"] in wanted else None
            if cur is not None:
                got[cur] = []
        if cur is not None:
            got[cur].append(e)
    return got


def _desc(plan):
    def th(t):
        if "t" in t:
            return "<deep tree>"
        return C.tree_hex(t)
    s = th(plan["sent"])
    parts = []
    for c in plan["calls"]:
        parts.append("add " + th(c["t"]).replace(s, "S") if c["op"] == "add" else "undo %d" % c["k"])
    return "; ".join(parts)


def check(prop, tier, seed):
    out = C.Outcome(prop)
    bins = C.build_harness("default", ["incser"])
    hb = bins["incser"]
    work = _work()
    fail_by_class = {}
    covered = {}

    # --- model checking + spec -> impl ---------------------------------------------------------
    confs = MC_CONFS["thorough" if tier == "thorough" else "quick"]
    with ThreadPoolExecutor(max_workers=len(confs)) as ex:
        mcs = list(ex.map(lambda cd: _mc_one(*cd), confs))
    ncases = 0
    for mc in mcs:
        out.states += mc["distinct"]
        out.transitions += mc["generated"]
        tag = "%s%d" % (mc["conf"], mc["depth"])
        covered["mc_%s_histories" % tag] = len(mc["cases"])
        for reuse in (False, True):
            mms = _replay_cases(hb, mc, reuse, tag)
            ncases += len(mc["cases"])
            out.evaluations += sum(len(c["c"]) for c in mc["cases"])
            seen = set()
            for m in mms:
                c = m["case"]
                cls = c["clsr"] if reuse else c["cls"]
                hist = {"universe": mc["universe"], "sent": mc["sent"], "calls": c["c"], "reuse": reuse}
                sig = signature(cls, m["clause"], hist)
                k = "s2i:%s:%s" % (cls, "reuse" if reuse else "fresh")
                fail_by_class[k] = fail_by_class.get(k, 0) + 1
                if (sig, json.dumps(c["c"])) in seen:
                    continue
                seen.add((sig, json.dumps(c["c"])))
                v = C.Violation(prop, "Serializer disagrees with Incremental.tla on an enumerated history (clause %s at call %d, class %s%s): %s"
                                % (m["clause"], m["at"], cls, ", allocator nodes reused" if reuse else "", _desc(m["plan"])),
                                {"direction": "spec->impl", "universe": mc["universe"], "sent": mc["sent"], "case": c,
                                 "reuse": reuse, "clause": m["clause"], "at": m["at"], "class": cls, "observed_final": m.get("final")})
                v.signature = sig
                out.violations.append(v)
        for c in (mc["cases"][len(mc["cases"]) // 3], mc["cases"][-1]):
            out.sample({"spec_history": {"conf": tag, "calls": c["c"], "done": c["d"], "class": c["cls"]}}, cap=4)
        for c in mc["cases"]:
            covered["mc_class_" + c["cls"]] = covered.get("mc_class_" + c["cls"], 0) + 1
    out.traces += ncases

    # --- the mechanism model (design level): which histories get a wrong back-reference ---------
    mconf, mdepth = MECH_CONF["thorough" if tier == "thorough" else "quick"]
    combos = [(mech, reuse) for mech in ("code", "fixed") for reuse in (False, True)]
    with ThreadPoolExecutor(max_workers=4) as ex:
        mechs = list(ex.map(lambda mr: _mech_one(mr[0], mr[1], mconf, mdepth), combos))
    mcm = _mc_one(mconf, mdepth)
    mech_extra = {}
    for (mech, reuse), r in zip(combos, mechs):
        out.states += r["distinct"]
        out.transitions += r["generated"]
        may = set(json.dumps(x["c"]) for x in r["rows"] if x["may"])
        must = set(json.dumps(x["c"]) for x in r["rows"] if x["must"])
        tag = "%s_%s" % (mech, "reuse" if reuse else "fresh")
        mech_extra[tag] = {"complete_histories": len(r["rows"]), "may_be_wrong": len(may), "certainly_wrong": len(must),
                           "classes_of_may": sorted(set(x["cls"] for x in r["rows"] if x["may"]))}
        if mech == "code":
            real = set(json.dumps(m["case"]["c"]) for m in _replay_cases(hb, mcm, reuse, "mech")
                       if "fin" in m["case"] and m["clause"] == "final")
            mech_extra[tag]["failing_in_the_real_serializer"] = len(real)
            if must - real:
                out.drift.append("IncrementalMech(%s): %d histories certainly wrong in the model pass in the code, e.g. %s"
                                 % (tag, len(must - real), sorted(must - real)[0]))
            if real - may:
                out.drift.append("IncrementalMech(%s): %d histories fail in the code but have no wrong back-reference in the model, e.g. %s"
                                 % (tag, len(real - may), sorted(real - may)[0]))
    out.extra["mechanism_model_%s%d" % (mconf, mdepth)] = mech_extra
    mc_nontrivial = sum(1 for mc in mcs for c in mc["cases"] if len(c["c"]) >= 2)

    # --- impl -> spec ---------------------------------------------------------------------------
    if tier == "thorough":
        shards, per = 16, 6000
    else:
        shards, per = 6, 800
    traces = []
    for s in range(shards):
        trace = os.path.join(work, "trace-%d-%d.ndjson" % (os.getpid(), s))
        C.run([hb, "record", "--seed", str(seed * 1000 + s), "--n", str(per), "--reuse", "15", "--out", trace], timeout=3000)
        traces.append(trace)
    with ThreadPoolExecutor(max_workers=min(shards, max(2, C.NCPU // 2))) as ex:
        results = list(ex.map(lambda it: _validate(it[1], "TraceIncremental%d" % it[0]), enumerate(traces)))
    tally = {}
    distinct = set()
    for s, (trace, (res, done, nlines)) in enumerate(zip(traces, results)):
        out.add_tlc(res)
        out.traces += nlines
        out.evaluations += nlines
        for k, n in done["tally"].items():
            tally[k] = tally.get(k, 0) + n
        mism = res.tagged("MISMATCH")
        for d in res.tagged("DRIFT"):
            out.drift.append("history %d of shard %d: %s" % (d["h"], s, ",".join(d["what"])))
        for g in res.tagged("GENERATOR"):
            out.drift.append("generator: history %d of shard %d was meant to be F6-free but is in class %s" % (g["h"], s, g["class"]))
        evs = _history_events(trace, set(m["h"] for m in mism)) if mism else {}
        for m in mism:
            plan = _plan_of(evs[m["h"]])
            sig = signature(m["class"], m["clause"], plan)
            k = "i2s:%s:%s" % (m["class"], "reuse" if m["reuse"] else "fresh")
            fail_by_class[k] = fail_by_class.get(k, 0) + 1
            v = C.Violation(prop, "recorded Serializer history contradicts C19 (clause %s, class %s, mode %s%s): %s"
                            % (",".join(m["clauses"]), m["class"], m["mode"], ", allocator nodes reused" if m["reuse"] else "",
                               _desc(plan)[:600]),
                            {"direction": "impl->spec", "plan": plan, "clauses": m["clauses"], "class": m["class"],
                             "final_event": evs[m["h"]][-1]})
            v.signature = sig
            out.violations.append(v)
        # distinct non-trivial histories: at least two calls
        cur = None
        for l in open(trace):
            e = json.loads(l)
            if e["ev"] == "inc_new":
                cur = [json.dumps(e["sent"], sort_keys=True), e["reuse"]]
                ncalls = 0
            elif e["ev"] == "inc_add":
                cur.append(json.dumps(e["t"], sort_keys=True))
                ncalls += 1
            elif e["ev"] == "inc_undo":
                cur.append("u%d" % e["k"])
                ncalls += 1
            elif e["ev"] == "inc_final":
                if ncalls >= 2:
                    distinct.add(hashlib.sha256("|".join(map(str, cur)).encode()).digest()[:12])
                if s == 0 and len(out.samples) < 6 and ncalls >= 3:
                    out.sample({"recorded_history": {"calls": ncalls, "complete": e["complete"]}})
        os.remove(trace)
    out.nontrivial = mc_nontrivial + len(distinct)
    out.extra["histories_recorded"] = tally.get("hist", 0)
    out.extra["histories_complete"] = tally.get("complete", 0)
    out.extra["undo_calls_recorded"] = tally.get("undos", 0)
    out.extra["recorded_histories_per_class"] = {k[1:]: v for k, v in tally.items() if k.startswith("n")}
    out.extra["recorded_failing_per_class"] = {k[1:]: v for k, v in tally.items() if k.startswith("f")}
    out.extra["failing_histories_by_direction_class"] = fail_by_class
    out.extra.update(covered)
    out.rule = ("TLC enumerates every add/undo history up to the configured depth over each tree universe (every state is one "
                "history; machine laws are invariants; every complete or maximal history is a CASE replayed into two real "
                "Serializers, once with fresh allocator nodes and once with equal values sharing nodes); random histories "
                "(split trees, decoy additions taken back, chia_rs-style lists, repeated sentinels, F6-free by construction) are "
                "recorded and validated call by call by TraceIncremental. Distinct = distinct call sequences; non-trivial = at "
                "least two calls.")
    out.assumptions = [
        "sentinel identified by a value that occurs nowhere else (harness builds every such position as the one sentinel node)",
        "restore() is only given the UndoState of a currently retained add (any depth, clones allowed) - the contract the repository's tests use",
        "with repeated sentinels the intended meaning is: open positions are filled in pre-order",
        "atoms >= 2^27 bytes are outside the decoder model (never generated)",
        "bounded models: " + ", ".join("%s/%d" % cd for cd in confs),
    ]
    out.exhaustive = False
    return out


# ---------------------------------------------------------------------------

def replay(rp):
    """re-run one failing history; True iff it passes now"""
    bins = C.build_harness("default", ["incser"])
    hb = bins["incser"]
    work = _work()
    case = rp["case"]
    if case.get("direction") == "spec->impl":
        mc = {"universe": case["universe"], "sent": case["sent"], "cases": [case["case"]]}
        return not _replay_cases(hb, mc, case.get("reuse", False), "rp")
    plans = os.path.join(work, "plan-%d.ndjson" % os.getpid())
    trace = os.path.join(work, "rtrace-%d.ndjson" % os.getpid())
    with open(plans, "w") as f:
        f.write(json.dumps(case["plan"]) + "\n")
    C.run([hb, "run", "--in", plans, "--out", trace], timeout=600)
    res, done, nlines = _validate(trace, "TraceIncrementalReplay")
    os.remove(plans)
    os.remove(trace)
    return not res.tagged("MISMATCH")


def selftest():
    """binding demonstration: (a) corrupted recorded fields are rejected by TLC, (b) a corrupted expected field of a
    CASE is reported by the replay"""
    bins = C.build_harness("default", ["incser"])
    hb = bins["incser"]
    work = _work()
    report = {}
    # (a) a clean trace, then three corruptions of recorded observations
    trace = os.path.join(work, "st-trace.ndjson")
    C.run([hb, "record", "--seed", "77", "--n", "60", "--mode", "clean", "--out", trace], timeout=600)
    res, done, n = _validate(trace, "TraceIncrementalST0")
    report["a0_clean_trace_mismatches"] = len(res.tagged("MISMATCH"))
    evs = [json.loads(l) for l in open(trace)]

    def run_mut(tag, mutate):
        lines = [json.loads(json.dumps(e)) for e in evs]
        where = mutate(lines)
        p = os.path.join(work, "st-%s.ndjson" % tag)
        with open(p, "w") as f:
            for e in lines:
                f.write(json.dumps(e) + "\n")
        r, d, _ = _validate(p, "TraceIncrementalST" + tag)
        os.remove(p)
        mm = r.tagged("MISMATCH")
        report["a_%s" % tag] = {"corrupted": where, "mismatches": [(m["h"], m["clauses"]) for m in mm]}
        return mm

    def flip_app(lines):
        for i, e in enumerate(lines):
            if e["ev"] == "inc_add" and len(e.get("app", [])) >= 3:
                e["app"][1] ^= 0x01
                return "line %d: one bit of the bytes appended by an add" % (i + 1)

    def keep_off(lines):
        for i, e in enumerate(lines):
            if e["ev"] == "inc_undo" and e.get("keep", 0) >= 1:
                e["keep"] -= 1
                e["size"] -= 1
                e["size2"] -= 1
                return "line %d: undo leaves one byte less than before the undone add" % (i + 1)

    def bytes2(lines):
        for i, e in enumerate(lines):
            if e["ev"] == "inc_final" and e.get("same2"):
                del e["same2"]
                full = None
                # rebuild the visible bytes of this history
                j = i - 1
                chunks = []
                while lines[j]["ev"] != "inc_new":
                    chunks.append(lines[j])
                    j -= 1
                vis = []
                for c in reversed(chunks):
                    if "app" in c:
                        vis = vis + c["app"]
                    elif "keep" in c:
                        vis = vis[:c["keep"]]
                    elif "bytes" in c:
                        vis = c["bytes"]
                if not vis:
                    e["same2"] = True
                    continue
                full = list(vis)
                full[-1] ^= 0x80
                e["bytes2"] = full
                return "line %d: last byte of the second serializer's output" % (i + 1)

    def done_flag(lines):
        for i, e in enumerate(lines):
            if e["ev"] == "inc_add" and e.get("done") is False:
                e["done"] = True
                e["done2"] = True
                return "line %d: add reports done although a sentinel position is open" % (i + 1)

    ok_a = True
    for tag, mut in (("flipbyte", flip_app), ("undo", keep_off), ("salt", bytes2), ("done", done_flag)):
        ok_a = bool(run_mut(tag, mut)) and ok_a
    os.remove(trace)
    # (b) corrupt expected fields of enumerated cases
    mc = _mc_one("deep", 4)
    base = [c for c in mc["cases"] if c["cls"] == "none" and "fin" in c and len(c["c"]) >= 3][:50]
    report["b0_unmodified_cases_mismatches"] = len(_replay_cases(hb, dict(mc, cases=base), False, "st"))
    bad_fin = json.loads(json.dumps(base))
    for c in bad_fin:
        c["fin"][-1] ^= 0x01
    bad_done = json.loads(json.dumps(base))
    for c in bad_done:
        c["d"][0] = 1 - c["d"][0]
    bad_ub = [json.loads(json.dumps(c)) for c in mc["cases"] if c["cls"] == "none" and any(x > 1 for x in c["ub"])][:50]
    for c in bad_ub:
        i = [j for j, x in enumerate(c["ub"]) if x > 1][0]
        c["ub"][i] -= 1
    report["b_fin_corrupted"] = "%d/%d reported" % (len(_replay_cases(hb, dict(mc, cases=bad_fin), False, "st")), len(bad_fin))
    report["b_done_corrupted"] = "%d/%d reported" % (len(_replay_cases(hb, dict(mc, cases=bad_done), False, "st")), len(bad_done))
    n_ub = len(_replay_cases(hb, dict(mc, cases=bad_ub), False, "st"))
    report["b_undo_target_corrupted"] = "%d/%d reported (an earlier snapshot may hold the same bytes)" % (n_ub, len(bad_ub))
    report["ok"] = bool(ok_a and report["a0_clean_trace_mismatches"] == 0 and report["b0_unmodified_cases_mismatches"] == 0
                        and report["b_fin_corrupted"].startswith("%d/" % len(bad_fin))
                        and report["b_done_corrupted"].startswith("%d/" % len(bad_done)) and n_ub > 0)
    return report


if __name__ == "__main__":
    import sys
    print(json.dumps(selftest(), indent=1))
