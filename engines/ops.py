"""`ops` engine: operators called directly (ChiaDialect::op) and validated by Ops.tla through TraceOps.tla.
  C06  MALACHITE backend unobservable   (profile malachite: same call with/without the flag, kind "same")
  C09  unknown operators follow the published rule (profile unknown + corpus; kind "outcome" on unknown opcodes,
       compared with OpUnknownPublished: the wrapping product of the old model is finding F4)
  C10  operator costs follow the documented cost models (corpus + random + arith profiles; kind "outcome" where the
       specification and the code agree on success/value but not on cost, or disagree on a budget verdict)"""
import json, os
from concurrent.futures import ThreadPoolExecutor
from lib import common as C

SPEC_MODS = ["TraceOps", "Ops", "Sexp", "BigInt", "Prim"]


def _validate(trace, idx):
    nlines = sum(1 for _ in open(trace))
    res = C.run_tlc("TraceOps", workers=1, env={"TRACE": trace}, deque=True, timeout=5400, name="TraceOps-%d" % idx, xmx="3g")
    return trace, nlines, res


def record_and_validate(profile, tier, seed, n, shards):
    bins = C.build_harness("default", ["ops"])
    hb = bins["ops"]
    work = os.path.join(C.WORK, "ops")
    os.makedirs(work, exist_ok=True)
    key = "ops|%s|%s|%s|%d|%d|%d|%s" % (C.bin_hash(hb), profile, tier, seed, n, shards, C.spec_hash(SPEC_MODS))
    cpath = C.cache_path("ops", key)
    if os.path.exists(cpath):
        return json.load(open(cpath))
    traces = []
    if profile == "corpus":
        full = os.path.join(work, "corpus-%d.ndjson" % os.getpid())
        C.run([hb, "record", "--profile", "corpus", "--repo", C.REPO, "--out", full], timeout=900)
        lines = open(full).read().splitlines()
        os.remove(full)
        per = (len(lines) + shards - 1) // shards
        for i in range(shards):
            part = lines[i * per:(i + 1) * per]
            if part:
                p = os.path.join(work, "corpus-%d-%d.ndjson" % (os.getpid(), i))
                open(p, "w").write("\n".join(part) + "\n")
                traces.append(p)
    else:
        for i in range(shards):
            p = os.path.join(work, "%s-%d-%d.ndjson" % (profile, os.getpid(), i))
            C.run([hb, "record", "--profile", profile, "--seed", str(seed * 100 + i), "--n", str(n), "--out", p], timeout=900)
            traces.append(p)
    out = {"mismatches": [], "lines": 0, "abstained": 0, "generated": 0, "distinct": 0, "samples": []}
    with ThreadPoolExecutor(max_workers=min(len(traces), max(2, C.NCPU - 2))) as ex:
        for trace, nlines, res in ex.map(lambda a: _validate(*a), [(t, i) for i, t in enumerate(traces)]):
            C.tlc_ok_or_raise(res, "TraceOps(%s)" % profile)
            done = res.tagged("TRACE-DONE")
            if not done or done[-1]["lines"] != nlines:
                raise C.ToolError("ops trace %s not fully consumed: %s of %d\n%s" % (trace, done, nlines, res.out[-1500:]))
            out["lines"] += nlines
            out["abstained"] += done[-1]["abstained"]
            out["generated"] += res.generated
            out["distinct"] += res.distinct
            out["mismatches"] += res.tagged("MISMATCH")
            if len(out["samples"]) < 3:
                with open(trace) as f:
                    e = json.loads(f.readline())
                    out["samples"].append({k: e[k] for k in ("op", "args", "flags", "max", "variant") if k in e})
            os.remove(trace)
    json.dump(out, open(cpath, "w"))
    return out


def mcops(tier):
    """MCOps: exhaustive small-scope enumeration of operator calls by TLC (laws + CASE lines); cached by spec hash"""
    key = "mcops|%s|%s" % (C.spec_hash(["MCOps", "Ops", "Sexp", "BigInt", "Prim"]), tier)
    cpath = C.cache_path("mc", key)
    if os.path.exists(cpath):
        return json.load(open(cpath))
    res = C.run_tlc("MCOps", workers=min(8, C.NCPU), env={"TIER": tier}, timeout=5400, xmx="8g")
    if res.invariant_violated:
        raise C.ToolError("Ops.tla violates its own design-level laws (MCOps):\n" + res.out[-3000:])
    C.tlc_ok_or_raise(res, "MCOps")
    mc = {"cases": res.tagged("CASE"), "generated": res.generated, "distinct": res.distinct}
    json.dump(mc, open(cpath, "w"))
    return mc


def replay_mcops(out, prop, tier):
    mc = mcops(tier)
    out.states += mc["distinct"]
    out.transitions += mc["generated"]
    hb = C.build_harness("default", ["ops"])["ops"]
    work = os.path.join(C.WORK, "ops")
    os.makedirs(work, exist_ok=True)
    cases = os.path.join(work, "mcops-%d.ndjson" % os.getpid())
    with open(cases, "w") as f:
        for c in mc["cases"]:
            f.write(json.dumps(c) + "\n")
    mm = os.path.join(work, "mcops-mm-%d.ndjson" % os.getpid())
    C.run([hb, "replay", "--in", cases, "--out", mm], timeout=1800)
    lines = [json.loads(l) for l in open(mm)]
    os.remove(cases)
    os.remove(mm)
    if not lines or lines[-1].get("done") != len(mc["cases"]):
        raise C.ToolError("ops replay of MCOps cases did not complete")
    out.traces += len(mc["cases"])
    out.extra["mcops_cases"] = len(mc["cases"])
    out.sample({"mcops_case": mc["cases"][len(mc["cases"]) // 2]}, cap=6)
    for m in lines[:-1]:
        c, got = m["case"], m["got"]
        e = c["exp"]
        desc = "enumerated call: op=%s flags=%s max=%s args=%s expected=%s observed=%s" % (
            c["op"], c["flags"], C.le_n(c["max"]), json.dumps(c["args"])[:200], json.dumps(e)[:200], json.dumps(got)[:200])
        both_ok = e.get("st") == "ok" and got.get("ok") is True
        cost_differs = both_ok and e.get("cost") != got.get("cost")
        val_differs = both_ok and e.get("val") != got.get("val")
        # which property does this enumerated mismatch belong to?
        mine = False
        if prop == "C01":
            # classic operators under the default flags: result and cost, or failure, as the reference semantics
            classic = len(c["op"]) == 1 and c["op"][0] <= 34 and set(c["flags"]) <= {"ENABLE_SHA256_TREE"}
            mine = classic and ((e.get("st") == "ok") != (got.get("ok") is True) or cost_differs or val_differs)
        elif prop == "C10":
            mine = cost_differs                      # a successful call charges another cost than documented
        elif prop == "C11":
            mine = val_differs                       # value differs under (at least) one cost model
        elif prop == "C25":
            mine = ("panic" in got) or got.get("kind") == "InternalError"     # totality of operators called directly
        elif prop == "C02":
            # the budget equals the documented cost (or is unlimited) and the call is refused for cost
            mine = e.get("st") == "ok" and got.get("ok") is False and got.get("kind") == "CostExceeded" \
                and C.le_n(c["max"]) >= C.le_n(e["cost"])
        if not mine:
            out.drift.append("enumerated call differs (not a clause of %s): %s" % (prop, desc[:300]))
            continue
        v = C.Violation(prop, desc, {"mismatch": m})
        v.signature = "%s:mcops:%s" % (prop, C.sha256_str(json.dumps([c["op"], c["args"], c["flags"], c["max"]], sort_keys=True))[:12])
        out.violations.append(v)


def _is_unknown_call(m):
    op = m["op"]
    if len(op) != 1:
        return op not in ([19, 214, 31, 0], [28, 58, 143, 0])
    assigned = {3, 4, 5, 6, 7, 8, 9, 10, 11, 12, 13, 14, 16, 17, 18, 19, 20, 21, 22, 23, 24, 25, 26, 27, 29, 30, 32, 33, 34,
                48, 49, 50, 51, 52, 53, 54, 55, 56, 57, 58, 59, 60, 61}
    if op[0] in assigned:
        return False
    fl = set(m["flags"])
    if op[0] == 62 and "ENABLE_KECCAK_OPS_OUTSIDE_GUARD" in fl:
        return False
    if op[0] == 63 and "ENABLE_SHA256_TREE" in fl:
        return False
    if op[0] in (64, 65) and "ENABLE_SECP_OPS" in fl:
        return False
    return True


def check(prop, tier, seed):
    out = C.Outcome(prop)
    quick = tier == "quick"
    if prop in ("C01", "C02", "C11", "C25"):
        replay_mcops(out, prop, tier)
        out.evaluations = out.traces
        out.nontrivial = out.traces
        out.rule = ("MCOps: every non-cryptographic operator x argument lists of arity 0..3 over a boundary alphabet x both cost "
                    "models x budgets {unlimited, cost, cost-1}, enumerated by TLC with the expected outcome and replayed into "
                    "ChiaDialect::op (exhaustive within the bound)")
        out.exhaustive = True
        return out
    plans = {
        "C06": [("malachite", 700 if quick else 12000, 6 if quick else 14)],
        "C09": [("unknown", 500 if quick else 6000, 6 if quick else 14), ("corpus", 0, 12)],
        "C10": [("corpus", 0, 12), ("random", 350 if quick else 6000, 8 if quick else 14),
                ("arith", 250 if quick else 4000, 4 if quick else 8)],
    }[prop]
    total_lines = 0
    for profile, n, shards in plans:
        res = record_and_validate(profile, tier, seed, n, shards)
        out.states += res["distinct"]
        out.transitions += res["generated"]
        out.traces += res["lines"]
        total_lines += res["lines"]
        out.extra["abstained_" + profile] = res["abstained"]
        for s in res["samples"]:
            out.sample(s, cap=5)
        for m in res["mismatches"]:
            k = m["kind"]
            unknown = _is_unknown_call(m)
            desc = "%s op=%s flags=%s max=%s args=%s observed=%s expected=%s" % (
                k, m["op"], m["flags"], C.le_n(m["max"]), json.dumps(m["args"])[:200],
                json.dumps(m["observed"])[:200], json.dumps(m["expected"])[:200])
            mine = False
            sig = "%s:%s:%s" % (prop, k, C.sha256_str(json.dumps([m["op"], m["args"], m["flags"], m["max"]], sort_keys=True))[:12])
            if k == "pinned":
                raise C.ToolError("Ops.tla does not reproduce a pinned op-tests vector (specification fidelity): " + desc)
            if prop == "C06":
                mine = k == "same"
            elif prop == "C09":
                mine = k == "outcome" and unknown
            elif prop == "C10":
                if k == "outcome" and not unknown:
                    o, e = m["observed"], m["expected"]
                    # cost clause: both succeed (then value and cost must match) or the budget verdict differs
                    mine = (o.get("st") == "ok" and e.get("st") == "ok") or \
                           ("CostExceeded" in (o.get("kind"), e.get("kind")))
                if k == "sameval":
                    mine = False
            if mine:
                v = C.Violation(prop, desc, {"mismatch": m})
                v.signature = sig
                out.violations.append(v)
            else:
                out.drift.append("%s (not a clause of %s): %s" % (k, prop, desc[:300]))
    if prop == "C10":
        replay_mcops(out, prop, tier)
        total_lines += out.extra.get("mcops_cases", 0)
    # C09: the published rule vs the code's wrapping product (finding F4) is decided in MCUnknown (design level) and by
    # the dedicated corner events of the `unknown` profile: TraceOps uses the code's rule (OpUnknown), so the corner is
    # reported by comparing with the published rule here.
    if prop == "C09":
        res = record_and_validate("unknown", tier, seed, plans[0][1], plans[0][2])
        _published_rule(out, res, tier, seed)
    out.evaluations = total_lines
    out.nontrivial = total_lines - sum(v for k, v in out.extra.items() if k.startswith("abstained_"))
    out.rule = ("operator calls through ChiaDialect::op: the op-tests corpus (every vector under its flag sets), random argument "
                "lists per operator with budgets at/around the cost, both cost models; each call is re-evaluated by Ops.tla in "
                "TLC. Distinct = trace lines (each is a different call); non-trivial = decided by the specification.")
    out.assumptions = ["cryptographic operators and bignum operands above the caps of Ops.tla are abstained (counted per profile)"]
    return out


def _published_rule(out, res, tier, seed):
    """TLC evaluates the PUBLISHED unknown-operator rule (exact product) on the recorded unknown-op events."""
    bins = C.build_harness("default", ["ops"])
    hb = bins["ops"]
    work = os.path.join(C.WORK, "ops")
    p = os.path.join(work, "pub-%d.ndjson" % os.getpid())
    C.run([hb, "record", "--profile", "unknown", "--seed", str(seed * 100 + 77), "--n", "300" if tier == "quick" else "3000", "--out", p], timeout=900)
    nlines = sum(1 for _ in open(p))
    r = C.run_tlc("TraceOps", cfg="TraceOpsPublished.cfg", workers=1, env={"TRACE": p, "PUBLISHED": "1"}, deque=True, timeout=3000, name="TraceOpsPub")
    C.tlc_ok_or_raise(r, "TraceOps(published)")
    done = r.tagged("TRACE-DONE")
    if not done or done[-1]["lines"] != nlines:
        raise C.ToolError("published-rule trace not consumed")
    out.add_tlc(r)
    out.traces += nlines
    for m in r.tagged("MISMATCH"):
        if m["kind"] != "outcome":
            continue
        o, e = m["observed"], m["expected"]
        if not _is_unknown_call(m):
            out.drift.append("outcome of a defined operator in the unknown profile (not a clause of C09): op=%s flags=%s observed=%s expected=%s" % (
                m["op"], m["flags"], json.dumps(o)[:120], json.dumps(e)[:120]))
            continue
        desc = "published rule: op=%s flags=%s args=%s observed=%s expected=%s" % (m["op"], m["flags"], json.dumps(m["args"])[:160], json.dumps(o)[:160], json.dumps(e)[:160])
        v = C.Violation("C09", desc, {"mismatch": m})
        # F4 class, computed from the input: old cost model, observed success, published rule says Invalid (product >= 2^32)
        if "NEW_COST_MODEL" not in m["flags"] and o.get("st") == "ok" and e.get("st") == "err" and e.get("kind") == "Invalid":
            v.signature = "C09:F4:prehardfork-wrapping-product"
        else:
            v.signature = "C09:published:%s" % C.sha256_str(json.dumps([m["op"], m["args"], m["flags"]], sort_keys=True))[:12]
        out.violations.append(v)
    os.remove(p)


def replay(rp):
    o = check(rp["property"], rp.get("tier", "quick"), rp.get("seed", 1))
    sig = rp.get("signature")
    return not [v for v in o.violations if sig is None or v.signature == sig]


def selftest():
    """binding demonstration: one corrupted field of a recorded operator call must be reported by TraceOps"""
    import copy
    bins = C.build_harness("default", ["ops"])
    hb = bins["ops"]
    work = os.path.join(C.WORK, "ops")
    os.makedirs(work, exist_ok=True)
    base = os.path.join(work, "selftest-%d.ndjson" % os.getpid())
    C.run([hb, "record", "--profile", "random", "--seed", "4242", "--n", "60", "--out", base], timeout=900)
    lines = [json.loads(l) for l in open(base)]
    os.remove(base)

    def validate(evs, tag):
        p = os.path.join(work, "selftest-%s-%d.ndjson" % (tag, os.getpid()))
        with open(p, "w") as f:
            for e in evs:
                f.write(json.dumps(e, separators=(",", ":")) + "\n")
        _, n, res = _validate(p, 0)
        os.remove(p)
        done = res.tagged("TRACE-DONE")
        return {"rc": res.rc, "consumed": bool(done) and done[-1]["lines"] == n,
                "kinds": sorted({m["kind"] for m in res.tagged("MISMATCH")}), "mismatches": len(res.tagged("MISMATCH"))}
    report = {"trace_lines": len(lines), "unmodified": validate(lines, "base")}
    ok = report["unmodified"]["consumed"] and report["unmodified"]["mismatches"] == 0
    i = next(j for j, e in enumerate(lines) if e.get("ok") is True and C.le_n(e["cost"]) > 0 and len(e["op"]) == 1 and e["op"][0] in (16, 17, 14, 11, 13))
    m = copy.deepcopy(lines)
    m[i]["cost"] = C.n_le(C.le_n(m[i]["cost"]) - 1)
    report["cost-1"] = validate(m, "cost")
    ok = ok and report["cost-1"]["mismatches"] == 1 and "outcome" in report["cost-1"]["kinds"]
    m = copy.deepcopy(lines)
    m[i]["ok"] = False
    m[i]["kind"] = "InvalidOpArg"
    report["ok->error"] = validate(m, "err")
    ok = ok and report["ok->error"]["mismatches"] == 1
    report["ok"] = bool(ok)
    return report
