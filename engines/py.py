"""`py` engine: the Python wheel against the Rust core and the specification (C26, C27, C28).

Pieces: harness bin `pyref` (Rust side: generators and what the Rust core answers), `pyharness/driver.py`
(calls the wheel built from /repo/wheel, exceptions are data), `spec/TracePyRun.tla` (whole runs re-executed
by the Interp machine, relations between the Rust and the Python run), `spec/TracePy.tla` (function-style
API: py = rust, rust = SerClassic / SerBackrefs / Ser2026 / BigInt / TreeHash), `spec/LazyConv.tla` +
`MCLazyConv` (design-level model of clvm_tree_to_lazy_node over a Python heap with address reuse).

The wheel is rebuilt from the working tree by every check (`cargo build -p clvm_rs`, cargo decides what
is stale) and the .py files are copied anew each time."""
import glob, hashlib, json, os, shutil, sys, time
from concurrent.futures import ThreadPoolExecutor
from lib import common as C

PYH = os.path.join(C.VERIF, "pyharness")
DRIVER = os.path.join(PYH, "driver.py")
PYTHON = "/usr/bin/python3"
WORK = os.path.join(C.WORK, "py")
F1_SIG = "C27:F1:memo-keyed-by-address-of-temporary"
F3_SIG = "C28:F3:python-decoder-accepts-7-byte-length-prefix"
FRESH_WRAPPERS = {"lazynode", "lazynode_backrefs", "fresh", "fresh_same", "fresh_lru2", "fresh_lru5", "fresh_held"}

_wheel = {}


# ---------------------------------------------------------------------------
# building the wheel

def build_wheel(repo=None, base=None):
    """cargo build of wheel/ (cdylib) from `repo`, assembled with a fresh copy of wheel/python/clvm_rs/*.py
    into <base>/pkg/clvm_rs.  Returns (package parent dir, content hash)."""
    repo = repo or C.REPO
    if base is None:
        base = PYH if repo == "/repo" else os.path.join(WORK, "alt-" + C.sha256_str(repo)[:10])
    key = (repo, base)
    if key in _wheel:
        return _wheel[key]
    target = os.path.join(base, "target")
    pkg = os.path.join(base, "pkg", "clvm_rs")
    os.makedirs(pkg, exist_ok=True)
    t0 = time.time()
    p = C.run(["cargo", "build", "--offline", "--locked", "-p", "clvm_rs", "--release"], cwd=repo,
              env={"CARGO_TARGET_DIR": target}, timeout=5400, check=False)
    if p.returncode != 0:
        raise C.ToolError("wheel build failed:\n" + (p.stdout or "")[-5000:])
    so = os.path.join(target, "release", "libclvm_rs.so")
    if not os.path.exists(so):
        raise C.ToolError("wheel build produced no libclvm_rs.so")
    h = hashlib.sha256()
    h.update(C.sha256_file(so).encode())
    srcdir = os.path.join(repo, "wheel", "python", "clvm_rs")
    names = sorted(n for n in os.listdir(srcdir) if n.endswith((".py", ".pyi")) or n == "py.typed")
    for n in os.listdir(pkg):                       # a file deleted in the working tree must not linger
        if n.endswith((".py", ".pyi")) and n not in names:
            os.remove(os.path.join(pkg, n))
    for n in names:
        data = open(os.path.join(srcdir, n), "rb").read()
        h.update(n.encode())
        h.update(data)
        dst = os.path.join(pkg, n)
        if not os.path.exists(dst) or open(dst, "rb").read() != data:
            tmp = "%s.tmp%d" % (dst, os.getpid())
            with open(tmp, "wb") as f:
                f.write(data)
            os.replace(tmp, dst)
    dst = os.path.join(pkg, "clvm_rs.abi3.so")
    if not os.path.exists(dst) or C.sha256_file(dst) != C.sha256_file(so):
        tmp = "%s.tmp%d" % (dst, os.getpid())
        shutil.copy2(so, tmp)
        os.replace(tmp, dst)
    C.log("wheel built from %s in %.1fs" % (repo, time.time() - t0))
    _wheel[key] = (os.path.dirname(pkg), h.hexdigest()[:24])
    return _wheel[key]


def _driver(pkg, cmd, args, timeout=3600):
    C.run([PYTHON, DRIVER, cmd, "--pkg", pkg] + args, timeout=timeout,
          env={"PYTHONDONTWRITEBYTECODE": "1", "PYTHONHASHSEED": "0"})


def _lines(path):
    with open(path) as f:
        return [ln for ln in f.read().splitlines() if ln.strip()]


def _tlc_trace(module, trace, name):
    nlines = sum(1 for _ in open(trace))
    res = C.run_tlc(module, workers=1, env={"TRACE": trace}, deque=True, timeout=7200, name=name, xmx="3g")
    C.tlc_ok_or_raise(res, name)
    done = res.tagged("TRACE-DONE")
    if not done or done[-1]["lines"] != nlines:
        raise C.ToolError("trace %s not fully consumed (%s of %d lines)\n%s" % (trace, done, nlines, res.out[-2000:]))
    return res, done[-1], nlines


def _nest(t):
    if not isinstance(t, dict) or "t" not in t:
        return t
    nodes = []
    for n in t["t"]:
        nodes.append(n if "a" in n else {"f": nodes[n["p"][0] - 1], "r": nodes[n["p"][1] - 1]})
    return nodes[-1]


def _hex(t):
    try:
        return C.tree_hex(_nest(t))
    except Exception:
        return "?"


def _short(e, cap=900):
    """a trace event cut down for replay files / descriptions"""
    def cut(v):
        if isinstance(v, list) and len(v) > 400:
            return v[:400] + ["...(%d)" % len(v)]
        if isinstance(v, dict):
            return {k: cut(x) for k, x in v.items()}
        return v
    return cut(e)


# ---------------------------------------------------------------------------
# pipelines (one shard each; run in a thread pool)

def _paths(tag, idx):
    os.makedirs(WORK, exist_ok=True)
    return lambda name: os.path.join(WORK, "%s-%d-%d-%s.ndjson" % (tag, os.getpid(), idx, name))


def _shard_runs(args):
    """generated run cases -> Rust runs -> Python runs -> TracePyRun"""
    hb, pkg, seed, n, idx, cases_file = args
    P = _paths("runs", idx)
    cases = cases_file or P("cases")
    if not cases_file:
        C.run([hb, "gen-run", "--seed", str(seed), "--n", str(n), "--out", cases], timeout=1800)
    C.run([hb, "run-cases", "--in", cases, "--out", P("rust")], timeout=3600)
    _driver(pkg, "runs", ["--in", P("rust"), "--out", P("trace")])
    res, done, nlines = _tlc_trace("TracePyRun", P("trace"), "TracePyRun-%d" % idx)
    mm = res.tagged("MISMATCH")
    tl = _lines(P("trace")) if mm else None
    for m in mm:
        # attach the input of the run: the nearest begin / prefail line at or before the reported line
        for j in range(min(m["line"], len(tl)) - 1, -1, -1):
            e = json.loads(tl[j])
            if e.get("ev") in ("begin", "prefail") and e.get("case") == m["case"]:
                m["input"] = {k: e.get(k) for k in ("pbytes", "ebytes", "budget", "flagword")}
                if e["ev"] == "begin":
                    m["input"]["prog"] = _hex(e["prog"])[:600]
                    m["input"]["env"] = _hex(e["env"])[:300]
                break
    kinds = {}
    sample = None
    for ln in _lines(P("trace")):
        e = json.loads(ln)
        if e["ev"] == "end" and e["variant"].endswith("py"):
            k = "ok" if e.get("ok") else e.get("kind", "pyexc")
            kinds[k] = kinds.get(k, 0) + 1
        elif e["ev"] == "prefail":
            kinds["prefail"] = kinds.get("prefail", 0) + 1
        elif e["ev"] == "begin" and sample is None:
            sample = {"case": e["case"], "flagword": e["flagword"], "flags": e["flags"], "budget": e["budget"],
                      "prog": _hex(e["prog"])[:300], "env": _hex(e["env"])[:150]}
    for p in ("cases", "rust", "trace"):
        if os.path.exists(P(p)) and P(p) != cases_file:
            os.remove(P(p))
    return {"mm": mm, "lines": nlines, "cnt": done["cnt"], "gen": res.generated, "distinct": res.distinct,
            "kinds": kinds, "sample": sample}


def _shard_fn(args):
    """function-style events -> TracePy.  what: codec | conv | pure | curry"""
    hb, pkg, seed, n, idx, what = args
    P = _paths(what, idx)
    extra = {}
    if what == "codec":
        C.run([hb, "gen-codec", "--seed", str(seed), "--n", str(n), "--out", P("gen")], timeout=1800)
        _driver(pkg, "codec", ["--in", P("gen"), "--out", P("trace")])
    elif what == "conv":
        C.run([hb, "gen-trees", "--seed", str(seed), "--n", str(n), "--out", P("gen")], timeout=1800)
        _driver(pkg, "conv", ["--in", P("gen"), "--out", P("trace")])
    elif what == "pure":
        with open(P("gen"), "w") as f:
            for g, k in (("gen-trees", max(1, n // 5)), ("gen-blobs", n), ("gen-ints", n)):
                C.run([hb, g, "--seed", str(seed), "--n", str(k), "--out", P("part")], timeout=1800)
                f.write(open(P("part")).read())
        os.remove(P("part"))
        _driver(pkg, "pure", ["--in", P("gen"), "--out", P("trace")])
    elif what == "curry":
        C.run([hb, "gen-curry", "--seed", str(seed), "--n", str(n), "--out", P("gen")], timeout=1800)
        _driver(pkg, "curry", ["--in", P("gen"), "--out", P("trace"), "--cases", P("runcases")])
        extra["runs"] = _shard_runs((hb, pkg, seed, n, 1000 + idx, P("runcases")))
        os.remove(P("runcases"))
    res, done, nlines = _tlc_trace("TracePy", P("trace"), "TracePy-%s-%d" % (what, idx))
    mm = res.tagged("MISMATCH")
    tl = _lines(P("trace"))
    for m in mm:
        m["event"] = json.loads(tl[m["line"] - 1])
    classes = {}
    sample = None
    for ln in tl:
        e = json.loads(ln)
        k = e["ev"] + (":" + e["fn"] if "fn" in e else "") + (":" + e["kind"] if e["ev"] == "conv" else "") \
            + (":" + e["class"] if "class" in e else "") + (":" + e["dir"] if "dir" in e else "")
        classes[k] = classes.get(k, 0) + 1
        if sample is None:
            sample = _short({k2: v for k2, v in e.items() if k2 not in ("rust", "py", "rust_triples")}, 300)
    for p in ("gen", "trace"):
        if os.path.exists(P(p)):
            os.remove(P(p))
    r = {"mm": mm, "lines": nlines, "gen": res.generated, "distinct": res.distinct, "classes": classes, "sample": sample}
    r.update(extra)
    return r


def _pool(fn, jobs):
    with ThreadPoolExecutor(max_workers=max(2, min(len(jobs), C.NCPU - 2))) as ex:
        return list(ex.map(fn, jobs))


def _cached(key, compute):
    cpath = C.cache_path("py", key)
    if os.path.exists(cpath):
        return json.load(open(cpath))
    r = compute()
    with open(cpath + ".tmp%d" % os.getpid(), "w") as f:
        json.dump(r, f)
    os.replace(cpath + ".tmp%d" % os.getpid(), cpath)
    return r


SPECS_RUN = ["TracePyRun", "Interp", "Ops", "Sexp", "BigInt", "Prim", "SerClassic"]
SPECS_FN = ["TracePy", "Sexp", "BigInt", "Prim", "SerClassic", "SerBackrefs", "Ser2026", "Varint", "TreeHash"]

SIZES = {
    # tier: (shards, run programs/shard, codec cases/shard, conv trees/shard, pure n/shard, curry cases/shard)
    "quick": (8, 110, 50, 30, 110, 40),
    "thorough": (16, 450, 200, 150, 450, 150),
}


def _setup():
    bins = C.build_harness("default", ["pyref"])
    pkg, wh = build_wheel()
    key = "%s|%s|%s" % (C.bin_hash(bins["pyref"]), wh, C.sha256_file(DRIVER)[:16])
    return bins["pyref"], pkg, key


def _add(out, r):
    out.states += r["distinct"]
    out.transitions += r["gen"]
    out.traces += r["lines"]


# ---------------------------------------------------------------------------
# C26

def _c26_sig(kind, inp):
    return "C26:%s:%s" % (kind, C.sha256_str(json.dumps(inp, sort_keys=True))[:12])


def check_c26(out, tier, seed, hb, pkg, key):
    shards, nrun, ncodec = SIZES[tier][0], SIZES[tier][1], SIZES[tier][2]

    def compute():
        runs = _pool(_shard_runs, [(hb, pkg, seed * 1000 + i, nrun, i, None) for i in range(shards)])
        cod = _pool(_shard_fn, [(hb, pkg, seed * 1000 + i, ncodec, i, "codec") for i in range(shards)])
        return {"runs": runs, "codec": cod}
    res = _cached("c26|%s|%s|%d|%s|%s" % (key, tier, seed, C.spec_hash(SPECS_RUN + SPECS_FN), SIZES[tier]), compute)
    kinds, classes, drift = {}, {}, {}
    nruns = abst = steps = 0
    for r in res["runs"]:
        _add(out, r)
        nruns += r["cnt"]["ends"] + r["cnt"]["prefail"]
        abst += r["cnt"]["abstained"]
        steps += r["cnt"]["steps"]
        for k, v in r["kinds"].items():
            kinds[k] = kinds.get(k, 0) + v
        if r["sample"]:
            out.sample({"run": r["sample"]}, cap=3)
        for m in r["mm"]:
            if m["kind"] in ("rel:py_eq_rust", "prefail:py_eq_rust"):
                v = C.Violation("C26", "run_serialized_chia_program differs from Rust run_program (%s): %s; input %s" % (
                    m["kind"], json.dumps(m["detail"])[:400], json.dumps(m.get("input"))[:300]), {"mismatch": _short(m)})
                v.signature = _c26_sig(m["kind"], m.get("input"))
                out.violations.append(v)
            else:
                drift[m["kind"]] = drift.get(m["kind"], 0) + 1
                if drift[m["kind"]] <= 3:
                    out.drift.append("run %s (not a clause of C26) case=%s %s input=%s" % (
                        m["kind"], m["case"], json.dumps(m["detail"])[:300], json.dumps(m.get("input"))[:300]))
    nfn = 0
    for r in res["codec"]:
        _add(out, r)
        nfn += r["lines"]
        for k, v in r["classes"].items():
            classes[k] = classes.get(k, 0) + v
        if r["sample"]:
            out.sample({"codec": r["sample"]}, cap=5)
        for m in r["mm"]:
            bad = [f for f in m["fails"] if f.startswith("py=rust") or f.startswith("py:")]
            other = [f for f in m["fails"] if f not in bad]
            e = m["event"]
            if bad:
                v = C.Violation("C26", "%s(%s) differs between the wheel and the Rust core: %s" % (
                    e.get("fn", e["ev"]), bytes(e["blob"][:60]).hex(), ",".join(bad)), {"fails": m["fails"], "event": _short(e)})
                v.signature = _c26_sig(e.get("fn", e["ev"]) + ":" + bad[0], {"blob": e["blob"], "opts": [e.get("opt_max"), e.get("opt_strict"), e.get("opt_level")]})
                out.violations.append(v)
            for f in other:
                drift[f] = drift.get(f, 0) + 1
                if drift[f] <= 3:
                    out.drift.append("codec %s (Rust vs specification, not a clause of C26) %s blob=%s" % (
                        f, e.get("fn", e["ev"]), bytes(e["blob"][:80]).hex()))
    out.evaluations = nruns + nfn
    out.nontrivial = nruns - abst + nfn
    out.extra.update({"python_run_outcomes": kinds, "codec_event_classes": classes, "machine_steps": steps,
                      "abstained": abst, "drift_counts": drift})
    out.rule = ("generated (program bytes, environment bytes, budget, 32-bit flag word) cases: the Rust replica of the binding "
                "(pyref run-cases) and the wheel's run_serialized_chia_program are both recorded; TracePyRun re-executes the "
                "Interp machine on the decoded input with the flag set it derives from the word (unknown bits dropped, heap limit "
                "from LIMIT_HEAP) and evaluates `py equals rust` (cost + result tree, or error message) on the recorded outcomes; "
                "inputs that do not deserialize are compared on the refusal. Byte strings (classic / back-reference / 2026 "
                "serializations, mutated) go through deser_legacy/deser_backrefs/deser_2026/deser_auto, the LazyNode atom/pair "
                "views, ser_legacy/ser_backrefs/ser_2026, serialized_length and deserialize_as_tree in Python and in Rust; "
                "TracePy checks py = rust and rust = SerClassic/SerBackrefs/Ser2026. Distinct non-trivial = runs the "
                "specification decided + function events.")
    out.assumptions = ["cryptographic operator results come from witnesses recorded in a second, wrapped Rust run of the same input",
                       "runs above 60000 machine steps or the evaluation caps of Ops.tla are abstained",
                       "budget and flag word are generated inside u64 / u32 (out-of-range Python ints raise OverflowError in pyo3 before the binding runs)"]


# ---------------------------------------------------------------------------
# C27

MC_CFGS = ["bug", "cases", "fix", "cached", "mixed_node", "mixed_cases", "mixed_addr", "mixed_allocnode"]
# name -> (module, cfg, expectation)
MC_MODELS = {
    "bug": ("MCLazyConv", "MCLazyConv_bug.cfg", "violates"),          # F1 as it was before the repair
    "cases": ("MCLazyConv", "MCLazyConv_cases.cfg", "cases"),
    "fix": ("MCLazyConv", "MCLazyConv_fix.cfg", "holds"),             # visited objects kept alive (the repaired code)
    "cached": ("MCLazyConv", "MCLazyConv_cached.cfg", "holds"),
    "mixed_node": ("MCLazyConvMixed", "MCLazyConvMixed_node.cfg", "violates"),   # LazyNodes keyed by NodePtr alone
    "mixed_cases": ("MCLazyConvMixed", "MCLazyConvMixed_cases.cfg", "cases"),
    "mixed_addr": ("MCLazyConvMixed", "MCLazyConvMixed_addr.cfg", "holds"),      # the code: keyed by address
    "mixed_allocnode": ("MCLazyConvMixed", "MCLazyConvMixed_allocnode.cfg", "holds"),
}


def lazyconv_models():
    """the bounded models of LazyConv.tla / LazyConvMixed.tla (spec-only: cached by the hash of the spec files)"""
    def compute():
        r = {}
        for c in MC_CFGS:
            module, cfg, expect = MC_MODELS[c]
            res = C.run_tlc(module, cfg=cfg, workers=min(8, C.NCPU), timeout=3600, name="MC-" + c)
            d = {"rc": res.rc, "gen": res.generated, "distinct": res.distinct, "violated": res.invariant_violated, "wall": res.wall}
            if expect == "violates":
                if not ("Invariant Correct is violated" in res.out):
                    raise C.ToolError("%s/%s: the model does not exhibit the expected counterexample "
                                      "(expected: Invariant Correct violated)\n%s" % (module, cfg, res.out[-3000:]))
                i = res.out.find("Error: Invariant Correct is violated")
                d["trace"] = res.out[i:i + 12000]
            else:
                if res.invariant_violated:
                    raise C.ToolError("model %s violates an invariant (specification error):\n%s" % (cfg, res.out[-4000:]))
                C.tlc_ok_or_raise(res, cfg)
            if expect == "cases":
                d["cases"] = res.tagged("CASE")
            r[c] = d
        return r
    files = ["LazyConv", "MCLazyConv", "LazyConvMixed", "MCLazyConvMixed"] + [MC_MODELS[c][1] for c in MC_CFGS]
    return _cached("lazyconv|" + C.spec_hash(files), compute)


def replay_conv_cases(pkg, cases, tag="cases"):
    P = _paths("convcases-" + tag, 0)
    with open(P("in"), "w") as f:
        for c in cases:
            f.write(json.dumps(c) + "\n")
    _driver(pkg, "convcases", ["--in", P("in"), "--out", P("out")])
    lines = [json.loads(l) for l in _lines(P("out"))]
    os.remove(P("in"))
    os.remove(P("out"))
    if not lines or "done" not in lines[-1]:
        raise C.ToolError("convcases replay did not complete")
    return lines[:-1], lines[-1]


def check_c27(out, tier, seed, hb, pkg, key):
    shards, ntrees = SIZES[tier][0], SIZES[tier][3]
    mc = lazyconv_models()
    for c in MC_CFGS:
        out.states += mc[c]["distinct"]
        out.transitions += mc[c]["gen"]
    # the mixed-allocator universe: the code keys its memo by address, for which the model says `always right`;
    # the trees that a NodePtr-keyed memo would get wrong are kept as the aimed inputs
    mixed = mc["mixed_cases"]["cases"]
    cases = mc["cases"]["cases"] + [{"tree": c["tree"], "correct": True, "res": c["tree"], "kinds": ["mixed_d1", "mixed_similar", "stable"],
                                     "node_keyed_memo_wrong": not c["correct"]} for c in mixed]
    # spec -> impl: the model's per-tree verdict (can the conversion go wrong on fresh-children storage?)
    wrong, summary = replay_conv_cases(pkg, cases)
    out.traces += summary["done"]
    for m in wrong:
        kind = m["kind"]
        if not m["model_can_fail"] and kind in FRESH_WRAPPERS:
            # the wheel is wrong on an input for which no behaviour of the model is: the model misses a failure mode
            out.drift.append("LazyConv model says tree %s cannot be converted wrongly, the wheel (wrapper %s) did: model incomplete" % (
                _hex(m["case"]), kind))
        v = C.Violation("C27", "clvm_tree_to_lazy_node(<%s> %s) is not the source tree (enumerated case of MCLazyConv / MCLazyConvMixed; model: %s)" % (
            kind, _hex(m["observed"].get("src", m["case"])), "address reuse can corrupt the memo" if m["model_can_fail"] else "cannot go wrong"),
            {"direction": "spec->impl", "mismatch": _short(m)})
        v.signature = F1_SIG if kind in FRESH_WRAPPERS else "C27:wrapper:%s:%s" % (kind, C.sha256_str(json.dumps(m["case"], sort_keys=True))[:12])
        out.violations.append(v)

    def compute():
        return _pool(_shard_fn, [(hb, pkg, seed * 1000 + i, ntrees, i, "conv") for i in range(shards)])
    res = _cached("c27|%s|%s|%d|%s|%s" % (key, tier, seed, C.spec_hash(SPECS_FN), SIZES[tier]), compute)
    classes, wrong = {}, {}
    n = 0
    for r in res:
        _add(out, r)
        n += r["lines"]
        for k, v in r["classes"].items():
            classes[k] = classes.get(k, 0) + v
        if r["sample"]:
            out.sample({"conv": r["sample"]}, cap=3)
        for m in r["mm"]:
            e = m["event"]
            kind = e["kind"]
            wrong[kind] = wrong.get(kind, 0) + 1
            v = C.Violation("C27", "ser_2026(clvm_tree_to_lazy_node(<%s> %s)) decodes to %s (%s)" % (
                kind, _hex(e["src"])[:200], _hex(e["res"])[:200] if e.get("ok") else e.get("pyexc"), ",".join(m["fails"])),
                {"direction": "impl->spec", "fails": m["fails"], "event": _short(e)})
            v.signature = F1_SIG if kind in FRESH_WRAPPERS else "C27:wrapper:%s:%s" % (kind, C.sha256_str(json.dumps(e["src"], sort_keys=True))[:12])
            out.violations.append(v)
    out.evaluations = n + summary["done"]
    out.nontrivial = n + summary["done"]
    out.extra.update({"conv_event_classes": classes, "wrong_by_wrapper": wrong,
                      "lazyconv_models": {c: {k: mc[c][k] for k in ("gen", "distinct", "violated")} for c in MC_CFGS},
                      "lazyconv_counterexample": mc["bug"]["trace"][:6000],
                      "lazyconv_mixed_counterexample": mc["mixed_node"]["trace"][:6000],
                      "mixed_trees": len(mixed), "mixed_trees_wrong_under_nodeptr_key": sum(1 for c in mixed if not c["correct"]),
                      "enumerated_trees": summary["trees"], "enumerated_trees_model_can_fail": summary["model_can_fail"],
                      "enumerated_fresh_conversions_wrong_in_wheel": summary["wrong_fresh"]})
    out.sample({"spec_case": cases[len(cases) // 2]})
    out.rule = ("LazyConv.tla models the conversion loop over a Python heap (objects at addresses, fresh or cached children, "
                "free on last reference, any free address may be reused, memo keyed by address). MCLazyConv: all trees with <= 4 "
                "leaves over two atoms, every choice of addresses: Correct is violated for fresh children as written (counter"
                "example in lazyconv_counterexample), holds with visited objects kept alive and for cached children. Each "
                "enumerated tree is replayed into the wheel under fresh and cached wrappers (a wrong result is only allowed where "
                "the model can go wrong). Generated trees are wrapped in every CLVMStorage kind (Program built/cast/parsed/"
                "from_bytes, CLVMTree, stable / shared-DAG storage, LazyNode from deser_legacy and deser_backrefs, a fresh-"
                "children storage, Program.to_bytes_2026, and MIXED trees: Python pairs / lists / Program / fresh-children storage whose "
                "leaves are LazyNode handles from 2..4 separate deser_legacy / deser_backrefs / deser_2026 calls on same-shaped "
                "blobs, the same blob twice, LazyNodes next to CLVMTree / Program / fresh storage - LazyConvMixed.tla shows that a "
                "memo keyed by NodePtr without the allocator conflates them, while the address key of the code does not); TracePy decodes the recorded blob with Ser2026 and compares with the "
                "source. All cases are non-trivial.")
    out.assumptions = ["the model abstracts CPython's allocator to `any free address`; a wrong result in the wheel needs an actual reuse"]


# ---------------------------------------------------------------------------
# C28

def first_refused_item_is_fe(blob):
    """Class predicate of F3, computed from the input alone: walking the items of the serialization the way the
    classic decoders do, the first item the Rust decoder refuses starts with 0xfe (a 7-byte length prefix)."""
    pos, need = 0, 1
    n = len(blob)
    while need > 0:
        if pos >= n:
            return False
        b = blob[pos]
        if b == 0xFF:
            need += 1
            pos += 1
            continue
        if b == 0xFE:
            return True
        if b <= 0x7F or b == 0x80:
            pos += 1
        else:
            k = 0
            while b & (0x80 >> k):
                k += 1
            if pos + k > n or k > 6:
                return False
            size = b & (0xFF >> k)
            for x in blob[pos + 1:pos + k]:
                size = (size << 8) | x
            if size >= 0x400000000 or pos + k + size > n:
                return False
            pos += k + size
        need -= 1
    return False


C28_DECODER_NAMES = ("parse", "stream", "tuples_py", "tuples_rs", "clvmtree_py", "clvmtree_rs")


def check_c28(out, tier, seed, hb, pkg, key):
    shards, npure, ncurry = SIZES[tier][0], SIZES[tier][4], SIZES[tier][5]

    def compute():
        pure = _pool(_shard_fn, [(hb, pkg, seed * 1000 + i, npure, i, "pure") for i in range(shards)])
        cur = _pool(_shard_fn, [(hb, pkg, seed * 1000 + i, ncurry, 100 + i, "curry") for i in range(max(2, shards // 2))])
        return {"pure": pure, "curry": cur}
    res = _cached("c28|%s|%s|%d|%s|%s" % (key, tier, seed, C.spec_hash(SPECS_RUN + SPECS_FN), SIZES[tier]), compute)
    classes, drift, f3 = {}, {}, 0
    n = nruns = abst = 0
    for r in res["pure"] + res["curry"]:
        _add(out, r)
        n += r["lines"]
        for k, v in r["classes"].items():
            classes[k] = classes.get(k, 0) + v
        if r["sample"]:
            out.sample({"event": r["sample"]}, cap=4)
        for m in r["mm"]:
            e = m["event"]
            viol = [f for f in m["fails"] if not f.startswith("spec:") and not f.startswith("used:") and f != "rust:panic"]
            for f in m["fails"]:
                if f not in viol:
                    drift[f] = drift.get(f, 0) + 1
                    if drift[f] <= 3:
                        out.drift.append("%s %s (Rust vs specification / consumed length: not a clause of C28) %s" % (
                            e["ev"], f, json.dumps(_short({k: v for k, v in e.items() if k in ("blob", "tree", "bytes", "neg", "mag")}))[:300]))
            if not viol:
                continue
            if e["ev"] == "pydeser":
                blob = e["blob"]
                py_accepts = all(e["py"][f.split(":", 1)[1]].get("ok") for f in viol if f.startswith("accept:"))
                only_accept = all(f.startswith("accept:") for f in viol)
                rust_rejects = e["rust"].get("ok") is False and e["rust_triples"].get("ok") is False
                v = C.Violation("C28", "Python stream decoders vs Rust classic decoder on %s: %s" % (bytes(blob[:80]).hex(), ",".join(viol)),
                                {"fails": m["fails"], "event": _short(e)})
                if only_accept and py_accepts and rust_rejects and first_refused_item_is_fe(blob):
                    v.signature = F3_SIG
                    f3 += 1
                else:
                    v.signature = "C28:pydeser:%s:%s" % (viol[0], C.sha256_str(json.dumps(blob))[:12])
            else:
                inp = {k: v for k, v in e.items() if k in ("tree", "m", "args", "neg", "mag", "bytes", "dir")}
                v = C.Violation("C28", "%s: %s on %s" % (e["ev"], ",".join(viol), json.dumps(_short(inp))[:300]),
                                {"fails": m["fails"], "event": _short(e)})
                v.signature = "C28:%s:%s:%s" % (e["ev"], viol[0], C.sha256_str(json.dumps(inp, sort_keys=True))[:12])
            out.violations.append(v)
        if "runs" in r:
            rr = r["runs"]
            _add(out, rr)
            nruns += rr["cnt"]["ends"]
            abst += rr["cnt"]["abstained"]
            for m in rr["mm"]:
                if m["kind"] == "rel:curry_same":
                    v = C.Violation("C28", "running the curried program differs from running the module on args ++ env: %s input %s" % (
                        json.dumps(m["detail"])[:400], json.dumps(m.get("input"))[:300]), {"mismatch": _short(m)})
                    v.signature = "C28:curry_same:%s" % C.sha256_str(json.dumps(m.get("input"), sort_keys=True))[:12]
                    out.violations.append(v)
                else:
                    drift[m["kind"]] = drift.get(m["kind"], 0) + 1
                    if drift[m["kind"]] <= 3:
                        out.drift.append("curry run %s (not a clause of C28) case=%s %s" % (m["kind"], m["case"], json.dumps(m["detail"])[:300]))
    out.evaluations = n + nruns
    out.nontrivial = n + nruns - abst
    out.extra.update({"event_classes": classes, "drift_counts": drift, "f3_class_violations": f3, "curry_runs": nruns, "abstained": abst})
    out.rule = ("trees: sexp_to_bytes / bytes(Program) / Program.stream / CLVMTree bytes / tree_hash against Rust node_to_bytes and "
                "SerClassic!Encode, TreeHash; byte strings (valid, wider length prefixes incl. the 7-byte class, truncated, mutated, "
                "back-reference serializations, random): Program.parse / sexp_from_stream / deserialize_as_tuples (pure and Rust-"
                "backed) / CLVMTree.from_bytes against Rust node_from_stream / parse_triples and the SerClassic decoder (accept set, "
                "tree, triples, hashes); integers around every 8-bit boundary: int_to_bytes / int_from_bytes against Allocator::"
                "new_number / number_from_u8 and BigInt ZToAtom / ZFromAtom; modules x argument lists: curry tree, curry_hash = "
                "TreeHash of the curried tree, uncurry inverts curry (also after a serialization round trip, and on non-curried "
                "trees), and two Python runs (curried program on env; module on args ++ env) each re-executed by the Interp machine "
                "with the relation same success and same result. All cases non-trivial except abstained runs.")
    out.assumptions = ["`used` (bytes consumed by the stream decoder) is compared as a diagnostic only"]


# ---------------------------------------------------------------------------

def check(prop, tier, seed):
    out = C.Outcome(prop)
    hb, pkg, key = _setup()
    {"C26": check_c26, "C27": check_c27, "C28": check_c28}[prop](out, tier, seed, hb, pkg, key)
    return out


def replay(rp):
    o = check(rp["property"], rp.get("tier", "quick"), rp.get("seed", 1))
    sig = rp.get("signature")
    return not [v for v in o.violations if sig is None or v.signature == sig]


# ---------------------------------------------------------------------------
# binding demonstration

def selftest():
    """(a) corrupt one recorded field of each trace kind: TLC must report a MISMATCH of the expected kind;
       (b) corrupt the expected field of MCLazyConv CASEs: the replay into the wheel must report a mismatch."""
    hb, pkg, key = _setup()
    os.makedirs(WORK, exist_ok=True)
    P = _paths("selftest", 0)
    report = []

    def tlc(module, events):
        with open(P("t"), "w") as f:
            for e in events:
                f.write(json.dumps(e) + "\n")
        res, done, n = _tlc_trace(module, P("t"), "selftest-" + module)
        os.remove(P("t"))
        return res.tagged("MISMATCH")

    def expect(name, mm, pred):
        ok = any(pred(m) for m in mm)
        report.append((name, ok, [m.get("kind", m.get("fails")) for m in mm][:4]))

    # runs
    C.run([hb, "gen-run", "--seed", "7", "--n", "25", "--out", P("c")])
    C.run([hb, "run-cases", "--in", P("c"), "--out", P("r")])
    _driver(pkg, "runs", ["--in", P("r"), "--out", P("tr")])
    ev = [json.loads(l) for l in _lines(P("tr"))]
    expect("runs: unmodified trace is clean", tlc("TracePyRun", ev) or [{"kind": "none"}], lambda m: m.get("kind") == "none")
    i = next(k for k, e in enumerate(ev) if e["ev"] == "end" and e["variant"] == "py" and e.get("ok"))
    bad = json.loads(json.dumps(ev))
    bad[i]["cost"] = C.n_le(C.le_n(bad[i]["cost"]) + 1)
    expect("runs: Python cost + 1", tlc("TracePyRun", bad), lambda m: m["kind"] == "rel:py_eq_rust" and m["line"] == i + 1)
    i = next(k for k, e in enumerate(ev) if e["ev"] == "end" and e["variant"] == "py" and not e.get("ok") and "msg" in e)
    bad = json.loads(json.dumps(ev))
    bad[i]["msg"] = bad[i]["msg"] + "!"
    expect("runs: Python error message changed", tlc("TracePyRun", bad), lambda m: m["kind"] == "rel:py_eq_rust" and m["line"] == i + 1)
    i = next(k for k, e in enumerate(ev) if e["ev"] == "begin" and any(x for x in e["flagword"][2:]) )
    bad = json.loads(json.dumps(ev))
    bad[i]["flags"] = bad[i]["flags"] + ["MALACHITE"] if "MALACHITE" not in bad[i]["flags"] else [f for f in bad[i]["flags"] if f != "MALACHITE"]
    expect("runs: recorded flag names disagree with the word's truncation", tlc("TracePyRun", bad), lambda m: m["kind"] == "input" and m["line"] == i + 1)
    i = next(k for k, e in enumerate(ev) if e["ev"] == "end" and e["variant"] == "rust" and e.get("ok"))
    bad = json.loads(json.dumps(ev))
    bad[i]["cost"] = C.n_le(C.le_n(bad[i]["cost"]) + 1)
    bad[i + 1]["cost"] = bad[i]["cost"]
    expect("runs: both costs + 1 (specification disagrees)", tlc("TracePyRun", bad), lambda m: m["kind"] == "outcome")
    # codec
    C.run([hb, "gen-codec", "--seed", "7", "--n", "12", "--out", P("c")])
    _driver(pkg, "codec", ["--in", P("c"), "--out", P("tr")])
    ev = [json.loads(l) for l in _lines(P("tr"))]
    i = next(k for k, e in enumerate(ev) if e["ev"] == "deser" and e["py"].get("ok"))
    bad = json.loads(json.dumps(ev))
    bad[i]["py"]["ser_legacy"][-1] ^= 1
    expect("codec: one byte of Python ser_legacy flipped", tlc("TracePy", bad), lambda m: "py=rust:ser_legacy" in m["fails"] and m["line"] == i + 1)
    bad = json.loads(json.dumps(ev))
    t = bad[i]["py"]["tree"]
    bad[i]["py"]["tree"] = {"f": t, "r": {"a": []}}
    expect("codec: Python tree view changed", tlc("TracePy", bad), lambda m: "py=rust:tree" in m["fails"] and m["line"] == i + 1)
    bad = json.loads(json.dumps(ev))
    bad[i]["py"]["ser_2026"][-1] ^= 1
    bad[i]["rust"]["ser_2026"][-1] ^= 1
    expect("codec: both ser_2026 outputs corrupted (specification disagrees)", tlc("TracePy", bad), lambda m: "spec:ser_2026" in m["fails"])
    # conv
    C.run([hb, "gen-trees", "--seed", "7", "--n", "6", "--out", P("c")])
    _driver(pkg, "conv", ["--in", P("c"), "--out", P("tr"), "--kinds", "program,clvmtree"])
    ev = [json.loads(l) for l in _lines(P("tr"))]
    expect("conv: unmodified stable-wrapper trace is clean", tlc("TracePy", ev) or [{"kind": "none"}], lambda m: m.get("kind") == "none")
    bad = json.loads(json.dumps(ev))
    bad[0]["res"] = {"f": bad[0]["res"], "r": {"a": [1]}}
    expect("conv: decoded result changed", tlc("TracePy", bad), lambda m: "res" in m["fails"] and m["line"] == 1)
    # pure
    with open(P("c"), "w") as f:
        for g in ("gen-trees", "gen-blobs", "gen-ints"):
            C.run([hb, g, "--seed", "7", "--n", "8", "--out", P("x")])
            f.write(open(P("x")).read())
    _driver(pkg, "pure", ["--in", P("c"), "--out", P("tr")])
    ev = [json.loads(l) for l in _lines(P("tr"))]
    bad = json.loads(json.dumps(ev))
    i = next(k for k, e in enumerate(ev) if e["ev"] == "pyser")
    bad[i]["py"]["sexp_to_bytes"][0] ^= 1
    j = next(k for k, e in enumerate(ev) if e["ev"] == "int" and e["dir"] == "to" and e["py"])
    bad[j]["py"][-1] ^= 1
    k2 = next(k for k, e in enumerate(ev) if e["ev"] == "pydeser" and e["py"]["parse"].get("ok"))
    bad[k2]["py"]["parse"]["ok"] = False
    mm = tlc("TracePy", bad)
    expect("pure: sexp_to_bytes byte flipped", mm, lambda m: m["line"] == i + 1 and "bytes:sexp_to_bytes" in m["fails"])
    expect("pure: int_to_bytes byte flipped", mm, lambda m: m["line"] == j + 1 and "int_to_bytes" in m["fails"])
    expect("pure: Program.parse acceptance flipped", mm, lambda m: m["line"] == k2 + 1 and "accept:parse" in m["fails"])
    for p in ("c", "r", "tr", "x"):
        if os.path.exists(P(p)):
            os.remove(P(p))
    # (b) CASE corruption: claim that no tree can go wrong under fresh-children storage
    mc = lazyconv_models()
    cases = mc["cases"]["cases"]
    wrong, summary = replay_conv_cases(pkg, cases, "st1")
    report.append(("convcases: every wrong conversion of the wheel is one the model predicts possible",
                   all(m["model_can_fail"] for m in wrong), [summary]))
    forged = [dict(c, correct=True) for c in cases]
    wrong2, summary2 = replay_conv_cases(pkg, forged, "st2")
    unexpected = [m for m in wrong2 if not m["model_can_fail"]]
    report.append(("convcases: expected field forged to `always correct` -> replay reports expected/observed mismatches",
                   len(unexpected) == len(wrong) and (len(wrong) > 0 or summary["wrong_fresh"] == 0), [len(unexpected), summary2]))
    ok = all(r[1] for r in report)
    for name, good, info in report:
        print("SELFTEST %-90s %s %s" % (name, "ok" if good else "FAILED", json.dumps(info)[:200]))
    return ok


if __name__ == "__main__":
    sys.exit(0 if selftest() else 1)
