"""serde engine: classic CLVM serialization (C15, C16, C29).

spec/SerClassic.tla        Encode (definition), encoder machine with LimitedWriter, decode machine
                           (node_from_stream) with its projections tree / triples / tree hash,
                           is_canonical_serialization and trusted length as machines, prefix arithmetic
spec/MCSerClassic.tla      bounded model (KIND = tree | bytes | limit | prefix): laws as invariant,
                           one CASE line per input (spec -> impl, replayed by `serde replay`)
spec/TraceSerClassic.tla   validates events recorded by `serde record` (impl -> spec)
harness/src/bin/serde.rs   replay / record
"""
import hashlib, json, os, time
from concurrent.futures import ThreadPoolExecutor
from lib import common as C

MODS = ["SerClassic", "MCSerClassic", "BigInt", "Prim"]
WORKDIR = os.path.join(C.WORK, "serde")

F2 = "C29:F2:limit-crossed-at:"
F7 = ":F7:canonical-min-5byte-prefix"      # prefixed with the property id
F8 = "C15:F8:serialized-length-atom-u32-overflow"


MEMFN = {"de.mem_stream": "node_from_stream", "de.mem_bytes": "node_from_bytes", "triples.mem": "parse_triples",
         "hash.mem": "tree_hash_from_stream", "canon.mem": "is_canonical_serialization",
         "lenb.mem_trusted": "serialized_length_from_bytes_trusted", "lenb.mem_untrusted": "serialized_length_from_bytes"}


def _is_f8_size(n):
    return (1 << 32) - 5 <= n < (1 << 32)


def _h(x):
    return hashlib.sha256(json.dumps(x, sort_keys=True).encode()).hexdigest()[:16]


# ---------------------------------------------------------------------------
# model checking + case emission (depends on the spec only -> cached by spec hash)

def _mc(kind, tier):
    """returns (path of the ndjson file with the CASE lines, meta dict)"""
    key = "mcserclassic|%s|%s|%s" % (C.spec_hash(MODS), tier, kind)
    base = C.cache_path("mc", key)
    cases, meta = base + ".cases.ndjson", base + ".meta.json"
    if os.path.exists(cases) and os.path.exists(meta):
        return cases, json.load(open(meta))
    res = C.run_tlc("MCSerClassic", workers=min(8, C.NCPU), env={"TIER": tier, "KIND": kind}, timeout=6000,
                    xmx="8g", name="MCSerClassic-" + kind)
    if res.invariant_violated:
        raise C.ToolError("SerClassic violates its own laws (kind %s):\n%s" % (kind, res.out[-3000:]))
    C.tlc_ok_or_raise(res, "MCSerClassic/" + kind)
    pre = '<<"CASE", "'
    n = 0
    tmp = cases + ".tmp%d" % os.getpid()
    with open(tmp, "w") as f:
        for ln in res.lines:
            ln = ln.strip()
            if ln.startswith(pre) and ln.endswith('">>'):
                f.write(ln[len(pre):-3].replace('\\"', '"').replace("\\\\", "\\") + "\n")
                n += 1
    if n == 0:
        raise C.ToolError("MCSerClassic/%s emitted no cases" % kind)
    findings = {}
    for fd in res.tagged("FINDING"):
        findings[json.dumps(fd, sort_keys=True)] = fd
    m = {"cases": n, "generated": res.generated, "distinct": res.distinct, "wall": round(res.wall, 1),
         "design_findings": list(findings.values())}
    os.replace(tmp, cases)
    json.dump(m, open(meta, "w"))
    return cases, m


def _caps(tier):
    # log2 of the largest buffer the harness may reserve (untouched address space) / read in full
    return (("34", "28") if tier == "thorough" else ("28", "21"))


def _replay(hb, cases_path, tier, tag):
    mm = os.path.join(WORKDIR, "replay-%s-%d.ndjson" % (tag, os.getpid()))
    cv, cf = _caps(tier)
    C.run([hb, "replay", "--in", cases_path, "--out", mm, "--cap-virtual", cv, "--cap-full", cf], timeout=3000)
    lines = [json.loads(l) for l in open(mm)]
    os.remove(mm)
    if not lines or "done" not in lines[-1]:
        raise C.ToolError("serde replay did not complete (%s)" % tag)
    return lines[:-1], lines[-1]


# ---------------------------------------------------------------------------
# trace recording + validation

def _input_of(e):
    ev = e.get("ev")
    if ev in ("ser", "len"):
        return [ev, e.get("t"), e.get("share")]
    if ev == "limit":
        return [ev, e.get("fn"), e.get("t"), e.get("share")]
    if ev in ("big",):
        return [ev, e.get("p"), e.get("have"), e.get("fill")]
    if ev == "bigser":
        return [ev, e.get("n"), e.get("fill"), e.get("via")]
    if ev == "rep":
        return [ev, e.get("shape"), e.get("n"), e.get("item"), e.get("tail")]
    return [ev, e.get("b"), e.get("th")]


def _record(hb, mix, tier, seed, n, special, tag):
    trace = os.path.join(WORKDIR, "trace-%s-%d.ndjson" % (tag, os.getpid()))
    stats = trace + ".stats"
    last = trace + ".last"
    cv, cf = _caps(tier)
    p = C.run([hb, "record", "--seed", str(seed), "--n", str(n), "--mix", mix, "--tier", tier,
               "--special", "1" if special else "0", "--out", trace, "--stats", stats, "--last", last,
               "--cap-virtual", cv, "--cap-full", cf], timeout=3000, check=False)
    if p.returncode != 0:
        # the process died (abort, stack overflow, kill): totality is part of C16 - attribute it to the input
        inp = json.load(open(last)) if os.path.exists(last) else None
        if inp is None:
            raise C.ToolError("serde record failed before any input (%d):\n%s" % (p.returncode, (p.stdout or "")[-2000:]))
        return None, {"crash": inp, "rc": p.returncode, "tail": (p.stdout or "")[-600:]}
    st = json.load(open(stats))
    os.remove(stats)
    if os.path.exists(last):
        os.remove(last)
    return trace, st


def _validate(trace, tag):
    """TLC trace validation of one shard; returns dict(res, mismatches [(m, event)], lines, cov)"""
    nlines = sum(1 for _ in open(trace))
    res = C.run_tlc("TraceSerClassic", workers=1, env={"TRACE": trace}, deque=True, timeout=6000,
                    xmx="3g", name="TraceSerClassic-" + tag)
    C.tlc_ok_or_raise(res, "TraceSerClassic/" + tag)
    done = res.tagged("TRACE-DONE")
    if not done or done[-1]["lines"] != nlines:
        raise C.ToolError("trace %s not fully consumed: %s of %d lines" % (tag, done[-1:] or "none", nlines))
    mms = res.tagged("MISMATCH")
    events = {}
    if mms:
        want = {m["line"] for m in mms}
        for i, ln in enumerate(open(trace), 1):
            if i in want:
                events[i] = json.loads(ln)
    return {"res": res, "mm": [(m, events.get(m["line"])) for m in mms], "lines": nlines, "cov": done[-1]["cov"]}


def _distinct_inputs(trace, seen):
    with open(trace) as f:
        for ln in f:
            e = json.loads(ln)
            inp = _input_of(e)
            if inp[1] in ([], None) and e.get("ev") not in ("ser", "len", "limit"):
                continue                      # the empty byte string is the trivial case
            seen.add(hashlib.sha256(json.dumps(inp, sort_keys=True).encode()).digest()[:12])


# ---------------------------------------------------------------------------
# from mismatches to violations / drift

def _is_f7_sizes(p, n):
    return len(p) == 5 and p[0] == 0xf8 and (1 << 27) <= n < (1 << 28) and \
        list(p) == [0xf8 | (n >> 32), (n >> 24) & 255, (n >> 16) & 255, (n >> 8) & 255, n & 255]


def _limit_class(expect_ok, r, same, where):
    if r == "panic":
        return "panic"
    if expect_ok:
        if r != "ok":
            return "error-though-it-fits:" + r
        return "wrong-bytes" if not same else "?"
    if r == "ok":
        return "success-though-too-long@" + where
    return "wrong-error:%s@%s" % (r, where)


def _s2i(prop, out, m):
    """one spec->impl replay mismatch {"case","what","obs"} -> violation or drift"""
    c, what, obs = m["case"], m["what"], m["obs"]
    kind = c["kind"]
    viol, drift = [], []
    for w in what:
        if w == "panic":
            viol.append(w)
        elif kind == "tree":
            (viol if (prop == "C15" and w != "hash") or (prop == "C16" and w == "hash") else drift).append(w)
        elif kind == "bytes":
            canonical = c["ok"] and c["canon"]
            if prop == "C16":
                ok = w in ("de", "triples", "hash") or (w == "canon" and c["ok"]) or w.startswith(("mem:", "crash"))
            else:
                ok = w == "reser" or (w in ("canon", "lenb", "de") and canonical)
            (viol if ok else drift).append(w)
        elif kind == "limit":
            (viol if prop == "C29" else drift).append(w)
        elif kind == "prefix":
            (viol if prop == "C15" else drift).append(w)
        elif kind == "wprefix":
            if prop == "C15":
                ok = c["canon"] or (w == "wprefix.canon" and c["ok"])
            else:
                ok = w in ("wprefix.decode", "wprefix.atom") or (w == "wprefix.canon" and c["ok"])
            (viol if ok else drift).append(w)
        else:
            viol.append(w)
    for w in drift:
        out.drift.append("spec->impl %s case %s: observable %s differs (not named by %s)" % (kind, _h(c), w, prop))
    if not viol:
        return
    if kind == "limit":
        r = obs.get("r", {})
        rr = "panic" if "panic" in r else r.get("r")
        if (not c["ok"]) and c["where"] != "atom-body" and rr == "SerializationError":
            sig = F2 + c["where"]
        else:
            same = rr == "ok" and r.get("out") == c["bytes"]
            sig = "C29:limit:classic:%s" % _limit_class(c["ok"], rr, same, c["where"])
        desc = "node_to_bytes_limit(L=%d) on %s: expected %s, observed %s (limit falls on %s of %d bytes)" % (
            c["L"], C.tree_hex(c["t"])[:80], "ok" if c["ok"] else c["err"], rr, c["where"], c["full_len"])
    elif kind == "bytes" and prop == "C16" and any(w.startswith(("mem:", "crash")) for w in viol):
        fns = sorted({w[4:] for w in viol if w.startswith("mem:")} |
                     {x.get("fn", "unknown") for k, x in obs.items() if k.startswith("crash_")})
        if any(w == "crash" for w in viol) and not any(x.get("overalloc") for k, x in obs.items() if k.startswith("crash_")):
            sig = "C16:abort:%s:%s" % ("+".join(fns), _h(c["b"]))
            desc = "the process died while %s ran on input %s" % (",".join(fns), bytes(c["b"]).hex())
        else:
            sig = "C16:overalloc:" + "+".join(fns)
            desc = "%s on the %d-byte input %s asks for more memory than the specification allows (bound %d bytes): %s" % (
                ",".join(fns), len(c["b"]), bytes(c["b"]).hex(), c.get("mb", 0),
                json.dumps({k: (v if k.startswith("mem:") else {"fn": v.get("fn"), "refused_above_1GiB": v.get("overalloc")})
                            for k, v in obs.items() if k.startswith(("mem:", "crash_"))})[:300])
    elif kind == "wprefix" and viol == ["wprefix.canon"] and c["canon"] and \
            _is_f7_sizes(c["p"], C.le_n(c["n"])) and obs["big"].get("canon") is False:
        sig = prop + F7
        desc = "is_canonical_serialization rejects the canonical serialization of a %d-byte atom (prefix %s)" % (
            C.le_n(c["n"]), bytes(c["p"]).hex())
    elif kind == "prefix" and viol == ["prefix.cache"] and _is_f8_size(C.le_n(c["n"])):
        sig = F8
        desc = "serialized_length_atom (ObjectCache serialized length) overflows u32 for an atom of %d bytes: %s" % (
            C.le_n(c["n"]), json.dumps({k: v for k, v in obs["bigser"].items() if k in ("cache", "cache_panic")}))
    else:
        key = c.get("b", c.get("t", [c.get("n"), c.get("p"), c.get("fill")]))
        sig = "%s:s2i:%s:%s:%s" % (prop, kind, "+".join(sorted(set(viol))), _h(key))
        desc = "implementation disagrees with SerClassic.tla on enumerated %s case (%s): %s" % (
            kind, ",".join(viol), json.dumps({k: v for k, v in c.items() if k in ("b", "t", "n", "p", "L")})[:200])
    v = C.Violation(prop, desc, {"direction": "spec->impl", "case": c, "what": viol, "observed": obs})
    v.signature = sig
    out.violations.append(v)


def _i2s(prop, out, m, e):
    """one MISMATCH record of TraceSerClassic (+ the recorded event) -> violation or drift"""
    ev, what, info = m["ev"], m["what"], m.get("info", {})
    if ev == "limit":
        if what == ["limit.result"]:
            if info["f2"]:
                sig = F2 + info["where"]
            else:
                same = True
                for it in (e or {}).get("res", []):
                    if it["L"] == info["L"]:
                        same = it.get("same", False)
                sig = "C29:limit:%s:%s" % (info["fn"], _limit_class(info["expect"] == "ok", info["r"], same, info["where"]))
            desc = "node_to_bytes%s_limit(L=%d): expected %s, observed %s (limit falls on %s, unlimited output %d bytes)" % (
                "_backrefs" if info["fn"] == "backrefs" else "", info["L"], info["expect"], info["r"], info["where"],
                info["full_len"])
            payload = {"fn": info["fn"], "L": info["L"], "observed": info["r"], "expected": info["expect"],
                       "where": info["where"], "t": (e or {}).get("t"), "share": (e or {}).get("share"),
                       "full": (e or {}).get("full")}
        else:
            sig = "C29:limit:%s:%s" % (info.get("fn"), "+".join(what))
            desc = "limit event: %s" % ",".join(what)
            payload = {"event": e}
        if prop != "C29":
            out.drift.append("limit mismatch seen outside C29: " + desc)
            return
        v = C.Violation(prop, desc, {"direction": "impl->spec", "mismatch": m, "replay_event": _strip(e), **payload})
        v.signature = sig
        out.violations.append(v)
        return
    by_def = info.get("by_def", False)
    dec_ok = info.get("dec_ok", False)
    viol, drift = [], []
    for w in what:
        fam = w.split(".")[0]
        if w == "panic":
            viol.append(w)
        elif ".mem" in w and prop != "C16":
            drift.append(w)
        elif prop == "C15":
            if fam in ("ser", "len", "bigser", "rep", "big"):
                ok = True
            elif fam == "reser":
                ok = w != "reser.accept"
            elif fam in ("de", "lenb"):
                ok = by_def
            elif w == "canon.definition":
                ok = by_def
            else:
                ok = False
            (viol if ok else drift).append(w)
        elif prop == "C16":
            ok = fam in ("de", "triples", "hash") or (w == "canon.definition" and dec_ok) or \
                w in ("big.de", "big.hash", "big.triples", "big.canon") or ".mem" in w or w == "crash"
            (viol if ok else drift).append(w)
        else:
            drift.append(w)
    for w in drift:
        if w == "canon.machine" and dec_ok:
            continue        # same fact as canon.definition
        out.drift.append("recorded %s event (line %d): observable %s differs from SerClassic.tla (not named by %s)" % (
            ev, m["line"], w, prop))
    if not viol:
        return
    if ev == "big" and viol == ["big.canon"] and e and e.get("canon") is False and \
            _is_f7_sizes(e["p"], C.le_n(e["have"])):
        sig = prop + F7
        desc = "is_canonical_serialization rejects the canonical serialization of a %d-byte atom (prefix %s)" % (
            C.le_n(e["have"]), bytes(e["p"]).hex())
    elif prop == "C16" and (ev == "crash" or any(".mem" in w for w in viol)):
        if ev == "crash":
            fns = [info.get("fn", "unknown")]
            over = info.get("overalloc", False)
        else:
            fns = sorted({MEMFN.get(w, w) for w in viol if ".mem" in w})
            over = True
        b = (e or {}).get("b", [])
        if over:
            sig = "C16:overalloc:" + "+".join(fns)
            mem = {k: v for k, v in (e or {}).items() if k.startswith("mem") or k == "msg"}
            desc = "%s on the %d-byte input %s asks for more memory than the specification allows (bound %s bytes): %s" % (
                ",".join(fns), len(b), bytes(b[:40]).hex(), info.get("mem_bound", "1 GiB cap"), json.dumps(mem)[:200])
        else:
            sig = "C16:abort:%s:%s" % ("+".join(fns), _h(b))
            desc = "the process died while %s ran on input %s: %s" % (",".join(fns), bytes(b[:40]).hex(), (e or {}).get("msg", "")[-160:])
    elif ev == "bigser" and viol == ["bigser.cache"] and e and _is_f8_size(C.le_n(e["n"])) and prop == "C15":
        sig = F8
        desc = "serialized_length_atom (ObjectCache serialized length) overflows u32 for an atom of %d bytes: %s" % (
            C.le_n(e["n"]), json.dumps({k: v for k, v in e.items() if k in ("cache", "cache_panic", "via")}))
    else:
        sig = "%s:i2s:%s:%s:%s" % (prop, ev, "+".join(sorted(set(viol))), _h(_input_of(e or {})))
        desc = "recorded %s call contradicts SerClassic.tla (%s): %s" % (ev, ",".join(viol), json.dumps(_strip(e))[:240])
    v = C.Violation(prop, desc, {"direction": "impl->spec", "mismatch": m, "replay_event": _strip(e)})
    v.signature = sig
    out.violations.append(v)


def _strip(e):
    if not e:
        return e
    e = dict(e)
    for k in ("b", "out"):
        if isinstance(e.get(k), list) and len(e[k]) > 20000:
            e[k] = e[k][:20000]
    return e


# ---------------------------------------------------------------------------

PLAN = {
    # prop: (MC kinds, trace mix, scenarios per shard (quick, thorough), shards (quick, thorough), special)
    "C15": (["tree", "prefix", "bytes"], "C15", (700, 2500), (4, 8), True),
    "C16": (["bytes", "prefix"], "C16", (1000, 4000), (4, 8), False),
    "C29": (["limit"], "C29", (250, 1200), (4, 8), False),
}


def check(prop, tier, seed):
    out = C.Outcome(prop)
    hb = C.build_harness("default", ["serde"])["serde"]
    os.makedirs(WORKDIR, exist_ok=True)
    kinds, mix, per, shards, special = PLAN[prop]
    per = per[0] if tier == "quick" else per[1]
    shards = shards[0] if tier == "quick" else shards[1]
    t0 = time.time()

    # 1+2. model checking of the specification, every enumerated case replayed into the library
    ncases = 0
    skipped = 0
    for kind in kinds:
        cases, meta = _mc(kind, tier)
        out.states += meta["distinct"]
        out.transitions += meta["generated"]
        mms, done = _replay(hb, cases, tier, "%s-%s" % (prop, kind))
        if done["done"] != meta["cases"]:
            raise C.ToolError("replay of %s cases incomplete: %s of %d" % (kind, done, meta["cases"]))
        ncases += meta["cases"] - done.get("skipped", 0)
        skipped += done.get("skipped", 0)
        for m in mms:
            _s2i(prop, out, m)
        out.extra["mc_%s" % kind] = {"cases": meta["cases"], "states": meta["distinct"], "tlc_wall_s": meta["wall"],
                                     "replay_mismatches": len(mms), "replay_skipped_too_large": done.get("skipped", 0)}
        if meta.get("design_findings"):
            out.extra["design_level_findings"] = meta["design_findings"][:6]
        with open(cases) as f:
            first = f.readline()
            out.sample({"spec_case": json.loads(first)})
    out.traces += ncases
    C.log("serde %s: %d cases replayed in %.1fs" % (prop, ncases, time.time() - t0))

    # 3. impl -> spec: recorded calls validated by TraceSerClassic (shards in parallel)
    jobs = []
    hwm = 0
    for s in range(shards):
        trace, st = _record(hb, mix, tier, seed * 1000 + s, per, special and s == 0, "%s-%d" % (prop, s))
        if trace is None:
            v = C.Violation(prop, "the recorder process died (rc %d) while running the library on %s" % (
                st["rc"], json.dumps(st["crash"])[:300]), {"direction": "impl->spec", "crash_input": st["crash"], "output": st["tail"]})
            v.signature = "%s:abort:%s" % (prop, _h(st["crash"]))
            out.violations.append(v)
            continue
        hwm = max(hwm, st["hwm_kb"])
        jobs.append((trace, "%s-%d" % (prop, s)))
    seen = set()
    cov = {}
    with ThreadPoolExecutor(max_workers=min(len(jobs), max(2, C.NCPU // 2))) as ex:
        results = list(ex.map(lambda j: _validate(*j), jobs))
    for (trace, tag), r in zip(jobs, results):
        out.add_tlc(r["res"])
        out.traces += r["lines"]
        for k, v in r["cov"].items():
            cov[k] = cov.get(k, 0) + v
        for m, e in r["mm"]:
            _i2s(prop, out, m, e)
        _distinct_inputs(trace, seen)
        if tag.endswith("-0"):
            with open(trace) as f:
                for i, ln in enumerate(f):
                    if i in (0, 7):
                        e = json.loads(ln)
                        out.sample({"trace_event": _strip(e) if len(ln) < 3000 else {"ev": e["ev"], "bytes": len(ln)}})
        os.remove(trace)
    out.extra["trace_coverage"] = {k: v for k, v in cov.items() if v}
    out.extra["abstained"] = cov.get("abstain:lenb-backref", 0) + skipped
    out.extra["record_peak_rss_kb"] = hwm
    # totality / over-allocation (C16): the recorder's peak RSS stays small although inputs announce up to 2^34 bytes
    rss_cap = (3 << 20) if tier == "thorough" else (512 << 10)
    if hwm > rss_cap:
        v = C.Violation(prop, "recorder peak RSS %d kB: a decoder over-allocated" % hwm, {"hwm_kb": hwm})
        v.signature = "%s:over-allocation" % prop
        out.violations.append(v)

    # coverage sanity: every class the property talks about was exercised
    need = {"C15": ["ser", "len", "de", "canon", "reser", "big", "bigser", "rep"],
            "C16": ["de:ok", "de:err", "de:fe", "triples", "hash", "canon:true", "canon:false", "lenb"],
            "C29": ["limit@cons-marker", "limit@atom-prefix", "limit@atom-body", "limit@backref-marker", "limit@fits"]}[prop]
    missing = [k for k in need if not cov.get(k)]
    if missing:
        raise C.ToolError("trace did not exercise: %s" % missing)

    out.evaluations = out.traces + cov.get("machine-steps", 0)
    out.nontrivial = ncases + len(seen)
    out.rule = ("spec->impl: every state of the bounded TLC model is one input (distinct by construction: trees <= 7 nodes over the "
                "atom-length alphabet, byte strings <= 5 bytes over a prefix-class alphabet plus long-prefix strings, trees x every "
                "limit, sizes at every prefix-class boundary up to 2^34) and is replayed into the library; impl->spec: distinct "
                "recorded calls counted by (event kind, input) hash, the empty byte string excluded as trivial.")
    out.assumptions = [
        "SHA-256 via the Prim override (JDK MessageDigest)",
        "serialized_length_from_bytes (validating) is specified as a projection of the decode machine on inputs without a 0xfe "
        "in operator position; with one the specification abstains (SerBackrefs.tla owns it)",
        "atoms above 1 MiB are validated through summaries (prefix bytes, total length, body identity) decided by the BigInt "
        "prefix arithmetic; %s" % ("sizes up to 2^34 through write_atom into a counting sink" if tier == "thorough"
                                   else "quick tier reserves at most 2^28 bytes, 2^32/2^34 boundaries only at design level (TLC) "
                                        "and in the thorough tier"),
        "deep lists (10^3..10^5 items) are validated through length + SHA-256 of the output against a closed form whose agreement "
        "with Encode is re-checked for n <= 3 on every such event",
        "back-reference serializer: only the relation limited result = unlimited result if it fits else OutOfMemory",
    ]
    out.exhaustive = False
    return out


def replay(rp):
    """re-run the failing input of a replay file; True = passes now"""
    hb = C.build_harness("default", ["serde"])["serde"]
    os.makedirs(WORKDIR, exist_ok=True)
    case = rp["case"]
    prop = rp["property"]
    tier = rp.get("tier", "quick")
    o = C.Outcome(prop)
    if case.get("direction") == "spec->impl":
        p = os.path.join(WORKDIR, "rp-%d.ndjson" % os.getpid())
        with open(p, "w") as f:
            f.write(json.dumps(case["case"]) + "\n")
        mms, _ = _replay(hb, p, "thorough" if tier == "thorough" else "quick", "rp")
        os.remove(p)
        for m in mms:
            _s2i(prop, o, m)
    elif case.get("replay_event"):
        src = os.path.join(WORKDIR, "rp-src-%d.ndjson" % os.getpid())
        with open(src, "w") as f:
            f.write(json.dumps(case["replay_event"]) + "\n")
        trace = os.path.join(WORKDIR, "rp-trace-%d.ndjson" % os.getpid())
        cv, cf = _caps(tier)
        C.run([hb, "record", "--from", src, "--out", trace, "--cap-virtual", cv, "--cap-full", cf], timeout=3000)
        r = _validate(trace, "rp")
        for m, e in r["mm"]:
            _i2s(prop, o, m, e)
        os.remove(src)
        os.remove(trace)
    else:
        o = check(prop, "quick", rp.get("seed", 1))
    sig = rp.get("signature")
    return not [v for v in o.violations if sig is None or v.signature == sig]


def selftest():
    """binding demonstration: (a) a corrupted recorded field must give a MISMATCH; (b) a corrupted expected field of a
    CASE must give a replay mismatch.  Returns a dict of findings (all values must be True)."""
    hb = C.build_harness("default", ["serde"])["serde"]
    os.makedirs(WORKDIR, exist_ok=True)
    res = {}
    # (a) impl -> spec
    for mix in ("C15", "C16", "C29"):
        trace, _ = _record(hb, mix, "quick", 7, 40, False, "self-" + mix)
        evs = [json.loads(l) for l in open(trace)]
        base = _validate(trace, "self-" + mix)
        res["a_%s_clean_trace_only_known" % mix] = all(
            (m["ev"] == "limit" and m["info"].get("f2")) for m, _ in base["mm"])
        done = set()
        corrupted = []
        for i, e in enumerate(evs):
            ev = e["ev"]
            if ev == "canon" and "canon" in done and "canon#mem" not in done and mix == "C16":
                # the recorded allocation figures are checked too
                e2 = json.loads(json.dumps(e))
                e2["mem"]["req"] = 1 << 29
                evs[i] = e2
                done.add("canon#mem")
                corrupted.append((i + 1, "canon_mem"))
                continue
            if ev in done:
                continue
            e2 = json.loads(json.dumps(e))
            if ev == "ser" and e2.get("out"):
                e2["out"][-1] ^= 1
            elif ev == "len":
                e2["cache"] += 1
            elif ev == "de" and e2["s"]["ok"]:
                e2["s"]["used"] += 1
            elif ev == "triples" and e2.get("ok") and e2["tr"]:
                e2["tr"][-1]["e"] += 1
            elif ev == "hash" and e2.get("ok"):
                e2["h"][0] ^= 1
            elif ev == "canon":
                e2["v"] = not e2["v"]
            elif ev == "lenb" and e2["trusted"]["ok"]:
                e2["trusted"]["v"] += 1
            elif ev == "reser" and e2.get("ok") and e2.get("out"):
                e2["out"][0] ^= 2
            elif ev == "limit" and len(e2["res"]) > 2:
                # the largest limit succeeds: pretend it ran out of memory
                e2["res"][-1]["r"] = "OutOfMemory"
                e2["res"][-1]["same"] = False
            else:
                continue
            done.add(ev)
            corrupted.append((i + 1, ev))
            evs[i] = e2
        with open(trace, "w") as f:
            for e in evs:
                f.write(json.dumps(e) + "\n")
        r = _validate(trace, "self2-" + mix)
        hit = {m["line"] for m, _ in r["mm"] if not (m["ev"] == "limit" and m["info"].get("f2"))}
        for line, ev in corrupted:
            res["a_%s_corrupted_%s_detected" % (mix, ev)] = line in hit
        os.remove(trace)
    # (b) spec -> impl
    for kind, field in (("tree", "bytes"), ("bytes", "used"), ("limit", "ok"), ("prefix", "prefix")):
        cases, _ = _mc(kind, "quick")
        picked = None
        with open(cases) as f:
            for ln in f:
                c = json.loads(ln)
                if kind == "tree" and len(c["bytes"]) > 3:
                    c["bytes"][-1] ^= 1
                elif kind == "bytes" and c["ok"] and c["used"] > 1:
                    c["used"] -= 1
                elif kind == "limit" and c["ok"]:
                    c["ok"] = False
                    c["err"] = "OutOfMemory"
                elif kind == "prefix" and c["kind"] == "prefix" and c["ok"] and len(c["prefix"]) >= 2:
                    c["prefix"][1] ^= 1
                else:
                    continue
                picked = c
                break
        p = os.path.join(WORKDIR, "self-case-%d.ndjson" % os.getpid())
        with open(p, "w") as f:
            f.write(json.dumps(picked) + "\n")
        mms, _ = _replay(hb, p, "quick", "self")
        os.remove(p)
        res["b_corrupted_%s_case_detected" % kind] = len(mms) == 1
    return res
