"""C17 / C18: CLVM serialization with back-references.

spec/SerBackrefs.tla     vec-stack decoder, legacy list-stack decoder, shadow-tree length probe (machines),
                         declarative DecodeBR, canonical predicate, serializer relation SerRel + the code's
                         choice SerCode
spec/MCSerBackrefs.tla   bounded model: three machines in lockstep over all item-attempt byte strings
                         (MODE=bytes) / over every output SerRel allows for every small tree (MODE=trees);
                         emits CASE lines that the harness replays into the implementation
spec/TraceSerBackrefs.tla  trace validation of recorded ser_br / reser / de_br events
harness/src/bin/serdebr.rs replay | record | observe

Verdict policy: a label is a *violation* only if the property names the observable; disagreement with
the specification on things the property does not name (exact bytes, emission rule, pair count value
when both decoders agree, ...) is drift."""
import collections, hashlib, json, os
from concurrent.futures import ThreadPoolExecutor
from lib import common as C

SPECS = ["SerBackrefs", "MCSerBackrefs", "BigInt"]
TRACE_SPECS = ["SerBackrefs", "TraceSerBackrefs", "BigInt"]

# labels that are property-level, with their meaning
PROP_LABELS = {
    "C17": {
        "panic": "a serializer / decoder call panicked",
        "rt_impl": "node_from_bytes_backrefs(node_to_bytes_backrefs(t)) is not t",
        "rt_spec": "the output does not denote t (specification decoder) or leaves input unconsumed",
        "canon_impl": "is_canonical_serialization rejects the output",
        "canon_spec": "the output is not canonical (minimal prefixes, fully consumed)",
        "grow_impl": "the output is longer than node_to_bytes(t)",
        "grow_spec": "the output is longer than the classic serialization",
        "run2": "two runs on the same allocator gave different bytes",
        "run3": "a run on an allocator that shares equal sub-trees gave different bytes",
        "reser": "ser(de(ser t)) differs from ser t",
        "reser_de": "the decoder rejected the serializer's output",
    },
    "C18": {
        "panic": "a decoder / the probe panicked",
        "accept": "current and legacy decoder disagree on accept/reject",
        "tree": "current and legacy decoder return different trees",
        "pc": "current and legacy decoder leave different Allocator::pair_count",
        "probe_ok": "serialized_length_from_bytes succeeds on a different set than the decoder",
        "probe_len": "serialized_length_from_bytes does not report the number of bytes the decoder consumed",
    },
}


def _digest(obj):
    return hashlib.sha256(json.dumps(obj, sort_keys=True, separators=(",", ":")).encode()).hexdigest()[:20]


def _hex(b):
    return bytes(b).hex()


def _sig(prop, labels, inp):
    lab = "+".join(sorted(labels))
    if "b" in inp:
        h = _hex(inp["b"])
        return "%s:%s:b=%s" % (prop, lab, h if len(h) <= 80 else _digest(inp["b"]))
    return "%s:%s:t=%s" % (prop, lab, _digest(inp["t"]))


# ---------------------------------------------------------------------------
# model checking + case emission (cached: depends on the specification only)

def _mc(mode, tier):
    key = "mcserbackrefs|%s|%s|%s" % (C.spec_hash(SPECS), mode, tier)
    base = C.cache_path("mc", key)
    meta_p, cases_p = base + ".meta", base + ".cases"
    if os.path.exists(meta_p) and os.path.exists(cases_p):
        return json.load(open(meta_p)), cases_p
    res = C.run_tlc("MCSerBackrefs", workers=min(8, C.NCPU), env={"MODE": mode, "TIER": tier}, timeout=6000, xmx="6g",
                    name="MCSerBackrefs-" + mode)
    if res.invariant_violated:
        raise C.ToolError("SerBackrefs.tla violates its own design-level laws (%s):\n%s" % (mode, res.out[-4000:]))
    C.tlc_ok_or_raise(res, "MCSerBackrefs/" + mode)
    n = 0
    cls = collections.Counter()
    pre = '<<"CASE", "'
    tmp = cases_p + ".tmp%d" % os.getpid()
    with open(tmp, "w") as f:
        for ln in res.lines:
            ln = ln.strip()
            if not (ln.startswith(pre) and ln.endswith('">>')):
                continue
            body = ln[len(pre):-3].replace('\\"', '"').replace("\\\\", "\\")
            c = json.loads(body)
            f.write(json.dumps(c, separators=(",", ":")) + "\n")
            n += 1
            if c["kind"] == "bytes":
                cls["accepted" if c["ok"] else "rejected:" + c["err"]] += 1
                if c["ok"] and c["brs"] > 0:
                    cls["accepted with back-reference"] += 1
                if c["mat"] > 0:
                    cls["stack list materialised (ghost -> real pairs)"] += 1
                if c["reuse"] > 0:
                    cls["cached stack list reused"] += 1
                if c["ok"] and c["used"] < len(c["b"]):
                    cls["trailing bytes not consumed"] += 1
                if c["canon"]:
                    cls["canonical"] += 1
            else:
                cls["trees"] += 1
                if c["nrel"] > 1:
                    cls["trees with a back-reference choice"] += 1
                if len(c["code"]) < c["classic"]:
                    cls["trees the code compresses"] += 1
    if n == 0:
        raise C.ToolError("MCSerBackrefs emitted no cases:\n" + res.out[-3000:])
    os.replace(tmp, cases_p)
    meta = {"cases": n, "generated": res.generated, "distinct": res.distinct, "wall": round(res.wall, 1), "classes": dict(cls)}
    json.dump(meta, open(meta_p, "w"))
    return meta, cases_p


def _classify(prop, labels):
    prop_l = [x for x in labels if x in PROP_LABELS[prop]]
    drift_l = [x for x in labels if x not in PROP_LABELS[prop]]
    return prop_l, drift_l


def _replay_cases(prop, hb, cases_p, kinds, out, work):
    """spec -> impl.  Returns number of cases replayed."""
    sel = os.path.join(work, "cases-%s-%d.ndjson" % (prop, os.getpid()))
    n = 0
    with open(sel, "w") as f:
        for ln in open(cases_p):
            if ('"kind":"bytes"' in ln and "bytes" in kinds) or ('"kind":"tree"' in ln and "tree" in kinds):
                f.write(ln)
                n += 1
    mm = os.path.join(work, "replay-%s-%d.ndjson" % (prop, os.getpid()))
    C.run([hb, "replay", "--in", sel, "--out", mm], timeout=3600)
    lines = [json.loads(l) for l in open(mm)]
    os.remove(sel)
    os.remove(mm)
    if not lines or lines[-1].get("done") != n:
        raise C.ToolError("serdebr replay did not complete (%s of %d)" % (lines[-1:] if lines else None, n))
    for m in lines[:-1]:
        c = m["case"]
        inp = {"b": c["b"]} if c["kind"] == "bytes" else {"t": c["t"]}
        pl, dl = _classify(prop, m["fails"])
        what = _hex(c["b"]) if "b" in inp else C.tree_hex(c["t"])[:200]
        if pl:
            v = C.Violation(prop, "%s [spec->impl, input %s]" % ("; ".join(PROP_LABELS[prop][x] for x in pl), what[:200]),
                            {"direction": "spec->impl", "input": inp, "case": c, "fails": m["fails"], "observed": m["observed"]})
            v.signature = _sig(prop, pl, inp)
            out.violations.append(v)
        if dl and (prop == "C18" or c["kind"] == "tree"):
            out.drift.append("spec->impl %s on %s: %s" % (",".join(dl), what[:120], json.dumps(m["observed"])[:200]))
    return n


# ---------------------------------------------------------------------------
# impl -> spec

def _trace_shard(args):
    hb, work, what, seed, n, big, s = args
    trace = os.path.join(work, "trace-%s-%d-%d.ndjson" % (what, os.getpid(), s))
    C.run([hb, "record", "--seed", str(seed), "--n", str(n), "--what", what, "--big", str(big), "--out", trace], timeout=1800)
    res = C.run_tlc("TraceSerBackrefs", workers=1, env={"TRACE": trace}, deque=True, timeout=5400, xmx="3g",
                    name="TraceSerBackrefs-%s-%d" % (what, s))
    return trace, res


def _validate_trace(prop, trace, res, out, stats, seen):
    C.tlc_ok_or_raise(res, "TraceSerBackrefs")
    events = [json.loads(l) for l in open(trace)]
    done = res.tagged("TRACE-DONE")
    if not done or done[-1]["lines"] != len(events):
        raise C.ToolError("trace not fully consumed: %s of %d\n%s" % (done, len(events), res.out[-2000:]))
    out.add_tlc(res)
    out.traces += len(events)
    stats["machine steps re-executed"] += done[-1]["steps"]
    for e in events:
        stats["%s/%s" % (e["ev"], e.get("gen", "-"))] += 1
        if e["ev"] == "de_br":
            ok = e["cur"].get("ok") is True
            stats["de_br accepted" if ok else "de_br rejected"] += 1
            if 254 in e["b"]:
                seen.add("b" + _digest(e["b"]))
        elif e["ev"] == "ser_br" and "out" in e:
            if len(e["out"]) < e["classic"]:
                stats["ser_br compressed"] += 1
                seen.add("t" + _digest(e["t"]))
            else:
                stats["ser_br not compressed"] += 1
    for m in res.tagged("MISMATCH"):
        e = events[m["line"] - 1]
        if e["ev"] == "de_br":
            inp = {"b": e["b"]}
        elif e["ev"] == "ser_br":
            inp = {"t": e["t"]}
        else:
            # reser follows the ser_br event of the same tree
            inp = {"t": events[m["line"] - 2]["t"]}
        pl, dl = _classify(prop, m["fails"])
        what = _hex(inp["b"])[:200] if "b" in inp else "tree %s (%s)" % (_digest(inp["t"]), e.get("gen"))
        if pl:
            ev_small = e if len(json.dumps(e)) < 20000 else {k: v for k, v in e.items() if k not in ("t",)}
            v = C.Violation(prop, "%s [impl->spec, %s, input %s]" % ("; ".join(PROP_LABELS[prop][x] for x in pl), e.get("gen", e["ev"]), what),
                            {"direction": "impl->spec", "input": inp, "fails": m["fails"], "spec": m["spec"], "event": ev_small})
            v.signature = _sig(prop, pl, inp)
            out.violations.append(v)
        if dl:
            out.drift.append("impl->spec %s on %s: spec=%s" % (",".join(dl), what[:120], json.dumps(m["spec"])[:200]))


def check(prop, tier, seed):
    out = C.Outcome(prop)
    hb = C.build_harness("default", ["serdebr"])["serdebr"]
    work = os.path.join(C.WORK, "serdebr")
    os.makedirs(work, exist_ok=True)
    C.ensure_prim()
    seen = set()

    # 1. design level: model checking + case emission
    modes = ["trees"] if prop == "C17" else ["bytes", "trees"]
    replayed = 0
    for mode in modes:
        meta, cases_p = _mc(mode, tier)
        out.states += meta["distinct"]
        out.transitions += meta["generated"]
        out.extra["mc_%s" % mode] = {k: meta[k] for k in ("cases", "distinct", "generated", "wall", "classes")}
        # 2. spec -> impl
        if prop == "C17":
            # the tree cases (serializer) and, as decoder inputs, every output the relation allows
            replayed += _replay_cases(prop, hb, cases_p, {"tree"}, out, work)
        else:
            replayed += _replay_cases(prop, hb, cases_p, {"bytes"}, out, work)
        for i, ln in enumerate(open(cases_p)):
            c = json.loads(ln)
            if c["kind"] == "bytes" and prop == "C18" and (c["brs"] > 0 or c["err"] == "bad"):
                seen.add("b" + _digest(c["b"]))
                if c["mat"] > 0 and c["ok"] and len(c["b"]) >= 7:
                    out.sample({"spec_case": c}, cap=2)
            if c["kind"] == "tree" and prop == "C17" and c["nrel"] > 1:
                seen.add("t" + _digest(c["t"]))
                if c["nrel"] > 2:
                    out.sample({"spec_case": c}, cap=2)
    out.traces += replayed
    out.extra["cases_replayed"] = replayed

    # 3. impl -> spec
    what = "ser" if prop == "C17" else "de"
    if tier == "quick":
        shards, per, big = 4, (500 if prop == "C17" else 700), 1
    else:
        shards, per, big = 20, (1200 if prop == "C17" else 2000), 3
    stats = collections.Counter()
    jobs = [(hb, work, what, seed * 1000 + s, per, big if s % 3 == 2 else 1, s) for s in range(shards)]
    with ThreadPoolExecutor(max_workers=min(4 if tier == "quick" else 6, shards)) as ex:
        results = list(ex.map(_trace_shard, jobs))
    for i, (trace, res) in enumerate(results):
        _validate_trace(prop, trace, res, out, stats, seen)
        if i == 0:
            with open(trace) as f:
                for ln in f:
                    e = json.loads(ln)
                    if len(ln) < 2500 and ((e["ev"] == "ser_br" and len(e.get("out", [])) < e.get("classic", 0))
                                           or (e["ev"] == "de_br" and e["cur"].get("ok") and 254 in e["b"])):
                        out.sample({"trace_event": e}, cap=4)
                        break
        os.remove(trace)
    out.extra["trace_classes"] = dict(stats)
    out.evaluations = out.traces
    out.nontrivial = len(seen)
    if prop == "C17":
        out.rule = ("Design level: TLC runs the decoder machines on every output the serializer relation SerRel allows for every "
                    "tree of the universe (all trees <= 7 (thorough 9) nodes over 4 atoms + spine/list families at the path-length "
                    "boundaries); invariants: decodes to the tree, canonical, not longer than classic, emission rule, SerCode in SerRel. "
                    "Each tree CASE (tree, the code's exact bytes, classic length) is replayed into node_to_bytes_backrefs. "
                    "Traces: generated trees (heavy sharing, repeated lists, spines, doubling, far repeats at the prefix boundaries, "
                    "boundary atom sizes); each output is re-executed by the specification's vec-stack machine. "
                    "distinct_nontrivial = distinct trees (by content) for which a back-reference is possible (MC: |SerRel| > 1) or "
                    "was emitted (trace: output shorter than classic).")
        out.assumptions = ["the sha256 tree hash is injective (the specification's ReadCacheLookup is keyed by trees)",
                           "atoms inside TLC stay below 2^31 bytes; prefixes >= 5 bytes are covered only for decoding",
                           "exact output bytes and the emission rule are conformance diagnostics (drift), not verdicts"]
    else:
        out.rule = ("Design level: TLC runs vec-stack decoder, legacy list-stack decoder and length probe in lockstep (one state per loop "
                    "iteration) on every item-attempt byte string <= 8 (thorough 9) bytes over position-class alphabets "
                    "(markers, nil, small atoms, prefixed atoms; paths 0..7, empty, leading zeros, non-minimal prefix, 0xfe/0xff) and on "
                    "every serializer-relation output; invariants: step-wise refinement incl. ghost-pair parity, same accept set / tree / "
                    "pair count / consumed = declarative DecodeBR, probe length = consumed.  Every CASE is replayed into both decoders, "
                    "the probe and is_canonical_serialization.  Traces: valid back-reference serializations, with one mutated path "
                    "(leading zeros, empty, zero, deeper/into atom, past the end, neighbour, long prefix), flipped/set/dropped bytes, "
                    "truncated, junk, grammar-directed and random bytes; re-executed by the three machines. "
                    "distinct_nontrivial = distinct byte strings that contain a back-reference (MC: one was resolved or failed to "
                    "resolve; trace: the string contains 0xfe).")
        out.assumptions = ["'bytes consumed by the decoder' is observed through prefixes: the decoder accepts b[..len] with the same tree and rejects b[..len-1]",
                           "pair_count is compared between the two decoders in every case (also rejected inputs); its value against the specification is a diagnostic",
                           "allocator limits (62.5M pairs) are not reached by any input"]
    out.exhaustive = False
    return out


# ---------------------------------------------------------------------------

def _observe_and_validate(prop, inp):
    """re-run one input in isolation: True if no property-level label fails"""
    hb = C.build_harness("default", ["serdebr"])["serdebr"]
    work = os.path.join(C.WORK, "serdebr")
    os.makedirs(work, exist_ok=True)
    src = os.path.join(work, "one-%d.ndjson" % os.getpid())
    trace = os.path.join(work, "one-trace-%d.ndjson" % os.getpid())
    with open(src, "w") as f:
        f.write(json.dumps({k: v for k, v in inp.items() if k in ("b", "t")}) + "\n")
    C.run([hb, "observe", "--in", src, "--out", trace], timeout=600)
    res = C.run_tlc("TraceSerBackrefs", workers=1, env={"TRACE": trace}, deque=True, timeout=1800, name="TraceSerBackrefs-one")
    C.tlc_ok_or_raise(res, "TraceSerBackrefs")
    n = sum(1 for _ in open(trace))
    done = res.tagged("TRACE-DONE")
    if not done or done[-1]["lines"] != n:
        raise C.ToolError("trace not fully consumed")
    bad = []
    for m in res.tagged("MISMATCH"):
        bad += _classify(prop, m["fails"])[0]
    os.remove(src)
    os.remove(trace)
    return bad


def replay(rp):
    prop = rp["property"]
    case = rp["case"]
    bad = []
    if case.get("direction") == "spec->impl":
        hb = C.build_harness("default", ["serdebr"])["serdebr"]
        work = os.path.join(C.WORK, "serdebr")
        os.makedirs(work, exist_ok=True)
        src = os.path.join(work, "rp-%d.ndjson" % os.getpid())
        mm = os.path.join(work, "rp-mm-%d.ndjson" % os.getpid())
        with open(src, "w") as f:
            f.write(json.dumps(case["case"]) + "\n")
        C.run([hb, "replay", "--in", src, "--out", mm], timeout=600)
        for l in open(mm):
            m = json.loads(l)
            if "fails" in m:
                bad += _classify(prop, m["fails"])[0]
        os.remove(src)
        os.remove(mm)
    bad += _observe_and_validate(prop, case["input"])
    return not bad


def probe_binary(hb, n=300, seed=4242):
    """Run the quick machinery (cached cases + one recorded shard per property) against an arbitrary
    harness binary, e.g. one built against a mutated scratch copy of the repository.  Used while
    building the engine to confirm that seeded defects are reported (see the engine report):
      skip remove_ghost_pair on materialisation      -> C18 pc
      emission bound `<= max + 1` in find_paths       -> C17 grow_impl/grow_spec (families at the boundary, far_left/right)
      probe builds the shadow pair with swapped sides -> C18 probe_ok / probe_len
      Cons keeps the popped left entry's cached list  -> C18 tree (spec cases and stack_tails traces)"""
    work = os.path.join(C.WORK, "serdebr")
    os.makedirs(work, exist_ok=True)
    rep = {}
    for prop, what in (("C17", "ser"), ("C18", "de")):
        out = C.Outcome(prop)
        for mode in (["trees"] if prop == "C17" else ["bytes", "trees"]):
            meta, cases_p = _mc(mode, "quick")
            _replay_cases(prop, hb, cases_p, {"tree"} if prop == "C17" else {"bytes"}, out, work)
        s2i = len(out.violations)
        trace, res = _trace_shard((hb, work, what, seed, n, 1, 99))
        _validate_trace(prop, trace, res, out, collections.Counter(), set())
        os.remove(trace)
        labs = collections.Counter(l for v in out.violations for l in v.replay["fails"])
        rep[prop] = {"spec->impl": s2i, "impl->spec": len(out.violations) - s2i, "drift": len(out.drift), "labels": dict(labs),
                     "example": out.violations[0].desc[:300] if out.violations else None}
    return rep


def selftest():
    """binding demonstration: (a) corrupted trace fields are rejected by TraceSerBackrefs,
    (b) corrupted CASE expectations are rejected by the harness replay.  Returns a dict of results."""
    hb = C.build_harness("default", ["serdebr"])["serdebr"]
    work = os.path.join(C.WORK, "serdebr")
    os.makedirs(work, exist_ok=True)
    res = {}
    # (a) trace corruption
    trace = os.path.join(work, "selftest-trace.ndjson")
    C.run([hb, "record", "--seed", "7", "--n", "25", "--what", "both", "--out", trace], timeout=600)
    events = [json.loads(l) for l in open(trace)]
    muts = []   # (line index, description, expected label)
    done = set()
    for i, e in enumerate(events):
        if e["ev"] == "ser_br" and "out" in e and len(e["out"]) < e["classic"] and "ser_out" not in done:
            j = e["out"].index(254) + 1
            e["out"][j] = (e["out"][j] + 1) % 128 or 2                      # another path
            e["out2"] = list(e["out"]); e["out3"] = list(e["out"])
            muts.append((i + 1, "ser_br.out: one back-reference path changed", "rt_spec")); done.add("ser_out")
        elif e["ev"] == "ser_br" and "out" in e and "ser_run2" not in done and len(e["out"]) > 2:
            e["out2"][-1] ^= 1
            muts.append((i + 1, "ser_br.out2: last byte flipped", "run2")); done.add("ser_run2")
        elif e["ev"] == "ser_br" and "out" in e and "ser_classic" not in done:
            e["classic"] = len(e["out"]) - 1
            muts.append((i + 1, "ser_br.classic: set below the output length", "grow_impl")); done.add("ser_classic")
        elif e["ev"] == "reser" and "reser" not in done and e["re"]:
            e["re"][0] ^= 1
            muts.append((i + 1, "reser.re: first byte flipped", "reser")); done.add("reser")
        elif e["ev"] == "de_br" and e["cur"].get("ok") and "pc" not in done:
            e["cur"]["pc"] += 1
            muts.append((i + 1, "de_br.cur.pc: +1", "pc")); done.add("pc")
        elif e["ev"] == "de_br" and e["cur"].get("ok") and "len" not in done:
            e["probe"]["len"] += 1
            muts.append((i + 1, "de_br.probe.len: +1", "spec_len")); done.add("len")
        elif e["ev"] == "de_br" and e["cur"].get("ok") is False and "accept" not in done:
            e["old"] = {"ok": True, "t": {"a": []}, "pc": e["old"]["pc"]}
            muts.append((i + 1, "de_br.old: rejected -> accepted", "accept")); done.add("accept")
        elif e["ev"] == "de_br" and e["cur"].get("ok") and "tree" not in done and "a" in e["cur"]["t"]:
            e["cur"]["t"] = {"a": e["cur"]["t"]["a"] + [1]}
            muts.append((i + 1, "de_br.cur.t: atom extended", "tree")); done.add("tree")
    with open(trace, "w") as f:
        for e in events:
            f.write(json.dumps(e) + "\n")
    r = C.run_tlc("TraceSerBackrefs", workers=1, env={"TRACE": trace}, deque=True, timeout=1800, name="TraceSerBackrefs-selftest")
    C.tlc_ok_or_raise(r, "TraceSerBackrefs selftest")
    mm = {m["line"]: m["fails"] for m in r.tagged("MISMATCH")}
    res["trace"] = [{"line": ln, "mutation": d, "expected_label": lab, "reported": mm.get(ln), "caught": lab in (mm.get(ln) or [])}
                    for ln, d, lab in muts]
    res["trace_unexpected"] = {ln: f for ln, f in mm.items() if ln not in [m[0] for m in muts]}
    res["trace_done"] = r.tagged("TRACE-DONE")
    os.remove(trace)
    # (b) case corruption
    meta, cases_p = _mc("bytes", "quick")
    metat, cases_t = _mc("trees", "quick")
    picked = []
    for ln in open(cases_p):
        c = json.loads(ln)
        if c["ok"] and c["brs"] > 0 and c["mat"] > 0 and len(picked) == 0:
            c["pc"] += 1; picked.append(("pc +1", "spec_pc", c))
        elif c["ok"] and c["brs"] > 0 and len(picked) == 1:
            c["used"] -= 1; picked.append(("used -1", "spec_len", c))
        elif not c["ok"] and c["err"] == "bad" and len(picked) == 2:
            c["ok"] = True; c["t"] = {"a": []}; picked.append(("reject -> accept", "spec_ok", c))
        elif c["ok"] and c["brs"] > 0 and "f" in c["t"] and len(picked) == 3:
            c["t"] = {"f": c["t"]["r"], "r": c["t"]["f"]} if c["t"]["f"] != c["t"]["r"] else {"a": [9]}
            picked.append(("tree children swapped", "spec_tree", c))
        if len(picked) == 4:
            break
    for ln in open(cases_t):
        c = json.loads(ln)
        if c["kind"] == "tree" and len(c["code"]) < c["classic"]:
            c["code"][-1] ^= 1; picked.append(("tree case: code last byte flipped", "code", c))
            c2 = json.loads(ln); c2["classic"] = len(c2["code"]) - 1
            picked.append(("tree case: classic set below the code length", "grow_spec", c2))
            break
    src = os.path.join(work, "selftest-cases.ndjson")
    out_p = os.path.join(work, "selftest-mm.ndjson")
    with open(src, "w") as f:
        for _, _, c in picked:
            f.write(json.dumps(c) + "\n")
    C.run([hb, "replay", "--in", src, "--out", out_p], timeout=600)
    lines = [json.loads(l) for l in open(out_p)]
    got = [m for m in lines if "fails" in m]
    res["cases"] = []
    for d, lab, c in picked:
        f = [m["fails"] for m in got if m["case"] == c]
        res["cases"].append({"mutation": d, "expected_label": lab, "reported": f[0] if f else None, "caught": bool(f) and lab in f[0]})
    os.remove(src)
    os.remove(out_p)
    res["ok"] = all(x["caught"] for x in res["trace"]) and all(x["caught"] for x in res["cases"]) \
        and len(res["trace"]) >= 6 and not res["trace_unexpected"]
    return res
