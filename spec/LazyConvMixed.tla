---------------------------- MODULE LazyConvMixed ----------------------------
(***************************************************************************)
(* clvm_tree_to_lazy_node (wheel/src/api.rs) on ONE Python tree that       *)
(* reaches LazyNode handles of SEVERAL allocators (property C27), the      *)
(* second dimension next to LazyConv.tla's address reuse.                  *)
(*                                                                         *)
(* A LazyNode is a pair (allocator, NodePtr).  Every deserialization       *)
(* (deser_legacy, deser_backrefs, deser_2026, a program result) has its    *)
(* own allocator, and NodePtr values are small indices that start from     *)
(* zero in each of them: the k-th pair created by the decoder is           *)
(* Pair(k) in EVERY allocator; small-integer atoms are encoded in the      *)
(* NodePtr itself (value-keyed).  A memo that identifies a LazyNode by     *)
(* its NodePtr alone therefore conflates nodes of different allocators.    *)
(*                                                                         *)
(* Source: an ordinary Python pair object whose two children are the       *)
(* LazyNode roots of allocator 1 (holding src.f) and allocator 2 (src.r);  *)
(* `.pair` of a LazyNode builds two new LazyNode objects of the same       *)
(* allocator.  Since the repair of F1 every visited object is kept alive,  *)
(* so addresses are never reused: an object's address is its creation      *)
(* index.                                                                  *)
(*   KeyMode = "addr"       memo keyed by object address (the code)        *)
(*   KeyMode = "node"       LazyNodes keyed by NodePtr alone               *)
(*   KeyMode = "allocnode"  LazyNodes keyed by (allocator, NodePtr)        *)
(* One action per iteration of the work-stack loop, as in LazyConv.tla.    *)
(***************************************************************************)
EXTENDS Naturals, Sequences, FiniteSets, TLC

CONSTANTS KeyMode, Trees

VARIABLES src, objs, stack, memo, pc, result
vars == << src, objs, stack, memo, pc, result >>

None == [none |-> TRUE]
IsAtom(t) == "a" \in DOMAIN t
Pair(x, y) == [f |-> x, r |-> y]

RECURSIVE NPairs(_)
NPairs(t) == IF IsAtom(t) THEN 0 ELSE 1 + NPairs(t.f) + NPairs(t.r)

\* index of the pair at `path` in the order the classic decoder creates pairs (post-order):
\* all pairs left of the path and all pairs below the node exist before it
RECURSIVE Rank(_, _, _)
Rank(t, path, base) ==
  IF path = << >> THEN base + NPairs(t.f) + NPairs(t.r)
  ELSE IF path[1] = 0 THEN Rank(t.f, Tail(path), base)
  ELSE Rank(t.r, Tail(path), base + NPairs(t.f))

Whole(al) == IF al = 1 THEN src.f ELSE src.r

\* an object: al = 0 an ordinary Python object, al > 0 a LazyNode of that allocator at `path`
Obj(al, path, t) == [al |-> al, path |-> path, t |-> t]

\* the NodePtr of a LazyNode: a small atom is its value, a pair its creation index
NodePtrOf(o) == IF IsAtom(o.t) THEN << "atom", o.t >> ELSE << "pair", Rank(Whole(o.al), o.path, 0) >>

\* memo key of the object with address (creation index) i in the object table ob
KeyIn(ob, i) ==
  LET o == ob[i]
  IN  IF o.al = 0 \/ KeyMode = "addr" THEN << "addr", i >>
      ELSE IF KeyMode = "node" THEN << "node", NodePtrOf(o) >>
      ELSE << "node", o.al, NodePtrOf(o) >>
Key(i) == KeyIn(objs, i)

Has(k) == k \in DOMAIN memo
V(i) == [k |-> "V", i |-> i]
B(id, l, r) == [k |-> "B", id |-> id, l |-> l, r |-> r]

Init ==
  /\ src \in Trees
  /\ objs = << Obj(0, << >>, src), Obj(1, << >>, src.f), Obj(2, << >>, src.r) >>
  /\ stack = << V(1) >>
  /\ memo = << >>
  /\ pc = "run"
  /\ result = None

Top == stack[Len(stack)]
Rest == SubSeq(stack, 1, Len(stack) - 1)
Put(k, v) == (k :> v) @@ memo

VisitMemoHit ==
  /\ pc = "run" /\ stack # << >> /\ Top.k = "V"
  /\ Has(Key(Top.i))
  /\ stack' = Rest
  /\ UNCHANGED << src, objs, memo, pc, result >>

VisitAtom ==
  /\ pc = "run" /\ stack # << >> /\ Top.k = "V"
  /\ ~Has(Key(Top.i))
  /\ IsAtom(objs[Top.i].t)
  /\ memo' = Put(Key(Top.i), objs[Top.i].t)
  /\ stack' = Rest
  /\ UNCHANGED << src, objs, pc, result >>

VisitPair ==
  /\ pc = "run" /\ stack # << >> /\ Top.k = "V"
  /\ ~Has(Key(Top.i))
  /\ ~IsAtom(objs[Top.i].t)
  /\ LET i == Top.i
         o == objs[i]
         \* the root's children exist already (objects 2 and 3); a LazyNode builds two new handles
         new == IF o.al = 0 THEN << >>
                ELSE << Obj(o.al, o.path \o << 0 >>, o.t.f), Obj(o.al, o.path \o << 1 >>, o.t.r) >>
         l == IF o.al = 0 THEN 2 ELSE Len(objs) + 1
         r == IF o.al = 0 THEN 3 ELSE Len(objs) + 2
     IN  /\ objs' = objs \o new
         /\ LET kl == KeyIn(objs \o new, l)
                kr == KeyIn(objs \o new, r)
                ldone == Has(kl)
                rdone == Has(kr)
            IN  IF ldone /\ rdone
                THEN /\ memo' = Put(Key(i), Pair(memo[kl], memo[kr]))
                     /\ stack' = Rest
                ELSE /\ memo' = memo
                     /\ stack' = Rest \o << B(Key(i), kl, kr) >>
                                      \o (IF rdone THEN << >> ELSE << V(r) >>)
                                      \o (IF ldone THEN << >> ELSE << V(l) >>)
  /\ UNCHANGED << src, pc, result >>

BuildPair ==
  /\ pc = "run" /\ stack # << >> /\ Top.k = "B"
  /\ memo' = Put(Top.id, Pair(memo[Top.l], memo[Top.r]))
  /\ stack' = Rest
  /\ UNCHANGED << src, objs, pc, result >>

Finish ==
  /\ pc = "run" /\ stack = << >>
  /\ pc' = "done"
  /\ result' = memo[Key(1)]
  /\ objs' = << >>
  /\ memo' = << >>
  /\ UNCHANGED << src, stack >>

Next == VisitMemoHit \/ VisitAtom \/ VisitPair \/ BuildPair \/ Finish

Correct == pc = "done" => result = src
NoPanic == (pc = "run" /\ stack # << >> /\ Top.k = "B") => (Has(Top.l) /\ Has(Top.r))
=============================================================================
