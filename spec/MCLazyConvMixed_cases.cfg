CONSTANT KeyMode = "node"
CONSTANT MaxLeaves = 3
CONSTANT Trees <- AllTrees
INIT Init
NEXT Next
INVARIANT EmitCase
INVARIANT NoPanic
CHECK_DEADLOCK FALSE
