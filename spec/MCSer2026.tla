----------------------------- MODULE MCSer2026 -----------------------------
(* Bounded model of serde_2026 (C20 at design level).                        *)
(*   tree cases : every tree of the universe is serialized by the S machine, *)
(*                the produced blob is fed to the decoder (strict, lenient)  *)
(*                and probe machines; laws: decode = tree, consumed = probe  *)
(*                = length, machine = declarative SerR / DecR / ProbeR.      *)
(*   bytes cases: every blob of the universe (MAGIC + structured body) runs  *)
(*                through the four machines in lock step; laws: termination  *)
(*                within StepBound, strict => lenient with the same tree,    *)
(*                probe = consumed when decoding succeeds, probe accepts     *)
(*                whenever the decoder only fails in the instruction stream, *)
(*                classic decoders reject the first object.                  *)
(* One TLC state per machine step; one CASE line per finished case (replayed *)
(* into the implementation by the harness).                                  *)
EXTENDS Ser2026, TLC, Json, IOUtils

VARIABLES c, m

Tier == IF "TIER" \in DOMAIN IOEnv THEN IOEnv.TIER ELSE "quick"
Thorough == Tier = "thorough"

---------------------------------------------------------------------------
(* universes *)

AtomsU == {<< >>, << 1 >>, << 2 >>, << 1, 2 >>, << 3, 4 >>}
RECURSIVE TreesP(_)
TreesP(k) == IF k = 0 THEN {[a |-> x] : x \in AtomsU}
             ELSE UNION {{[f |-> l, r |-> r] : l \in TreesP(i), r \in TreesP(k - 1 - i)} : i \in 0..(k - 1)}
\* trees of 4 pairs over a smaller alphabet (thorough)
AtomsS == {<< >>, << 1 >>, << 1, 2 >>}
RECURSIVE TreesS(_)
TreesS(k) == IF k = 0 THEN {[a |-> x] : x \in AtomsS}
             ELSE UNION {{[f |-> l, r |-> r] : l \in TreesS(i), r \in TreesS(k - 1 - i)} : i \in 0..(k - 1)}

RECURSIVE ListOf(_)
ListOf(xs) == IF xs = << >> THEN NilT ELSE [f |-> [a |-> xs[1]], r |-> ListOf(Tail(xs))]
A1 == << 7 >>  A2 == << 8, 9 >>  A3 == << 5 >>  A4 == << 1, 1, 1 >>
Special == {
  ListOf(<< A1, A1, A1, A2, A2, A3 >>),            \* table order len1, len2, len1: three groups
  ListOf(<< A1, A2, A3, A4, A1, A2 >>),            \* reused first, then by length
  ListOf(<< A3, A1, A2, A4 >>),                    \* multi group of two + two singletons
  [f |-> ListOf(<< A1, A2 >>), r |-> [f |-> ListOf(<< A1, A2 >>), r |-> ListOf(<< A1, A2 >>)]],
  [f |-> [f |-> [f |-> NilT, r |-> NilT], r |-> [f |-> NilT, r |-> NilT]],
   r |-> [f |-> [f |-> NilT, r |-> NilT], r |-> [f |-> NilT, r |-> NilT]]],
  [a |-> [i \in 1..64 |-> i]], [a |-> [i \in 1..63 |-> 200]],
  [f |-> [a |-> [i \in 1..64 |-> i]], r |-> [a |-> [i \in 1..64 |-> 65 - i]]] }

TreeU == UNION {TreesP(k) : k \in 0..3} \cup Special \cup (IF Thorough THEN TreesS(4) ELSE {})

\* byte strings: plain alphabet (every varint class, boundary values, data)
Sym == {0, 1, 2, 3, 125, 126, 127, 128, 191, 192, 255, 65}
Plain == UNION {[1..n -> Sym] : n \in 0..(IF Thorough THEN 5 ELSE 4)}

\* structured bodies: atom-table section x instruction-count variant x instruction sequence x tail
GroupSecs == {
  << 0 >>,                              \* no groups
  << 1, 1, 65 >>,                       \* one singleton group, length 1
  << 1, 2, 65, 66 >>,                   \* singleton, length 2
  << 1, 127, 2, 65, 66 >>,              \* length -1: two atoms of 1 byte
  << 1, 127, 1, 65 >>,                  \* multi-atom form with count 1 (accepted)
  << 1, 126, 2, 65, 66, 67, 68 >>,      \* two atoms of 2 bytes
  << 2, 1, 65, 2, 66, 67 >>,            \* two groups
  << 128, 1, 1, 65 >>,                  \* non-minimal group count
  << 1, 128, 1, 65 >>,                  \* non-minimal length
  << 1, 127, 128, 2, 65, 66 >>,         \* non-minimal count
  << 1, 191, 255, 2, 65, 66 >>,         \* non-minimal negative length
  << 1, 0 >>,                           \* zero length
  << 1, 127, 0, 65 >>,                  \* zero count
  << 1, 127, 127 >>,                    \* negative count
  << 127 >>,                            \* negative group count
  << 1, 3, 65, 66 >>,                   \* atom longer than announced data (eats what follows)
  << 1, 127, 3, 65, 66 >>,              \* count larger than the data
  << 1, 192, 64, 0, 65 >>,              \* length 2^20 (= max_atom_len bound in the 2^20 configuration)
  << 1, 192, 64, 1, 65 >>,              \* length 2^20 + 1
  << 1, 129, 127, 254, 127, 255, 255, 255, 255, 255, 255 >> \* huge length * huge count
}
InsSym == { << 0 >>, << 1 >>, << 127 >>, << 2 >>, << 3 >>, << 4 >>, << 126 >>, << 125 >>,
            << 128, 2 >>, << 191, 254 >>, << 255 >> }
InsRed == { << 0 >>, << 2 >>, << 1 >>, << 127 >>, << 126 >> }
SeqsOf(S, n) == {Flat(f) : f \in [1..n -> S]}
ICnt(n) == { Enc(n), << 128, n >>, Enc(n + 1), Enc(n - 1) }
Tails == {<< >>, << 0 >>, << 255, 255 >>}
Bodies ==
  UNION { {g \o ic \o is \o tl : ic \in ICnt(n), is \in SeqsOf(InsSym, n), tl \in Tails} : g \in GroupSecs, n \in 0..2 }
  \cup UNION { {g \o Enc(3) \o is : is \in SeqsOf(InsSym, 3)} : g \in GroupSecs }
  \cup UNION { {g \o Enc(n) \o is : is \in SeqsOf(InsRed, n)} : g \in GroupSecs, n \in (IF Thorough THEN {4, 5} ELSE {4}) }
  \cup { << 0, 7, 0, 0, 1, 126, 126, 1, 127 >>,          \* pair back-references, both cons orders
         << 0, 9, 0, 0, 1, 126, 1, 125, 125, 1, 124 >>,
         << 1, 1, 65, 5, 2, 2, 1, 126, 127 >> }
MaxAll == {0, 1, 2, 1048576}
ByteU ==
  {[b |-> Magic \o x, max |-> 1048576] : x \in Plain \cup Bodies}
  \cup {[b |-> Magic \o x, max |-> 1] : x \in UNION {[1..n -> Sym] : n \in 0..3}}
  \cup UNION { {[b |-> Magic \o g \o ic \o is, max |-> mx] : ic \in ICnt(n), is \in SeqsOf(InsSym, n), mx \in MaxAll \ {1048576}}
               : g \in GroupSecs, n \in 1..1 }
  \cup {[b |-> x, max |-> 1048576] : x \in {<< >>, << 253 >>, SubSeq(Magic, 1, 5), << 253, 255, 50, 48, 50, 55, 0, 1, 0 >>,
                                             << 255, 255, 50, 48, 50, 54, 0, 1, 0 >>, << 128 >>, << 255, 1, 1 >>}}

Cases == {[kind |-> "tree", t |-> t] : t \in TreeU} \cup {[kind |-> "bytes", b |-> x.b, max |-> x.max] : x \in ByteU}

---------------------------------------------------------------------------
(* machines *)

Big == << 0, 0, 16 >>     \* 2^20
Blob == IF c.kind = "tree" THEN m.ser.blob ELSE c.b
MaxN == IF c.kind = "tree" THEN Big ELSE N(c.max)
Cf(strict) == [b |-> Blob, max |-> MaxN, strict |-> strict]
Four == [ds |-> DInit, dl |-> DInit, ps |-> PInit, pl |-> PInit]

Init == /\ c \in Cases
        /\ m = IF c.kind = "tree" THEN [ser |-> SInit(c.t)] ELSE Four

Running == "ds" \in DOMAIN m
AllDone == Running /\ DDone(m.ds) /\ DDone(m.dl) /\ PDone(m.ps) /\ PDone(m.pl)

Next == /\ UNCHANGED c
        /\ IF ~Running
           THEN IF SDone(m.ser) THEN m' = [ser |-> m.ser] @@ Four
                ELSE m' = [ser |-> SStep(m.ser)]
           ELSE IF AllDone THEN UNCHANGED m
           ELSE m' = [m EXCEPT !.ds = DStep(Cf(TRUE), @), !.dl = DStep(Cf(FALSE), @),
                               !.ps = PStep(Cf(TRUE), @), !.pl = PStep(Cf(FALSE), @)]

---------------------------------------------------------------------------
(* laws *)

Emit(r) == PrintT(<< "CASE", ToJson(r) >>)

InstrOnly == {"cons-underflow", "atom-index", "pair-index", "stack-final"}

\* decoder vs probe, one mode
ModeLaws(d, p, strict) ==
  LET rd == DResult(d)  rp == PResult(p)  cf == Cf(strict) IN
  /\ d.steps <= StepBound(Blob) /\ p.steps <= StepBound(Blob)
  /\ rd = DecR(cf)                                     \* machine = declarative decoder
  /\ rp = ProbeR(cf)
  /\ rd.ok => rp.ok /\ rp.len = rd.used                \* probe = consumed
  /\ rd.ok => rd.used <= Len(Blob) /\ DNodes(d) = N(Len(PostOrder(rd.tree)))
  /\ (rp.ok /\ ~rd.ok) => d.why \in InstrOnly         \* header accepted => header parse of the decoder passes
  /\ (~rp.ok) => ~rd.ok /\ (d.why \in {"magic-short", "magic-bad"} \cup InstrOnly \/ d.why = p.why)

BytesLaws ==
  LET rs == DResult(m.ds)  rl == DResult(m.dl) IN
  /\ ModeLaws(m.ds, m.ps, TRUE)
  /\ ModeLaws(m.dl, m.pl, FALSE)
  /\ rs.ok => rl = rs                                   \* lenient extends strict
  /\ PResult(m.ps).ok => PResult(m.pl) = PResult(m.ps)
  /\ rl.ok => LET again == SerR(rl.tree) IN             \* the canonical form of what was decoded
              /\ DecR([b |-> again, max |-> Big, strict |-> TRUE]) = [ok |-> TRUE, tree |-> rl.tree, used |-> Len(again)]
  /\ HasMagic(Blob) => ClassicFirstObjectRejected(Blob)

TreeLaws ==
  LET want == [ok |-> TRUE, tree |-> c.t, used |-> Len(Blob)] IN
  /\ Blob = SerR(c.t)                                   \* machine = declarative serializer
  /\ DResult(m.ds) = want /\ DResult(m.dl) = want        \* round trip, whole blob consumed
  /\ PResult(m.ps) = [ok |-> TRUE, len |-> Len(Blob)]
  /\ PResult(m.pl) = [ok |-> TRUE, len |-> Len(Blob)]
  /\ DecR(Cf(TRUE)) = want /\ DecR(Cf(FALSE)) = want
  /\ ClassicFirstObjectRejected(Blob)

Out(d) == LET r == DResult(d) IN [ok |-> r.ok, tree |-> r.tree, used |-> r.used, why |-> d.why]

Laws ==
  AllDone =>
    IF c.kind = "tree"
    THEN /\ TreeLaws
         /\ Emit([kind |-> "tree", t |-> c.t, blob |-> Blob])
    ELSE /\ BytesLaws
         /\ Emit([kind |-> "bytes", b |-> c.b, max |-> c.max, s |-> Out(m.ds), l |-> Out(m.dl),
                  ps |-> PResult(m.ps), pl |-> PResult(m.pl)])

\* 0xfd + any five bytes is a size >= 2^40: evaluated once
ASSUME \A t \in [1..5 -> {0, 1, 127, 128, 255}] : MagicSizeLemma(t)
ASSUME MagicSizeLemma(SubSeq(Magic, 2, 6))
=============================================================================
