CONSTANT KeyMode = "allocnode"
CONSTANT MaxLeaves = 3
CONSTANT Trees <- AllTrees
INIT Init
NEXT Next
INVARIANT Correct
INVARIANT NoPanic
CHECK_DEADLOCK FALSE
