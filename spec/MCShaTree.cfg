INIT Init
NEXT Next
INVARIANT Completes
INVARIANT Cheaper
INVARIANT Linear
INVARIANT Report
CHECK_DEADLOCK FALSE
