------------------------------ MODULE LazyConv ------------------------------
(***************************************************************************)
(* clvm_tree_to_lazy_node (wheel/src/api.rs) over an explicit Python heap  *)
(* (property C27).                                                         *)
(*                                                                         *)
(* The function converts any object with the `.atom` / `.pair` protocol to *)
(* a tree in a Rust allocator.  It is a work-stack loop                    *)
(*                                                                         *)
(*   stack = [Visit(obj)]                    Visit owns a reference        *)
(*   while let Some(item) = stack.pop():                                   *)
(*     Visit(o):  id = address(o)                                          *)
(*                if id in identity_map: continue                          *)
(*                if o.atom is bytes: identity_map[id] = intern(bytes)     *)
(*                else (l, r) = o.pair                                     *)
(*                     if address(l), address(r) both in identity_map:     *)
(*                          identity_map[id] = intern_pair(map[l], map[r]) *)
(*                     else push BuildPair{id, address(l), address(r)}     *)
(*                          push Visit(r) unless done; push Visit(l) unless done *)
(*                (o, l, r are dropped here unless moved into the stack)   *)
(*     BuildPair{id, l, r}: identity_map[id] = intern_pair(map[l], map[r]) *)
(*   result = identity_map[address(obj)]                                   *)
(*                                                                         *)
(* The memo `identity_map` is keyed by the ADDRESS of a Python object and  *)
(* BuildPair items hold addresses only.  Atoms and pairs are interned by   *)
(* value in the allocator (atom_map, pair_map), so at this level a NodePtr *)
(* is the tree value it denotes.                                           *)
(*                                                                         *)
(* The Python heap: an object lives at an address and denotes a sub-tree   *)
(* of the source; it is freed when its last reference is dropped, and a    *)
(* freed address may be handed out again by the allocator (any free        *)
(* address: the model does not assume a particular allocator policy).      *)
(*   Kind = "fresh"   the storage builds NEW child objects on every        *)
(*                    `.pair` access (LazyNode::pair in wheel/src/         *)
(*                    lazy_node.rs); nobody but the caller of `.pair`      *)
(*                    references them                                      *)
(*   Kind = "cached"  the storage creates its children on the first        *)
(*                    `.pair` access and keeps them (Program, CLVMTree,    *)
(*                    tuple trees): every object stays alive as long as    *)
(*                    the root, which the caller of the conversion holds   *)
(*   KeepAlive        the repair: every object the loop processes is kept  *)
(*                    referenced until the conversion returns              *)
(*                                                                         *)
(* Between two iterations of the loop the live objects are exactly: the    *)
(* root (held by the caller), the objects owned by Visit items on the      *)
(* stack, the kept objects, and - for cached storage - everything ever     *)
(* created.  One action per loop iteration.                                *)
(***************************************************************************)
EXTENDS Naturals, Sequences, FiniteSets

CONSTANTS Kind, KeepAlive, NAddr, Trees

VARIABLES src,      \* the source tree (chosen initially)
          heap,     \* address -> the sub-tree denoted by the object living there, or NoObj
          kids,     \* address -> << l, r >> children created by an earlier `.pair` (cached storage), or << >>
          stack,    \* work stack, top = last element
          memo,     \* identity_map: address -> tree value (NodePtr), or None
          keep,     \* addresses kept referenced by the repair
          pc,       \* "run" | "done"
          result    \* the returned tree value (when done)
vars == << src, heap, kids, stack, memo, keep, pc, result >>

Addr == 1..NAddr
Root == 1
NoObj == [none |-> TRUE]
None == [none |-> TRUE]

IsAtom(t) == "a" \in DOMAIN t
Pair(x, y) == [f |-> x, r |-> y]
V(a) == [k |-> "V", a |-> a]
B(id, l, r) == [k |-> "B", id |-> id, l |-> l, r |-> r]

VisitAddrs(stk) == {stk[i].a : i \in {j \in 1..Len(stk) : stk[j].k = "V"}}

\* the objects that are referenced between two loop iterations
Live(stk, kp, hp) ==
  IF Kind = "cached" THEN {a \in Addr : hp[a] # NoObj}
  ELSE {Root} \cup VisitAddrs(stk) \cup kp

Sweep(hp, stk, kp) == [a \in Addr |-> IF a \in Live(stk, kp, hp) THEN hp[a] ELSE NoObj]

Init ==
  /\ src \in Trees
  /\ heap = [a \in Addr |-> IF a = Root THEN src ELSE NoObj]
  /\ kids = [a \in Addr |-> << >>]
  /\ stack = << V(Root) >>
  /\ memo = [a \in Addr |-> None]
  /\ keep = {}
  /\ pc = "run"
  /\ result = None

Top == stack[Len(stack)]
Rest == SubSeq(stack, 1, Len(stack) - 1)

\* `continue`: the address is already in the memo (whoever lived there when it was entered)
VisitMemoHit ==
  /\ pc = "run" /\ stack # << >> /\ Top.k = "V"
  /\ memo[Top.a] # None
  /\ stack' = Rest
  /\ heap' = Sweep(heap, Rest, keep)
  /\ UNCHANGED << src, kids, memo, keep, pc, result >>

VisitAtom ==
  /\ pc = "run" /\ stack # << >> /\ Top.k = "V"
  /\ memo[Top.a] = None
  /\ IsAtom(heap[Top.a])
  /\ LET a == Top.a
         kp == IF KeepAlive THEN keep \cup {a} ELSE keep
     IN  /\ memo' = [memo EXCEPT ![a] = heap[a]]
         /\ keep' = kp
         /\ stack' = Rest
         /\ heap' = Sweep(heap, Rest, kp)
  /\ UNCHANGED << src, kids, pc, result >>

\* `.pair` of the object at address a: the addresses of its two children
\*   cached storage, second access: the same objects as before
\*   otherwise: two new objects at any two distinct free addresses (the object itself, the
\*   root, the objects on the stack and the kept ones are referenced, hence not free)
ChildChoices(a) ==
  IF Kind = "cached" /\ kids[a] # << >> THEN {kids[a]}
  ELSE LET free == {x \in Addr : heap[x] = NoObj}
       IN  {p \in free \X free : p[1] # p[2]}

VisitPair ==
  /\ pc = "run" /\ stack # << >> /\ Top.k = "V"
  /\ memo[Top.a] = None
  /\ ~IsAtom(heap[Top.a])
  /\ \E ch \in ChildChoices(Top.a) :
       LET a == Top.a
           l == ch[1]
           r == ch[2]
           hp == [heap EXCEPT ![l] = heap[a].f, ![r] = heap[a].r]
           kp == IF KeepAlive THEN keep \cup {a} ELSE keep
           ldone == memo[l] # None
           rdone == memo[r] # None
           stk == IF ldone /\ rdone THEN Rest
                  ELSE Rest \o << B(a, l, r) >>
                            \o (IF rdone THEN << >> ELSE << V(r) >>)
                            \o (IF ldone THEN << >> ELSE << V(l) >>)
       IN  /\ memo' = IF ldone /\ rdone THEN [memo EXCEPT ![a] = Pair(memo[l], memo[r])] ELSE memo
           /\ kids' = IF Kind = "cached" THEN [kids EXCEPT ![a] = ch] ELSE kids
           /\ keep' = kp
           /\ stack' = stk
           /\ heap' = Sweep(hp, stk, kp)           \* o, l, r are dropped at the end of the iteration
  /\ UNCHANGED << src, pc, result >>

BuildPair ==
  /\ pc = "run" /\ stack # << >> /\ Top.k = "B"
  /\ memo' = [memo EXCEPT ![Top.id] = Pair(memo[Top.l], memo[Top.r])]
  /\ stack' = Rest
  /\ heap' = Sweep(heap, Rest, keep)
  /\ UNCHANGED << src, kids, keep, pc, result >>

\* the loop has ended: the result is the memo entry of the root's address.  The bookkeeping
\* variables are cleared so that behaviours that differ only in addresses end in one state.
Finish ==
  /\ pc = "run" /\ stack = << >>
  /\ pc' = "done"
  /\ result' = memo[Root]
  /\ heap' = [a \in Addr |-> NoObj]
  /\ kids' = [a \in Addr |-> << >>]
  /\ memo' = [a \in Addr |-> None]
  /\ keep' = {}
  /\ UNCHANGED << src, stack >>

Next == VisitMemoHit \/ VisitAtom \/ VisitPair \/ BuildPair \/ Finish

---------------------------------------------------------------------------
(* Properties *)

\* C27 at design level: the conversion returns the source tree
Correct == pc = "done" => result = src

\* HashMap indexing `identity_map[&left_id]` never panics: the entries a BuildPair reads exist
NoPanic == (pc = "run" /\ stack # << >> /\ Top.k = "B") => (memo[Top.l] # None /\ memo[Top.r] # None)

\* the memo is sound while it is used: every entry belongs to the object that lives at that
\* address now and is that object's tree.  This is what the repair establishes, and what
\* address reuse destroys.
MemoSound == pc = "run" => \A a \in Addr : memo[a] # None => heap[a] = memo[a]

\* no allocation request can fail for lack of addresses (model sanity: NAddr is large enough)
EnoughAddresses ==
  (pc = "run" /\ stack # << >> /\ Top.k = "V" /\ memo[Top.a] = None /\ ~IsAtom(heap[Top.a]))
    => ChildChoices(Top.a) # {}
=============================================================================
