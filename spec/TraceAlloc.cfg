CONSTANTS
  MaxAtoms = 62500000
  MaxPairs = 62500000
  HeapLimit = 2147483647
INIT TInit
NEXT TNext
INVARIANT Done
CHECK_DEADLOCK FALSE
