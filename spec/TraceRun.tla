----------------------------- MODULE TraceRun -----------------------------
(***************************************************************************)
(* Trace validation of whole-program runs (engine `run`).                  *)
(*                                                                         *)
(* Trace:  begin  (configuration + program + environment [+ witnesses])    *)
(*         guard_enter / guard_exit / sample  (hook events, optional)      *)
(*         end    (what run_program returned + allocator counters)         *)
(* Runs of one `case` are `variants` of the same input under different     *)
(* configurations; an end event lists relations (`rels`) to earlier        *)
(* variants of its case that must hold between the OBSERVED outcomes.      *)
(*                                                                         *)
(* For every run the Interp machine is executed from the recorded input,   *)
(* one TLC state per machine step, and its outcome compared with the       *)
(* recorded one.  Reported mismatch kinds (property attribution is done by *)
(* the engine driver, see engines/run.py):                                 *)
(*   outcome   recorded result/cost/error kind # specification             *)
(*   counters  recorded atom/pair/heap counters # specification (diag.)    *)
(*   rel:<k>   relation k between two recorded variants violated           *)
(*   guard:<k> hook events of a softfork guard violate C31 clause k;       *)
(*             guard:verdict = SoftforkCostMismatch reported / not reported *)
(*             against the machine                                          *)
(*   cap       a sampled counter exceeds its cap (C13)                     *)
(*   stacks    stack high-water marks of the counters feature # machine    *)
(*   internal  the run reported InternalError or panicked (C25)            *)
(***************************************************************************)
EXTENDS Interp, TLC, Json, IOUtils

Rec == ndJsonDeserialize(IOEnv.TRACE)
Fuel == 60000

VARIABLES l, st, grp, gst, cnt
vars == << l, st, grp, gst, cnt >>

Has(e, f) == f \in DOMAIN e
SetOf(s) == {s[i] : i \in 1..Len(s)}
Idle == [status |-> "idle"]

Observed(e) ==
  IF Has(e, "panic") THEN [st |-> "panic"]
  ELSE IF e.ok THEN [st |-> "ok", cost |-> e.cost, val |-> TreeOf(e.val)]
  ELSE [st |-> "err", kind |-> e.kind]

ObsFull(e) ==
  \* everything C04/C05 compare: result, cost, error MESSAGE, counters
  IF Has(e, "panic") THEN [st |-> "panic"]
  ELSE IF e.ok THEN [st |-> "ok", cost |-> e.cost, val |-> TreeOf(e.val), atoms |-> e.atoms, pairs |-> e.pairs, heap |-> e.heap]
  ELSE [st |-> "err", msg |-> e.msg, atoms |-> e.atoms, pairs |-> e.pairs, heap |-> e.heap]

Report(kind, e, detail) ==
  PrintT(<< "MISMATCH", ToJson([kind |-> kind, line |-> l, case |-> e.case, variant |-> e.variant, detail |-> detail]) >>)

---------------------------------------------------------------------------
(* relations between two recorded variants; a = this run (end event), b = earlier run *)

OkSame(a, b) == a.ok /\ b.ok /\ a.cost = b.cost /\ TreeOf(a.val) = TreeOf(b.val)
SameCounters(a, b) == a.atoms = b.atoms /\ a.pairs = b.pairs /\ a.heap = b.heap

RelHolds(k, a, b) ==
  CASE k = "eq_full" -> ObsFull(a) = ObsFull(b)                                   \* C04, C05
    [] k = "eq_outcome" -> Observed(a) = Observed(b)                              \* C03, C30
    [] k = "eq_outcome_c30" -> (a.beyond \/ b.beyond \/ ~a.decided \/ ~b.decided \/ Observed(a) = Observed(b))   \* C30
    [] k = "ok_implies_ok_same" -> (a.ok => OkSame(a, b))                         \* C07: a = F+R, b = F
    [] k = "other_ok_implies_ok_same" -> (b.ok => OkSame(a, b))                   \* C07 RELAXED_BLS, a = F+RELAXED
    [] k = "other_ok_implies_ok_same_counters" -> (b.ok => OkSame(a, b) /\ SameCounters(a, b))  \* C08: a = unaware, b = aware
    [] k = "both_ok_same_val" -> ((a.ok /\ b.ok) => TreeOf(a.val) = TreeOf(b.val))  \* C11
    [] k = "cost_lt" -> ((a.ok /\ b.ok) => NLt(a.cost, b.cost))                   \* C23: a = native, b = ChiaLisp
    [] k = "budget" ->                                                             \* C02: b = unlimited run, a = budget M
         LET M == a.budget
         IN  /\ a.ok => /\ b.ok /\ OkSame(a, b) /\ NLe(a.cost, M)
             /\ (~a.ok) => (b.ok => a.kind = "CostExceeded")
             /\ (b.ok /\ b.decided /\ ~b.exempt /\ NGe(M, b.cost)) => a.ok
             /\ (b.ok /\ b.decided /\ NLt(M, b.cost) /\ ~b.exempt) => ~a.ok
    [] k = "budget_up" ->                                                          \* C02: b succeeded with a smaller budget
         ((b.ok /\ NGe(a.budget, b.budget)) => a.ok)
    [] OTHER -> FALSE

---------------------------------------------------------------------------
(* high-water marks of the machine's three stacks (history field `mx` added to the machine state here): the code's *)
(* `counters` feature reports the same marks of its val / env / op stacks, so the STEP STRUCTURE of the machine is  *)
(* bound to the code, not only its outcome.  Every machine step pops first and pushes afterwards, so the stack     *)
(* lengths after a step are the largest reached inside it.                                                          *)
Max2i(a, b) == IF a >= b THEN a ELSE b
WithMarks(s, mx) ==
  [mx |-> [val |-> Max2i(mx.val, Len(s.val)), env |-> Max2i(mx.env, Len(s.env)), op |-> Max2i(mx.op, Len(s.ops))]] @@ s

Init == l = 1 /\ st = Idle /\ grp = << >> /\ gst = << >>
        /\ cnt = [runs |-> 0, abstained |-> 0, steps |-> 0, fuel |-> 0]

Begin(e) ==
  /\ st = Idle
  /\ e.ev = "begin"
  /\ st' = WithMarks(Start(TreeOf(e.prog), TreeOf(e.env), e.budget, SetOf(e.flags), e.dialect,
                           [atoms |-> e.al.atoms, pairs |-> e.al.pairs, heap |-> e.al.heap, limit |-> e.al.limit],
                           IF Has(e, "wit") THEN e.wit ELSE << >>),
                     [val |-> 0, env |-> 0, op |-> 0])
  /\ grp' = IF grp # << >> /\ grp[1].case = e.case THEN grp ELSE << >>
  /\ gst' = << >>
  /\ l' = l + 1
  /\ UNCHANGED cnt

Run ==
  /\ st # Idle
  /\ st.status = "run"
  /\ st' = IF st.steps >= Fuel THEN AbstainS(st, "fuel") ELSE WithMarks(Step(st), st.mx)
  /\ UNCHANGED << l, grp, gst, cnt >>

\* hook events between begin and end are consumed once the machine has finished
GuardEnter(e) ==
  /\ st # Idle /\ st.status # "run" /\ e.ev = "guard_enter"
  \* LIMIT_SOFTFORK: at most 20 guards are ever open (depth counts the guard just entered)
  /\ IF "LIMIT_SOFTFORK" \in st.flags /\ e.depth > 20
       THEN Report("guard:depth", [case |-> e.case, variant |-> e.variant], e) ELSE TRUE
  /\ gst' = Append(gst, e)
  /\ l' = l + 1
  /\ UNCHANGED << st, grp, cnt >>

GuardExit(e) ==
  /\ st # Idle /\ st.status # "run" /\ e.ev = "guard_exit"
  /\ LET g == Last(gst)
     IN  /\ IF e.nil THEN TRUE ELSE Report("guard:nil", [case |-> e.case, variant |-> e.variant], e)
         /\ IF e.atoms = g.atoms /\ e.pairs = g.pairs /\ e.heap = g.heap THEN TRUE
            ELSE Report("guard:counters", [case |-> e.case, variant |-> e.variant], [enter |-> g, exit |-> e])
         /\ IF g.exempt \/ (NGe(e.cost, g.cost) /\ NSub(e.cost, g.cost) = g.declared) THEN TRUE
            ELSE Report("guard:cost", [case |-> e.case, variant |-> e.variant], [enter |-> g, exit |-> e])
  /\ gst' = Front(gst)
  /\ l' = l + 1
  /\ UNCHANGED << st, grp, cnt >>

Sample(e) ==
  /\ st # Idle /\ st.status # "run" /\ e.ev = "sample"
  /\ IF e.atoms <= MaxAtoms /\ e.pairs <= MaxPairs /\ (e.limit < 0 \/ e.heap <= e.limit) THEN TRUE
     \* known finding F5: the heap is above its limit by no more than the bytes that substr calls on INLINE atoms
     \* copied (the harness counts only that call site, field f5); anything beyond that is an unexplained excess
     ELSE IF e.atoms <= MaxAtoms /\ e.pairs <= MaxPairs /\ e.f5 > 0 /\ e.heap - e.f5 <= e.limit
          THEN Report("cap:F5", [case |-> e.case, variant |-> e.variant], e)
     ELSE Report("cap", [case |-> e.case, variant |-> e.variant], e)
  /\ l' = l + 1
  /\ UNCHANGED << st, grp, gst, cnt >>

\* run_program_with_counters (diag build): the stack high-water marks; decided only when the machine decided the run
Stacks(e) ==
  /\ st # Idle /\ st.status # "run" /\ e.ev = "stacks"
  /\ IF st.status \in {"ok", "err"} /\ ~(e.val = st.mx.val /\ e.env = st.mx.env /\ e.op = st.mx.op)
       THEN Report("stacks", [case |-> e.case, variant |-> e.variant], [expected |-> st.mx, observed |-> e, status |-> st.status])
       ELSE TRUE
  /\ l' = l + 1
  /\ UNCHANGED << st, grp, gst, cnt >>

End(e) ==
  /\ st # Idle /\ st.status # "run" /\ e.ev = "end"
  /\ LET spec == Outcome(st)
         obs == Observed(e)
         decided == st.status \in {"ok", "err"}
         me == e @@ [exempt |-> st.exempt, beyond |-> st.beyond, decided |-> st.status \in {"ok", "err"},
                     budget |-> Rec[e.begin_line].budget]
     IN  /\ IF ~decided \/ spec = obs THEN TRUE
            ELSE Report("outcome", e, [expected |-> spec, observed |-> obs, steps |-> st.steps])
         /\ IF decided /\ spec = obs /\ e.ok
               /\ ~(st.al.atoms = e.atoms /\ st.al.pairs = e.pairs /\ st.al.heap = e.heap)
            THEN Report("counters", e, [expected |-> st.al, atoms |-> e.atoms, pairs |-> e.pairs, heap |-> e.heap])
            ELSE TRUE
         \* C31 (cost clause, seen from the outcome): a run ends with SoftforkCostMismatch exactly when the machine's does
         /\ IF decided /\ ~Has(e, "panic")
               /\ ((spec.st = "err" /\ spec.kind = "SoftforkCostMismatch") # (obs.st = "err" /\ obs.kind = "SoftforkCostMismatch"))
            THEN Report("guard:verdict", e, [expected |-> spec, observed |-> obs])
            ELSE TRUE
         /\ IF Has(e, "panic") \/ (~e.ok /\ e.kind = "InternalError")
            THEN Report("internal", e, IF Has(e, "panic") THEN e.panic ELSE e.msg) ELSE TRUE
         /\ \A i \in 1..Len(e.rels) :
              LET r == e.rels[i]
                  prior == SelectSeq(grp, LAMBDA g : g.variant = r.to)
              IN  IF prior = << >> \/ Has(e, "panic") \/ Has(prior[1], "panic") THEN TRUE
                  ELSE IF RelHolds(r.k, me, prior[1]) THEN TRUE
                  ELSE Report("rel:" \o r.k, e, [to |-> r.to, this |-> ObsFull(e), other |-> ObsFull(prior[1]),
                                                  budget |-> me.budget, other_exempt |-> prior[1].exempt])
         /\ grp' = Append(grp, me)
         /\ cnt' = [cnt EXCEPT !.runs = @ + 1, !.steps = @ + st.steps,
                               !.abstained = @ + (IF decided THEN 0 ELSE 1),
                               !.fuel = @ + (IF st.status = "abstain" /\ st.kind = "fuel" THEN 1 ELSE 0)]
  /\ st' = Idle
  /\ gst' = << >>
  /\ l' = l + 1

Next ==
  /\ l <= Len(Rec)
  /\ \/ Run
     \/ Begin(Rec[l])
     \/ GuardEnter(Rec[l])
     \/ GuardExit(Rec[l])
     \/ Sample(Rec[l])
     \/ Stacks(Rec[l])
     \/ End(Rec[l])

Done == (l = Len(Rec) + 1 /\ st = Idle) => PrintT(<< "TRACE-DONE", ToJson([lines |-> l - 1, cnt |-> cnt]) >>)
=============================================================================
