INIT Init
NEXT Next
INVARIANT CodeIsPublished
INVARIANT CornerFree
INVARIANT Dispatch
INVARIANT Below
INVARIANT Classes
INVARIANT Emit
CHECK_DEADLOCK FALSE
