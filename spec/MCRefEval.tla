----------------------------- MODULE MCRefEval -----------------------------
(***************************************************************************)
(* C01 at design level: the implementation-shaped stack machine            *)
(* (Interp.tla: chia dialect, no flags, budget 0 = unlimited) and the      *)
(* independent big-step reference evaluator (RefEval.tla) are the same     *)
(* function on the classic part of the bounded universe                    *)
(* (ProgUniverse!ClassicSeq: no program mentions an operator added    *)
(* after the reference).                                                   *)
(*                                                                         *)
(* One behaviour per (program, environment): the machine is carried        *)
(* through Next, one Interp!Step per state; when it has finished, the      *)
(* invariant compares Interp!Outcome with RefEval!RefOutcome:              *)
(*     both fail,  or  both succeed with identical result and cost.        *)
(* Neither side may abstain on this universe.                              *)
(***************************************************************************)
EXTENDS Interp, ProgUniverse, Json

VARIABLES u, m, phase
vars == << u, m, phase >>

StepBound == 400
Emit == IF "EMIT" \in DOMAIN IOEnv THEN IOEnv.EMIT # "0" ELSE TRUE

RECURSIVE TreeAtoms(_), TreePairs(_), TreeBytes(_)
TreeAtoms(t) == IF IsAtom(t) THEN 1 ELSE TreeAtoms(t.f) + TreeAtoms(t.r)
TreePairs(t) == IF IsAtom(t) THEN 0 ELSE 1 + TreePairs(t.f) + TreePairs(t.r)
TreeBytes(t) == IF IsAtom(t) THEN Len(t.a) ELSE TreeBytes(t.f) + TreeBytes(t.r)
Al0(x) == [atoms |-> FreshAl.atoms + TreeAtoms(x.p) + TreeAtoms(x.e), pairs |-> TreePairs(x.p) + TreePairs(x.e),
           heap |-> FreshAl.heap + TreeBytes(x.p) + TreeBytes(x.e), limit |-> -1]

Idle == [status |-> "idle"]

Init == (\E i \in 1..Len(ClassicSeq) : u = ClassicSeq[i]) /\ m = Idle /\ phase = 0
NextM(x, s, ph) == IF ph = 0 THEN Start(x.p, x.e, << >>, {}, "chia", Al0(x), << >>) ELSE Step(s)
Next == /\ phase = 0 \/ m.status = "run"
        /\ m' = NextM(u, m, phase)
        /\ phase' = 1
        /\ u' = u

Final == phase = 1 /\ m.status # "run"

\* the verdict: "ok" / "err" when both sides agree, "abstain" when a side does not decide, "DIFF" otherwise
Verdict(s, r) ==
  IF s.status = "abstain" \/ r.st = "abstain" THEN "abstain"
  ELSE IF s.status = "ok" /\ r.st = "ok" /\ s.cost = r.cost /\ Last(s.val) = r.val THEN "ok"
  ELSE IF s.status = "err" /\ r.st = "err" THEN "err"
  ELSE "DIFF"

Terminates == phase = 1 => m.steps <= StepBound

Agree ==
  Final => LET r == RefOutcome(u.p, u.e)
               v == Verdict(m, r)
           IN  /\ v \in {"ok", "err"}
               /\ IF Emit THEN PrintT(<< "REF", ToJson([cls |-> u.k, verdict |-> v, steps |-> m.steps]) >>) ELSE TRUE
=============================================================================
