----------------------------- MODULE MCRefEval -----------------------------
(***************************************************************************)
(* C01 at design level: the implementation-shaped stack machine            *)
(* (Interp.tla: chia dialect, no flags, budget 0 = unlimited) and the      *)
(* independent big-step reference evaluator (RefEval.tla) are the same     *)
(* function on the classic part of the bounded universe                    *)
(* (ProgUniverse!ClassicIdx: no program mentions an operator added    *)
(* after the reference).                                                   *)
(*                                                                         *)
(* One behaviour per (program, environment): the machine is carried        *)
(* through Next, one Interp!Step per state; when it has finished, the      *)
(* invariant compares Interp!Outcome with RefEval!RefOutcome:              *)
(*     both fail,  or  both succeed with identical result and cost.        *)
(* Neither side may abstain on this universe.                              *)
(***************************************************************************)
EXTENDS Interp, ProgUniverse, Json

\* NOTE on names: TLC decides whether a definition is constant-level (and may be evaluated once) by looking names
\* up; a VARIABLE called like a formal parameter of some operator of the extended modules (BigInt/Ops use m, k, n ..)
\* makes every definition that calls such an operator look state-dependent, and the universe is then re-evaluated
\* for every initial state (measured: the model did not start).  Hence the unusual variable names.
VARIABLES vU, vM, vPhase
vars == << vU, vM, vPhase >>

StepBound == 400
Emit == IF "EMIT" \in DOMAIN IOEnv THEN IOEnv.EMIT # "0" ELSE TRUE

RECURSIVE TreeAtoms(_), TreePairs(_), TreeBytes(_)
TreeAtoms(t) == IF IsAtom(t) THEN 1 ELSE TreeAtoms(t.f) + TreeAtoms(t.r)
TreePairs(t) == IF IsAtom(t) THEN 0 ELSE 1 + TreePairs(t.f) + TreePairs(t.r)
TreeBytes(t) == IF IsAtom(t) THEN Len(t.a) ELSE TreeBytes(t.f) + TreeBytes(t.r)
Al0(x) == [atoms |-> FreshAl.atoms + TreeAtoms(x.p) + TreeAtoms(x.e), pairs |-> TreePairs(x.p) + TreePairs(x.e),
           heap |-> FreshAl.heap + TreeBytes(x.p) + TreeBytes(x.e), limit |-> -1]

Idle == [status |-> "idle"]

Init == (\E i \in ClassicIdx : vU = UniverseSeq[i]) /\ vM = Idle /\ vPhase = 0
NextM(x, s, ph) == IF ph = 0 THEN Start(x.p, x.e, << >>, {}, "chia", Al0(x), << >>) ELSE Step(s)
Next == /\ vPhase = 0 \/ vM.status = "run"
        /\ vM' = NextM(vU, vM, vPhase)
        /\ vPhase' = 1
        /\ vU' = vU

Final == vPhase = 1 /\ vM.status # "run"

\* the verdict: "ok" / "err" when both sides agree, "abstain" when a side does not decide, "DIFF" otherwise
Verdict(s, r) ==
  IF s.status = "abstain" \/ r.st = "abstain" THEN "abstain"
  ELSE IF s.status = "ok" /\ r.st = "ok" /\ s.cost = r.cost /\ Last(s.val) = r.val THEN "ok"
  ELSE IF s.status = "err" /\ r.st = "err" THEN "err"
  ELSE "DIFF"

Terminates == vPhase = 1 => vM.steps <= StepBound

Agree ==
  Final => LET r == RefOutcome(vU.p, vU.e)
               v == Verdict(vM, r)
           IN  /\ v \in {"ok", "err"}
               /\ IF Emit THEN PrintT(<< "REF", ToJson([cls |-> vU.k, verdict |-> v, steps |-> vM.steps]) >>) ELSE TRUE
=============================================================================
