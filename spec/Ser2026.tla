------------------------------ MODULE Ser2026 ------------------------------
(***************************************************************************)
(* serde_2026 (src/serde_2026/{mod,de,ser,strategy}.rs, src/serde/intern.rs)*)
(*                                                                         *)
(*   blob  = MAGIC  atom-table  instruction-stream                         *)
(*   table = varint G, then G groups: varint L >= 0 : one atom of L bytes   *)
(*                                    varint L <  0 : varint C, C atoms of   *)
(*                                                    -L bytes               *)
(*   instr = varint K (>0), then K varints: 0 push nil, 1 cons(below,top),  *)
(*           -1 cons(top,below), n>=2 push atom n-2, n<=-2 push pair -n-2    *)
(*                                                                         *)
(* Three machines, one step per iteration of the real loops:               *)
(*   D*  the decoder  deserialize_2026(_from_stream)                        *)
(*   P*  the length probe serialized_length_serde_2026                      *)
(*   S*  the serializer serialize_2026 (intern, sort, group, emit)          *)
(* plus structural-recursive definitions over values (DecR, ProbeR, SerR)   *)
(* which are the declarative meaning; the property C20 is                   *)
(*   DecR(Ser(t)) = t in both modes, Probe = length, Probe = consumed.      *)
(*                                                                         *)
(* Trees: [a |-> bytes] | [f |-> T, r |-> T].  Wide numbers: BigInt Nat.     *)
(* Positions `pos` are the number of bytes consumed so far (0-based cursor). *)
(***************************************************************************)
EXTENDS BigInt, FiniteSets

V == INSTANCE Varint

Magic == << 253, 255, 50, 48, 50, 54 >>

IsAtom(t) == "a" \in DOMAIN t
NilT == [a |-> << >>]

\* trees read from traces: nested form or the FLAT form [t |-> << node, .. >>] with node =
\* [a |-> bytes] | [p |-> <<i, j>>] (earlier entries, root last) - see CONVENTIONS.md "Nesting limit"
RECURSIVE BuildFlat(_, _)
BuildFlat(tab, i) ==
  IF "a" \in DOMAIN tab[i] THEN [a |-> tab[i].a]
  ELSE [f |-> BuildFlat(tab, tab[i].p[1]), r |-> BuildFlat(tab, tab[i].p[2])]
TreeOf(j) == IF "t" \in DOMAIN j THEN BuildFlat(j.t, Len(j.t)) ELSE j

HasMagic(b) == Len(b) >= 6 /\ SubSeq(b, 1, 6) = Magic

\* position of x in seq (0 if absent; first occurrence)
IndexOf(seq, x) ==
  LET S == {i \in 1..Len(seq) : seq[i] = x}
  IN  IF S = {} THEN 0 ELSE CHOOSE i \in S : \A j \in S : i <= j

\* read_varint at cursor pos: [ok, val (Z), used]
Rd(b, pos, strict) == V!Decode(SubSeq(b, pos + 1, Min2(Len(b), pos + 8)), strict)

Enc(n) == V!Encode(ZI(n))            \* write_varint of a small integer

---------------------------------------------------------------------------
(* DECODER MACHINE.  cf = [b |-> blob, max |-> Nat (max_atom_len), strict]  *)
(* refs on the stack: 0 = nil, k > 0 = atoms[k], -k = pairs[k] = <<l, r>>   *)

DInit == [ph |-> "magic", why |-> "", pos |-> 0, gn |-> << >>, gi |-> 0,
          alen |-> << >>, acnt |-> << >>, ai |-> 0, atoms |-> << >>,
          inn |-> << >>, ii |-> 0, stack |-> << >>, pairs |-> << >>, root |-> 0, steps |-> 0]

DDone(s) == s.ph \in {"ok", "err"}
DErr(s, why) == [s EXCEPT !.ph = "err", !.why = why]

DStep0(cf, s) ==
  LET b == cf.b IN
  CASE s.ph = "magic" ->                        \* read_exact(6) then compare
         IF Len(b) < 6 THEN DErr(s, "magic-short")
         ELSE IF SubSeq(b, 1, 6) # Magic THEN DErr(s, "magic-bad")
         ELSE [s EXCEPT !.ph = "gcount", !.pos = 6]
    [] s.ph = "gcount" ->                       \* group_count = checked_usize(read_varint)
         LET v == Rd(b, s.pos, cf.strict) IN
         IF ~v.ok THEN DErr(s, "gcount-varint")
         ELSE IF v.val[1] THEN DErr(s, "gcount-neg")
         ELSE [s EXCEPT !.ph = "group", !.pos = s.pos + v.used, !.gn = v.val[2], !.gi = 0]
    [] s.ph = "group" ->                        \* head of `for _ in 0..group_count`
         IF NGe(N(s.gi), s.gn) THEN [s EXCEPT !.ph = "icount"]
         ELSE
         LET v == Rd(b, s.pos, cf.strict) IN
         IF ~v.ok THEN DErr(s, "len-varint")
         ELSE IF v.val[1]
         THEN \* negative length: -L atoms share a group; bound check, THEN count is read
              IF NGt(v.val[2], cf.max) THEN DErr(s, "len-max")
              ELSE LET c == Rd(b, s.pos + v.used, cf.strict) IN
                   IF ~c.ok THEN DErr(s, "cnt-varint")
                   ELSE IF c.val[1] THEN DErr(s, "cnt-neg")
                   ELSE IF c.val[2] = << >> THEN DErr(s, "zero")
                   ELSE [s EXCEPT !.ph = "atoms", !.pos = s.pos + v.used + c.used,
                                  !.alen = v.val[2], !.acnt = c.val[2], !.ai = 0]
         ELSE IF NGt(v.val[2], cf.max) THEN DErr(s, "len-max")
              ELSE IF v.val[2] = << >> THEN DErr(s, "zero")
              ELSE [s EXCEPT !.ph = "atoms", !.pos = s.pos + v.used,
                             !.alen = v.val[2], !.acnt = << 1 >>, !.ai = 0]
    [] s.ph = "atoms" ->                        \* `for _ in 0..count { read_exact(buf); new_atom }`
         IF NGe(N(s.ai), s.acnt) THEN [s EXCEPT !.ph = "group", !.gi = s.gi + 1]
         ELSE IF NGt(s.alen, N(Len(b) - s.pos)) THEN DErr(s, "atom-bytes")
         ELSE LET L == NToInt(s.alen) IN
              [s EXCEPT !.atoms = Append(@, SubSeq(b, s.pos + 1, s.pos + L)),
                        !.pos = s.pos + L, !.ai = s.ai + 1]
    [] s.ph = "icount" ->
         LET v == Rd(b, s.pos, cf.strict) IN
         IF ~v.ok THEN DErr(s, "icount-varint")
         ELSE IF v.val[1] THEN DErr(s, "icount-neg")
         ELSE IF v.val[2] = << >> THEN DErr(s, "icount-zero")
         ELSE [s EXCEPT !.ph = "inst", !.pos = s.pos + v.used, !.inn = v.val[2], !.ii = 0]
    [] s.ph = "inst" ->                         \* `for _ in 0..instruction_count`
         IF NGe(N(s.ii), s.inn)
         THEN IF Len(s.stack) = 1 THEN [s EXCEPT !.ph = "ok", !.root = s.stack[1]]
              ELSE DErr(s, "stack-final")
         ELSE
         LET v == Rd(b, s.pos, cf.strict) IN
         IF ~v.ok THEN DErr(s, "inst-varint")
         ELSE
         LET neg == v.val[1]
             mag == v.val[2]
             nx  == [s EXCEPT !.pos = s.pos + v.used, !.ii = s.ii + 1]
             n   == Len(s.stack)
         IN  IF mag = << >> THEN [nx EXCEPT !.stack = Append(@, 0)]
             ELSE IF mag = << 1 >>
             THEN IF n < 2 THEN DErr(s, "cons-underflow")
                  ELSE LET top == s.stack[n]
                           below == s.stack[n - 1]
                           pr == IF neg THEN << top, below >> ELSE << below, top >>
                       IN  [nx EXCEPT !.pairs = Append(@, pr),
                                      !.stack = Append(SubSeq(s.stack, 1, n - 2), 0 - (Len(s.pairs) + 1))]
             ELSE LET idx == NSub(mag, << 2 >>) IN
                  IF ~neg
                  THEN IF NGe(idx, N(Len(s.atoms))) THEN DErr(s, "atom-index")
                       ELSE [nx EXCEPT !.stack = Append(@, NToInt(idx) + 1)]
                  ELSE IF NGe(idx, N(Len(s.pairs))) THEN DErr(s, "pair-index")
                       ELSE [nx EXCEPT !.stack = Append(@, 0 - (NToInt(idx) + 1))]
    [] OTHER -> s

DStep(cf, s) == IF DDone(s) THEN s ELSE [DStep0(cf, s) EXCEPT !.steps = s.steps + 1]

RECURSIVE Expand(_, _, _)
Expand(atoms, pairs, r) ==
  IF r = 0 THEN NilT
  ELSE IF r > 0 THEN [a |-> atoms[r]]
  ELSE [f |-> Expand(atoms, pairs, pairs[0 - r][1]), r |-> Expand(atoms, pairs, pairs[0 - r][2])]

\* number of nodes of the expanded tree of every pair (BigInt), without expanding
RECURSIVE PairSizesRec(_, _, _)
PairSizesRec(pairs, k, acc) ==
  IF k > Len(pairs) THEN acc
  ELSE LET sz(r) == IF r >= 0 THEN << 1 >> ELSE acc[0 - r]
       IN  PairSizesRec(pairs, k + 1, Append(acc, NAdd(NAdd(sz(pairs[k][1]), sz(pairs[k][2])), << 1 >>)))
DNodes(s) == IF s.root >= 0 THEN << 1 >> ELSE PairSizesRec(s.pairs, 1, << >>)[0 - s.root]

DTree(s) == Expand(s.atoms, s.pairs, s.root)
\* the observable outcome: accept?, tree, bytes consumed
DResult(s) == IF s.ph = "ok" THEN [ok |-> TRUE, tree |-> DTree(s), used |-> s.pos]
              ELSE [ok |-> FALSE, tree |-> NilT, used |-> 0]

---------------------------------------------------------------------------
(* LENGTH PROBE MACHINE (serialized_length_serde_2026): no atoms, no stack  *)

PInit == [ph |-> "magic", why |-> "", pos |-> 0, gn |-> << >>, gi |-> 0,
          inn |-> << >>, ii |-> 0, steps |-> 0]
PDone(s) == s.ph \in {"ok", "err"}

PStep0(cf, s) ==
  LET b == cf.b IN
  CASE s.ph = "magic" ->
         IF ~HasMagic(b) THEN DErr(s, "magic") ELSE [s EXCEPT !.ph = "gcount", !.pos = 6]
    [] s.ph = "gcount" ->
         LET v == Rd(b, s.pos, cf.strict) IN
         IF ~v.ok THEN DErr(s, "gcount-varint")
         ELSE IF v.val[1] THEN DErr(s, "gcount-neg")
         ELSE [s EXCEPT !.ph = "group", !.pos = s.pos + v.used, !.gn = v.val[2], !.gi = 0]
    [] s.ph = "group" ->
         IF NGe(N(s.gi), s.gn) THEN [s EXCEPT !.ph = "icount"]
         ELSE
         LET v == Rd(b, s.pos, cf.strict) IN
         IF ~v.ok THEN DErr(s, "len-varint")
         ELSE IF v.val[1]
         THEN IF NGt(v.val[2], cf.max) THEN DErr(s, "len-max")
              ELSE LET c == Rd(b, s.pos + v.used, cf.strict) IN
                   IF ~c.ok THEN DErr(s, "cnt-varint")
                   ELSE IF c.val[1] THEN DErr(s, "cnt-neg")
                   ELSE IF c.val[2] = << >> THEN DErr(s, "zero")
                   ELSE LET p1 == s.pos + v.used + c.used
                            skip == NMul(v.val[2], c.val[2])       \* checked_mul: overflow => error
                        IN  IF NGt(skip, N(Len(b) - p1)) THEN DErr(s, "atom-bytes")
                            ELSE [s EXCEPT !.pos = p1 + NToInt(skip), !.gi = s.gi + 1]
         ELSE IF NGt(v.val[2], cf.max) THEN DErr(s, "len-max")
              ELSE IF v.val[2] = << >> THEN DErr(s, "zero")
              ELSE LET p1 == s.pos + v.used IN
                   IF NGt(v.val[2], N(Len(b) - p1)) THEN DErr(s, "atom-bytes")
                   ELSE [s EXCEPT !.pos = p1 + NToInt(v.val[2]), !.gi = s.gi + 1]
    [] s.ph = "icount" ->
         LET v == Rd(b, s.pos, cf.strict) IN
         IF ~v.ok THEN DErr(s, "icount-varint")
         ELSE IF v.val[1] THEN DErr(s, "icount-neg")
         ELSE IF v.val[2] = << >> THEN DErr(s, "icount-zero")
         ELSE [s EXCEPT !.ph = "inst", !.pos = s.pos + v.used, !.inn = v.val[2], !.ii = 0]
    [] s.ph = "inst" ->
         IF NGe(N(s.ii), s.inn) THEN [s EXCEPT !.ph = "ok"]
         ELSE LET v == Rd(b, s.pos, cf.strict) IN
              IF ~v.ok THEN DErr(s, "inst-varint")
              ELSE [s EXCEPT !.pos = s.pos + v.used, !.ii = s.ii + 1]
    [] OTHER -> s

PStep(cf, s) == IF PDone(s) THEN s ELSE [PStep0(cf, s) EXCEPT !.steps = s.steps + 1]
PResult(s) == IF s.ph = "ok" THEN [ok |-> TRUE, len |-> s.pos] ELSE [ok |-> FALSE, len |-> 0]

\* every step consumes a byte or is one of a bounded number of loop heads/exits
StepBound(b) == 3 * Len(b) + 8

---------------------------------------------------------------------------
(* SERIALIZER MACHINE.  refs here: k > 0 = atoms[k] (nil included, as in    *)
(* InternedTree.atoms), -k = pairs[k]; code index = k-1 / -(k).             *)
(* intern_tree's memo on source NodePtrs only skips repeated work and is    *)
(* not modelled: a revisit finds the Occupied entries and adds nothing.     *)

SInit(t) == [ph |-> "intern", ops |-> << << "visit", t >> >>, vals |-> << >>,
             atoms |-> << >>, pairs |-> << >>, root |-> 0,
             remap |-> << >>, nilidx |-> 0, table |-> << >>,
             work |-> << >>, ord |-> << >>, nc |-> 0, ni |-> 0, ib |-> << >>, blob |-> << >>,
             steps |-> 0]
SDone(s) == s.ph = "done"

\* --- sort_atoms: stable sort_by with the code's comparator (a total order) ---
RefCounts(atoms, pairs, root) ==
  [k \in 1..Len(atoms) |->
     (IF root = k THEN 1 ELSE 0)
     + Cardinality({i \in 1..Len(pairs) : pairs[i][1] = k})
     + Cardinality({i \in 1..Len(pairs) : pairs[i][2] = k})]

\* a sorts before b
AtomBefore(atoms, cnt, a, b) ==
  LET ar == cnt[a] > 1
      br == cnt[b] > 1
  IN  IF ar # br THEN ar                                  \* b_reused.cmp(a_reused)
      ELSE IF cnt[a] # cnt[b] THEN cnt[a] > cnt[b]        \* ref_counts[b].cmp(ref_counts[a])
      ELSE IF Len(atoms[a]) # Len(atoms[b]) THEN Len(atoms[a]) < Len(atoms[b])
      ELSE a < b

RECURSIVE Merge(_, _, _, _)
Merge(atoms, cnt, x, y) ==
  IF x = << >> THEN y ELSE IF y = << >> THEN x
  ELSE IF AtomBefore(atoms, cnt, y[1], x[1])
       THEN << y[1] >> \o Merge(atoms, cnt, x, Tail(y))
       ELSE << x[1] >> \o Merge(atoms, cnt, Tail(x), y)
RECURSIVE MSort(_, _, _)
MSort(atoms, cnt, x) ==
  IF Len(x) <= 1 THEN x
  ELSE LET h == Len(x) \div 2
       IN  Merge(atoms, cnt, MSort(atoms, cnt, SubSeq(x, 1, h)), MSort(atoms, cnt, SubSeq(x, h + 1, Len(x))))

\* --- write_atom_table: contiguous equal lengths share a group ---
RECURSIVE GroupsOf(_, _, _, _)      \* -> sequence of << len, << atom bytes, .. >> >>
GroupsOf(atoms, sorted, i, acc) ==
  IF i > Len(sorted) THEN acc
  ELSE LET a == atoms[sorted[i]]
           n == Len(acc)
       IN  IF n > 0 /\ acc[n][1] = Len(a)
           THEN GroupsOf(atoms, sorted, i + 1, [acc EXCEPT ![n] = << acc[n][1], Append(acc[n][2], a) >>])
           ELSE GroupsOf(atoms, sorted, i + 1, Append(acc, << Len(a), << a >> >>))
RECURSIVE Flat(_)
Flat(ss) == IF ss = << >> THEN << >> ELSE ss[1] \o Flat(Tail(ss))
GroupBytes(g) ==
  IF Len(g[2]) = 1 THEN Enc(g[1]) \o g[2][1]
  ELSE Enc(0 - g[1]) \o Enc(Len(g[2])) \o Flat(g[2])
TableBytes(groups) == Enc(Len(groups)) \o Flat([i \in 1..Len(groups) |-> GroupBytes(groups[i])])

AtomIns(s, k) == IF k = s.nilidx THEN 0 ELSE s.remap[k] + 2

SStep0(s) ==
  CASE s.ph = "intern" ->
         IF s.ops = << >> THEN [s EXCEPT !.ph = "prep", !.root = s.vals[1], !.vals = << >>]
         ELSE
         LET n == Len(s.ops)
             op == s.ops[n]
             rest == SubSeq(s.ops, 1, n - 1)
         IN  IF op[1] = "visit"
             THEN LET t == op[2] IN
                  IF IsAtom(t)
                  THEN LET k == IndexOf(s.atoms, t.a) IN
                       IF k > 0 THEN [s EXCEPT !.ops = rest, !.vals = Append(@, k)]
                       ELSE [s EXCEPT !.ops = rest, !.atoms = Append(@, t.a), !.vals = Append(@, Len(s.atoms) + 1)]
                  ELSE [s EXCEPT !.ops = rest \o << << "join" >>, << "visit", t.r >>, << "visit", t.f >> >>]
             ELSE LET m == Len(s.vals)
                      pr == << s.vals[m - 1], s.vals[m] >>
                      k == IndexOf(s.pairs, pr)
                      vr == SubSeq(s.vals, 1, m - 2)
                  IN  IF k > 0 THEN [s EXCEPT !.ops = rest, !.vals = Append(vr, 0 - k)]
                      ELSE [s EXCEPT !.ops = rest, !.pairs = Append(@, pr), !.vals = Append(vr, 0 - (Len(s.pairs) + 1))]
    [] s.ph = "prep" ->                         \* SerializerState::new after interning + write_atom_table
         LET cnt == RefCounts(s.atoms, s.pairs, s.root)
             sorted == MSort(s.atoms, cnt, [k \in 1..Len(s.atoms) |-> k])
             nilidx == IndexOf(s.atoms, << >>)
             nonil == SelectSeq(sorted, LAMBDA k : k # nilidx)
             remap == [k \in 1..Len(s.atoms) |-> IndexOf(nonil, k) - 1]
             s1 == [s EXCEPT !.nilidx = nilidx, !.remap = remap,
                             !.table = TableBytes(GroupsOf(s.atoms, nonil, 1, << >>))]
         IN  IF s.pairs = << >>                 \* emit_instructions: no pairs => one instruction
             THEN [s1 EXCEPT !.ph = "finish", !.ni = 1, !.ib = Enc(AtomIns(s1, s.root))]
             ELSE [s1 EXCEPT !.ph = "emit", !.work = << << "build", s.root >> >>,
                             !.ord = [k \in 1..Len(s.pairs) |-> 0 - 1], !.nc = 0]
    [] s.ph = "emit" ->                         \* `while let Some(op) = work_stack.pop()`
         IF s.work = << >> THEN [s EXCEPT !.ph = "finish"]
         ELSE
         LET n == Len(s.work)
             op == s.work[n]
             rest == SubSeq(s.work, 1, n - 1)
         IN  IF op[1] = "cons"
             THEN [s EXCEPT !.work = rest, !.ib = @ \o Enc(1), !.ni = @ + 1,
                            !.ord = [@ EXCEPT ![op[2]] = s.nc], !.nc = @ + 1]
             ELSE LET r == op[2] IN
                  IF r > 0 THEN [s EXCEPT !.work = rest, !.ib = @ \o Enc(AtomIns(s, r)), !.ni = @ + 1]
                  ELSE LET k == 0 - r IN
                       IF s.ord[k] >= 0
                       THEN [s EXCEPT !.work = rest, !.ib = @ \o Enc(0 - (s.ord[k] + 2)), !.ni = @ + 1]
                       ELSE [s EXCEPT !.work = rest \o << << "cons", k >>, << "build", s.pairs[k][2] >>,
                                                          << "build", s.pairs[k][1] >> >>]
    [] s.ph = "finish" ->                       \* prefix, table, instruction count, instructions
         [s EXCEPT !.ph = "done", !.blob = Magic \o s.table \o Enc(s.ni) \o s.ib]
    [] OTHER -> s

SStep(s) == IF SDone(s) THEN s ELSE [SStep0(s) EXCEPT !.steps = s.steps + 1]

---------------------------------------------------------------------------
(* DECLARATIVE DEFINITIONS over values (structural recursion; short inputs) *)

\* --- decoder: stack of trees ---
RECURSIVE RGroups(_, _, _, _, _)     \* -> [ok, pos, atoms]
RGroups(cf, pos, gi, gn, atoms) ==
  LET b == cf.b  bad == [ok |-> FALSE, pos |-> 0, atoms |-> << >>] IN
  IF NGe(N(gi), gn) THEN [ok |-> TRUE, pos |-> pos, atoms |-> atoms]
  ELSE LET v == Rd(b, pos, cf.strict) IN
       IF ~v.ok \/ NGt(v.val[2], cf.max) \/ v.val[2] = << >> THEN bad
       ELSE LET c  == IF v.val[1] THEN Rd(b, pos + v.used, cf.strict)
                      ELSE [ok |-> TRUE, val |-> ZI(1), used |-> 0]
            IN  IF ~c.ok \/ c.val[1] \/ c.val[2] = << >> THEN bad
                ELSE LET p1 == pos + v.used + c.used IN
                     IF NGt(NMul(v.val[2], c.val[2]), N(Len(b) - p1)) THEN bad
                     ELSE LET L == NToInt(v.val[2])
                              C == NToInt(c.val[2])
                          IN  RGroups(cf, p1 + L * C, gi + 1, gn,
                                      atoms \o [k \in 1..C |-> SubSeq(b, p1 + (k - 1) * L + 1, p1 + k * L)])

RECURSIVE RInst(_, _, _, _, _, _, _)   \* -> [ok, tree, used]
RInst(cf, atoms, pos, ii, inn, stack, pairs) ==
  LET bad == [ok |-> FALSE, tree |-> NilT, used |-> 0] IN
  IF NGe(N(ii), inn)
  THEN IF Len(stack) = 1 THEN [ok |-> TRUE, tree |-> stack[1], used |-> pos] ELSE bad
  ELSE LET v == Rd(cf.b, pos, cf.strict) IN
       IF ~v.ok THEN bad
       ELSE LET z == v.val  n == Len(stack)  p1 == pos + v.used IN
            IF z = ZI(0) THEN RInst(cf, atoms, p1, ii + 1, inn, Append(stack, NilT), pairs)
            ELSE IF z[2] = << 1 >>
            THEN IF n < 2 THEN bad
                 ELSE LET p == IF z[1] THEN [f |-> stack[n], r |-> stack[n - 1]]
                                       ELSE [f |-> stack[n - 1], r |-> stack[n]]
                      IN  RInst(cf, atoms, p1, ii + 1, inn, Append(SubSeq(stack, 1, n - 2), p), Append(pairs, p))
            ELSE LET idx == NSub(z[2], << 2 >>)
                     tbl == IF z[1] THEN pairs ELSE [k \in 1..Len(atoms) |-> [a |-> atoms[k]]]
                 IN  IF NGe(idx, N(Len(tbl))) THEN bad
                     ELSE RInst(cf, atoms, p1, ii + 1, inn, Append(stack, tbl[NToInt(idx) + 1]), pairs)

DecR(cf) ==
  LET bad == [ok |-> FALSE, tree |-> NilT, used |-> 0] IN
  IF ~HasMagic(cf.b) THEN bad
  ELSE LET g == Rd(cf.b, 6, cf.strict) IN
       IF ~g.ok \/ g.val[1] THEN bad
       ELSE LET t == RGroups(cf, 6 + g.used, 0, g.val[2], << >>) IN
            IF ~t.ok THEN bad
            ELSE LET k == Rd(cf.b, t.pos, cf.strict) IN
                 IF ~k.ok \/ k.val[1] \/ k.val[2] = << >> THEN bad
                 ELSE RInst(cf, t.atoms, t.pos + k.used, 0, k.val[2], << >>, << >>)

\* --- probe: the header parses and K varints follow ---
RECURSIVE RSkip(_, _, _, _)            \* skip n varints -> position or -1
RSkip(cf, pos, ii, inn) ==
  IF NGe(N(ii), inn) THEN pos
  ELSE LET v == Rd(cf.b, pos, cf.strict) IN IF ~v.ok THEN 0 - 1 ELSE RSkip(cf, pos + v.used, ii + 1, inn)
ProbeR(cf) ==
  LET bad == [ok |-> FALSE, len |-> 0] IN
  IF ~HasMagic(cf.b) THEN bad
  ELSE LET g == Rd(cf.b, 6, cf.strict) IN
       IF ~g.ok \/ g.val[1] THEN bad
       ELSE LET t == RGroups(cf, 6 + g.used, 0, g.val[2], << >>) IN
            IF ~t.ok THEN bad
            ELSE LET k == Rd(cf.b, t.pos, cf.strict) IN
                 IF ~k.ok \/ k.val[1] \/ k.val[2] = << >> THEN bad
                 ELSE LET e == RSkip(cf, t.pos + k.used, 0, k.val[2]) IN
                      IF e < 0 THEN bad ELSE [ok |-> TRUE, len |-> e]

\* --- serializer over tree values ---
RECURSIVE PostOrder(_)
PostOrder(t) == IF IsAtom(t) THEN << t >> ELSE PostOrder(t.f) \o PostOrder(t.r) \o << t >>
RECURSIVE UniqRec(_, _, _)
UniqRec(x, i, acc) ==
  IF i > Len(x) THEN acc
  ELSE UniqRec(x, i + 1, IF IndexOf(acc, x[i]) > 0 THEN acc ELSE Append(acc, x[i]))
Uniq(x) == UniqRec(x, 1, << >>)

UAtoms(t) == SelectSeq(Uniq(PostOrder(t)), IsAtom)                   \* first-occurrence order
UPairs(t) == SelectSeq(Uniq(PostOrder(t)), LAMBDA x : ~IsAtom(x))    \* post-order, children first

RefsTo(t, a) ==
  LET ps == UPairs(t) IN
  (IF t = a THEN 1 ELSE 0) + Cardinality({i \in 1..Len(ps) : ps[i].f = a})
                           + Cardinality({i \in 1..Len(ps) : ps[i].r = a})

\* the table order: non-nil unique atoms ordered by (refs > 1 first, refs desc, length asc, first occurrence)
TableAtoms(t) ==
  LET ua == UAtoms(t)
      Before(i, j) ==
        LET ci == RefsTo(t, ua[i])  cj == RefsTo(t, ua[j]) IN
        IF ci # cj THEN ci > cj
        ELSE IF Len(ua[i].a) # Len(ua[j].a) THEN Len(ua[i].a) < Len(ua[j].a) ELSE i < j
      I == {i \in 1..Len(ua) : ua[i].a # << >>}
      rank(i) == 1 + Cardinality({j \in I : Before(j, i)})
  IN  [r \in 1..Cardinality(I) |-> ua[CHOOSE i \in I : rank(i) = r].a]

RECURSIVE EmitR(_, _, _)               \* -> [ins, done]: instructions, pairs built so far (by value)
EmitR(t, done, tbl) ==
  IF IsAtom(t) THEN [ins |-> << IF t.a = << >> THEN 0 ELSE IndexOf(tbl, t.a) + 1 >>, done |-> done]
  ELSE LET k == IndexOf(done, t) IN
       IF k > 0 THEN [ins |-> << 0 - (k + 1) >>, done |-> done]
       ELSE LET L == EmitR(t.f, done, tbl)
                R == EmitR(t.r, L.done, tbl)
            IN  [ins |-> L.ins \o R.ins \o << 1 >>, done |-> Append(R.done, t)]

\* maximal runs of equal length
RECURSIVE RunsOf(_, _)
RunsOf(tbl, i) ==
  IF i > Len(tbl) THEN << >>
  ELSE LET J == {j \in i..Len(tbl) : \A k \in i..j : Len(tbl[k]) = Len(tbl[i])}
           e == CHOOSE j \in J : \A k \in J : k <= j
       IN  << SubSeq(tbl, i, e) >> \o RunsOf(tbl, e + 1)

SerR(t) ==
  LET tbl == TableAtoms(t)
      runs == RunsOf(tbl, 1)
      grp(g) == IF Len(g) = 1 THEN Enc(Len(g[1])) \o g[1]
                ELSE Enc(0 - Len(g[1])) \o Enc(Len(g)) \o Flat(g)
      ins == EmitR(t, << >>, tbl).ins
  IN  Magic \o Enc(Len(runs)) \o Flat([i \in 1..Len(runs) |-> grp(runs[i])])
            \o Enc(Len(ins)) \o Flat([i \in 1..Len(ins) |-> Enc(ins[i])])

---------------------------------------------------------------------------
(* The classic / back-reference decoders on a blob starting with MAGIC:     *)
(* every one of them (node_from_bytes, node_from_bytes_backrefs(_old),      *)
(* serialized_length_from_bytes(_trusted), parse_triples,                   *)
(* tree_hash_from_stream) starts with one "parse an object" operation that  *)
(* reads the first byte; 0xfd is neither 0xff (cons), 0xfe (back-reference),*)
(* 0x80, 0x01 nor <= 0x7f, so it is an atom size prefix and goes through    *)
(* decode_size_with_offset (src/serde/parse_atom.rs), transcribed here.     *)

ClassicDecodeSize(b) ==            \* b[1] >= 0x80; -> [ok, off, size (Nat)]
  LET lo == V!LeadingOnes(b[1])
      bad == [ok |-> FALSE, off |-> 0, size |-> << >>]
  IN  IF lo >= 8 THEN bad
      ELSE IF Len(b) < lo THEN bad                            \* read_exact of lo-1 more bytes
      ELSE IF lo > 6 THEN bad
      ELSE LET sz == NFromBE(<< b[1] % Pow2(8 - lo) >> \o SubSeq(b, 2, lo)) IN
           IF NGe(sz, << 0, 0, 0, 0, 4 >>) THEN bad            \* >= 0x400000000
           ELSE [ok |-> TRUE, off |-> lo, size |-> sz]

ClassicFirstObjectRejected(b) ==
  \/ b = << >>
  \/ /\ b[1] \notin {255, 254, 128, 1} /\ b[1] > 127
     /\ ~ClassicDecodeSize(b).ok

\* 0xfd announces a 6-byte size field whose first digit is 1: size >= 2^40 > 2^34
MagicSizeLemma(tail5) ==
  LET d == ClassicDecodeSize(<< 253 >> \o tail5) IN
  /\ ~d.ok
  /\ NGe(NFromBE(<< 1 >> \o tail5), NShl(<< 1 >>, 40))
=============================================================================
