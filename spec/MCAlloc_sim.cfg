CONSTANTS
  Profile = "sim"
  MaxAtoms = 12
  MaxPairs = 6
  HeapLimit = 40
  SubstrOfInlineAtomCopies = FALSE
  MinSavings = 1024
  CloneAtomLimit = 48
INIT MCInit
NEXT MCNext
INVARIANTS InvRefines InvCaps InvStepLaw InvReads EmitCase
PROPERTIES MFailedUnchanged MImmutable
CHECK_DEADLOCK FALSE
