------------------------------- MODULE Interp -------------------------------
(***************************************************************************)
(* The run_program machine of clvm_rs (src/run_program.rs), as a function  *)
(* Step on a state record; Next == st' = Step(st).                         *)
(*                                                                         *)
(* Three stacks (values, environments, operations), a stack of softfork    *)
(* guards, the accumulated cost, the budget, and the allocator's public    *)
(* counters in their "as-if" meaning (Alloc.tla): every atom a separate    *)
(* byte string.  Heap reclamation (ENABLE_GC) therefore appears only as    *)
(* "restore" entries of the operation stack that change nothing at this    *)
(* level - that they change nothing in the mechanism is AllocMech's        *)
(* refinement and property C04.                                            *)
(*                                                                         *)
(* dialect: "chia"    ChiaDialect                                          *)
(*          "unaware" ChiaDialect with every softfork extension unknown    *)
(*                    and the 4-byte secp opcodes unassigned (C08)         *)
(*          "runtime" RuntimeDialect with the standard table (C30)         *)
(***************************************************************************)
EXTENDS Ops, SequencesExt

MaxAtoms == 62500000
MaxPairs == 62500000

\* opcodes that ChiaDialect treats as candidates for heap reclamation
GCOps == {2,7,9,10,11,13,16,17,18,19,20,21,22,23,24,25,26,27,29,30,32,33,34,48,49,50,51,56,58,59,60,61,62,63}

\* one-byte opcodes in RuntimeDialect's standard table (f_table::opcode_by_name)
RuntimeTable == (3..14) \cup (16..27) \cup {29, 30, 32, 33, 34} \cup (49..61)

---------------------------------------------------------------------------
(* allocator requests against the as-if counters *)

\* al = [atoms, pairs, heap, limit]   (limit < 0: the default 2^32-1, never reached here)
AllocOne(al, req) ==
  LET k == req[1]  n == req[2]
      oom == al.limit >= 0 /\ al.heap + n > al.limit
      full == al.atoms >= MaxAtoms
  IN  CASE k = "A" -> IF oom THEN [err |-> "OutOfMemory"] ELSE IF full THEN [err |-> "TooManyAtoms"]
                      ELSE [al EXCEPT !.atoms = @ + 1, !.heap = @ + n]
        [] k = "C" -> IF full THEN [err |-> "TooManyAtoms"] ELSE IF oom THEN [err |-> "OutOfMemory"]
                      ELSE [al EXCEPT !.atoms = @ + 1, !.heap = @ + n]
        [] k = "S" -> IF full THEN [err |-> "TooManyAtoms"] ELSE [al EXCEPT !.atoms = @ + 1]
        [] k = "P" -> IF al.pairs >= MaxPairs THEN [err |-> "TooManyPairs"] ELSE [al EXCEPT !.pairs = @ + 1]

RECURSIVE AllocAll(_, _, _)
AllocAll(al, reqs, i) ==
  IF i > Len(reqs) THEN al
  ELSE LET a1 == AllocOne(al, reqs[i])
       IN  IF "err" \in DOMAIN a1 THEN a1 ELSE AllocAll(a1, reqs, i + 1)

---------------------------------------------------------------------------
(* state helpers *)

Fail(s, kind) == [s EXCEPT !.status = "err", !.kind = kind]
AbstainS(s, why) == [s EXCEPT !.status = "abstain", !.kind = why]
Charge(s, n) == [s EXCEPT !.cost = NAdd(@, n)]
TopGuardSet(s) == IF s.sf = << >> THEN "default" ELSE Last(s.sf).set

\* uint_atom::<SIZE>: [ok, v (Nat)]
UintAtom(t, size, flags) ==
  IF IsPair(t) THEN [ok |-> FALSE]
  ELSE LET b == t.a
       IN  IF b = << >> THEN [ok |-> TRUE, v |-> << >>]
           ELSE IF b[1] >= 128 THEN [ok |-> FALSE]
           ELSE IF "CANONICAL_INTS" \in flags
                THEN IF b[1] = 0
                     THEN IF Len(b) < 2 \/ b[2] < 128 THEN [ok |-> FALSE]
                          ELSE IF Len(b) - 1 > size THEN [ok |-> FALSE]
                          ELSE [ok |-> TRUE, v |-> NFromBE(Tail(b))]
                     ELSE IF Len(b) > size THEN [ok |-> FALSE] ELSE [ok |-> TRUE, v |-> NFromBE(b)]
                ELSE LET v == NFromBE(b) IN IF Len(v) > size THEN [ok |-> FALSE] ELSE [ok |-> TRUE, v |-> v]

---------------------------------------------------------------------------
(* eval_pair: schedule the evaluation of `prog` in environment `envv`      *)

EvalPair(s, prog, envv) ==
  IF IsAtom(prog)
  THEN LET r == TraversePath(prog.a, envv)
       IN  IF r.st = "err" THEN Fail(s, r.kind)
           ELSE Charge([s EXCEPT !.val = Append(@, r.val)], N(r.cost))
  ELSE LET opn == prog.f
           opl == prog.r
       IN  IF IsPair(opn)
           THEN \* ((X) . args): X must be a lone atom inside a one-element list
                IF IsPair(opn.r) THEN Fail(s, "InvalidOpArg")
                ELSE IF IsPair(opn.f) THEN Fail(s, "InvalidOpArg")
                ELSE Charge([s EXCEPT !.env = Append(@, envv),
                                      !.val = @ \o << opn.f, opl >>,
                                      !.ops = Append(@, "apply")], N(90))
           ELSE IF SmallNumber(opn) = 1
                THEN Charge([s EXCEPT !.val = Append(@, opl)], N(20))
                ELSE LET items == Items(opl)
                         gc == s.dialect # "runtime" /\ "ENABLE_GC" \in s.flags /\ SmallNumber(opn) \in GCOps
                         ops1 == (IF gc THEN Append(s.ops, "restore") ELSE s.ops)
                                   \o << "apply" >> \o [i \in 1..Len(items) |-> "swap"]
                     IN  IF ~IsNil(Terminator(opl))
                         \* (the code has pushed everything but the final nil when it notices the terminator)
                         THEN Fail([s EXCEPT !.env = Append(@, envv), !.val = @ \o << opn >> \o items, !.ops = ops1],
                                   "InvalidNilTerminator")
                         ELSE Charge([s EXCEPT !.env = Append(@, envv),
                                               !.val = @ \o << opn >> \o items \o << Nil >>,
                                               !.ops = ops1], N(1))

---------------------------------------------------------------------------
(* operator dispatch per dialect *)

\* witness-based decision of cryptographic operators: the head of s.wit is the recorded
\* outcome of the next cryptographic call of this run
CryptoW(s) == IF s.wit = << >> THEN [st |-> "abstain", why |-> "cryptographic operator without witness"]
              ELSE LET w == Head(s.wit)
                   IN  IF w.ok THEN [st |-> "ok", cost |-> w.cost, val |-> TreeOf(w.val),
                                     al |-> w.al, w |-> TRUE]
                       ELSE [st |-> "err", kind |-> w.kind, w |-> TRUE]

SoftforkExtension(s, ext) ==
  \* ext is a Nat (u32)
  IF s.dialect # "chia" THEN "default"
  ELSE IF NewCM(s.flags) THEN (IF ext = << >> \/ ext = << 1 >> THEN "prehf" ELSE "default")
  ELSE IF ext = << >> THEN "bls" ELSE IF ext = << 1 >> THEN "keccak" ELSE "default"

DialectOp(s, opb, args, maxrem) ==
  LET Cr(o, a, m, f) == CryptoW(s)
  IN  IF s.dialect = "chia" THEN ChiaOp(opb, args, maxrem, s.flags, TopGuardSet(s), Cr)
      ELSE IF s.dialect = "unaware"
           THEN \* no extension is known, so no guard ever adds operators; secp opcodes are unassigned
                IF Len(opb) = 4 THEN UnknownOperator(opb, args, maxrem, s.flags)
                ELSE ChiaOp(opb, args, maxrem, s.flags, "default", Cr)
      ELSE \* runtime
           IF Len(opb) = 1 /\ opb[1] \in RuntimeTable
           THEN IF opb[1] \in PlainOps \/ opb[1] = 60 THEN
                     (IF opb[1] = 60 THEN OpModpow(args, maxrem, s.flags) ELSE Defined(opb[1], args, maxrem, s.flags))
                ELSE Cr(opb[1], args, maxrem, s.flags)
           ELSE UnknownOperator(opb, args, maxrem, s.flags)

---------------------------------------------------------------------------
(* the operations of the main loop *)

SoftforkOp(s, args, maxrem) ==
  IF IsAtom(args) THEN Fail(s, "InvalidOpArg")                       \* first() of non-cons
  ELSE LET ec == UintAtom(args.f, 8, s.flags)
       IN  IF ~ec.ok THEN Fail(s, "InvalidOpArg")
           ELSE IF NGt(ec.v, maxrem) \/ ec.v = << >> THEN Fail(s, "CostExceeded")
           ELSE LET it == Items(args)
                    lenient == "NO_UNKNOWN_OPS" \notin s.flags
                    \* parse_softfork_arguments
                    bad == IF Len(it) # 4 THEN "InvalidOpArg"
                           ELSE LET ex == UintAtom(it[2], 4, s.flags)
                                IN  IF ~ex.ok THEN "InvalidOpArg"
                                    ELSE IF SoftforkExtension(s, ex.v) = "default" THEN "UnknownSoftforkExtension"
                                    ELSE ""
                IN  IF bad # ""
                    THEN IF lenient THEN Charge([s EXCEPT !.val = Append(@, Nil)], ec.v)
                                    ELSE Fail(s, bad)
                    ELSE IF "LIMIT_SOFTFORK" \in s.flags /\ Len(s.sf) >= 20 THEN Fail(s, "SoftforkStackDepthExceeded")
                    ELSE LET set == SoftforkExtension(s, UintAtom(it[2], 4, s.flags).v)
                             expected == IF set = "prehf"
                                         THEN (IF s.sf # << >> THEN Last(s.sf).expected ELSE NAdd(s.cost, maxrem))
                                         ELSE NAdd(s.cost, ec.v)
                             g == [expected |-> expected, al |-> s.al, set |-> set, start |-> s.cost, declared |-> ec.v]
                             s1 == [s EXCEPT !.sf = Append(@, g), !.ops = Append(@, "exit"),
                                             !.exempt = @ \/ set = "prehf", !.guards = @ + 1]
                         IN  LET s2 == EvalPair(s1, it[3], it[4])
                             IN  IF s2.status # "run" THEN s2
                                 ELSE Charge(s2, N(IF NewCM(s.flags) THEN 500 ELSE 140))

ApplyOp(s, maxrem) ==
  LET n == Len(s.val)
      args == s.val[n]
      operator == s.val[n - 1]
      sm == SmallNumber(operator)
      \* history flag for C30: an operator outside RuntimeDialect's standard table (or a guard) was applied
      beyond == \/ sm = 36
                \/ (IsAtom(operator) /\ operator.a \in {<< 48 >>, Secp256k1Op, Secp256r1Op})
                \/ (sm = 62 /\ "ENABLE_KECCAK_OPS_OUTSIDE_GUARD" \in ExtFlags(s.flags, TopGuardSet(s)))
                \/ (sm = 63 /\ "ENABLE_SHA256_TREE" \in s.flags)
                \/ (sm \in {64, 65} /\ "ENABLE_SECP_OPS" \in s.flags)
      s1 == [s EXCEPT !.val = SubSeq(@, 1, n - 2), !.env = Front(@), !.beyond = @ \/ beyond]
  IN  IF sm = 2
      THEN LET it == Items(args)
           IN  IF Len(it) # 2 THEN Fail(s1, "InvalidOpArg")
               ELSE LET s2 == EvalPair(s1, it[1], it[2])
                    IN  IF s2.status # "run" THEN s2 ELSE Charge(s2, N(90))
      ELSE IF sm = 36 THEN SoftforkOp(s1, args, maxrem)
      ELSE LET r == DialectOp(s1, operator.a, args, maxrem)
               s2 == IF "w" \in DOMAIN r THEN [s1 EXCEPT !.wit = Tail(@)] ELSE s1
           IN  IF r.st = "err" THEN Fail(s2, r.kind)
               ELSE IF r.st = "abstain" THEN AbstainS(s2, r.why)
               ELSE LET al1 == AllocAll(s2.al, r.al, 1)
                    IN  IF "err" \in DOMAIN al1 THEN Fail(s2, al1.err)
                        ELSE Charge([s2 EXCEPT !.val = Append(@, r.val), !.al = al1], r.cost)

ConsOp(s) ==
  LET n == Len(s.val)
      v1 == s.val[n]
      v2 == s.val[n - 1]
      al1 == AllocOne(s.al, << "P", 0 >>)
  IN  IF "err" \in DOMAIN al1 THEN Fail(s, al1.err)
      ELSE [s EXCEPT !.val = Append(SubSeq(@, 1, n - 2), P(v1, v2)), !.al = al1]

SwapOp(s) ==
  LET n == Len(s.val)
      v2 == s.val[n]
      prog == s.val[n - 1]
      s1 == [s EXCEPT !.val = Append(SubSeq(@, 1, n - 2), v2), !.ops = Append(@, "cons")]
  IN  EvalPair(s1, prog, Last(s.env))

ExitOp(s) ==
  LET g == Last(s.sf)
  IN  IF g.set # "prehf" /\ s.cost # g.expected THEN Fail(s, "SoftforkCostMismatch")
      ELSE [s EXCEPT !.sf = Front(@), !.al = g.al, !.val = Append(Front(@), Nil)]

EffectiveMax(s) == IF s.sf # << >> THEN Last(s.sf).expected ELSE s.maxc

Step(s) ==
  LET emax == EffectiveMax(s)
  IN  IF NGt(s.cost, emax) THEN Fail(s, "CostExceeded")
      ELSE IF s.ops = << >> THEN [s EXCEPT !.status = "ok"]
      ELSE LET op == Last(s.ops)
               s1 == [s EXCEPT !.ops = Front(@), !.steps = @ + 1]
           IN  CASE op = "apply" -> ApplyOp(s1, NSub(emax, s.cost))
                 [] op = "cons" -> ConsOp(s1)
                 [] op = "swap" -> SwapOp(s1)
                 [] op = "exit" -> ExitOp(s1)
                 [] op = "restore" -> s1

\* initial state of a run: budget 0 means 2^64-1; one ghost atom for the budget
Start(prog, envv, budget, flags, dialect, al0, wit) ==
  LET fl == IF dialect # "runtime" /\ "NEW_COST_MODEL" \in flags THEN flags \ {"LIMITS"} ELSE flags
      s0 == [val |-> << >>, env |-> << >>, ops |-> << >>, sf |-> << >>,
             cost |-> << >>, maxc |-> IF budget = << >> THEN U64Max ELSE budget,
             flags |-> fl, dialect |-> dialect, al |-> al0, status |-> "run", kind |-> "",
             exempt |-> FALSE, beyond |-> FALSE, guards |-> 0, steps |-> 0, wit |-> wit]
  IN  IF al0.atoms >= MaxAtoms THEN Fail(s0, "TooManyAtoms")
      ELSE EvalPair([s0 EXCEPT !.al.atoms = @ + 1], prog, envv)

FreshAl == [atoms |-> 2, pairs |-> 0, heap |-> 1, limit |-> -1]

\* the property-level outcome of a finished run
Outcome(s) ==
  CASE s.status = "ok" -> [st |-> "ok", cost |-> s.cost, val |-> Last(s.val)]
    [] s.status = "err" -> [st |-> "err", kind |-> s.kind]
    [] OTHER -> [st |-> s.status, why |-> s.kind]
=============================================================================
