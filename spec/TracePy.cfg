INIT Init
NEXT Next
INVARIANT Done
CHECK_DEADLOCK FALSE
