----------------------------- MODULE ApaVarint -----------------------------
(***************************************************************************)
(* C21, unbounded side lemma (Apalache): the widths of serde_2026 varints  *)
(* partition the 56-bit range.                                             *)
(*                                                                         *)
(* A value v fits a k-byte varint (k = 1..8) iff                           *)
(*        -2^(7k-1) <= v <= 2^(7k-1) - 1         (Varint.tla, FitsWidth)   *)
(* Lemma, for EVERY integer v:                                             *)
(*   Nested     fits k  =>  fits k+1                                       *)
(*   Partition  if -2^55 <= v <= 2^55-1 there is exactly one k in 1..8     *)
(*              with  fits k  and not  fits k-1  (the minimal width);      *)
(*              it is the first fitting width (MinWidth of Varint.tla) and *)
(*              it is characterised by the two half-open bands             *)
(*              [-2^(7k-1), -2^(7k-8))  and  [2^(7k-8), 2^(7k-1))          *)
(*   Total      some width fits  <=>  v is in the 56-bit range             *)
(* Pure linear integer arithmetic; the eight powers are written out.       *)
(*                                                                         *)
(* Obligations:                                                            *)
(*   1  --init=InitRange --inv=Partition --length=0                        *)
(*   2  --init=InitAny   --inv=Nested    --length=0                        *)
(*   3  --init=InitAny   --inv=Total     --length=0                        *)
(*   4  --init=InitRange --inv=Bands     --length=0                        *)
(***************************************************************************)
EXTENDS Integers

VARIABLE
  \* @type: Int;
  v

\* 2^(7k-1), and 0 for k = 0 (no value fits "width 0")
\* @type: (Int) => Int;
Half(k) ==
  IF k = 1 THEN 64                       \* 2^6
  ELSE IF k = 2 THEN 8192                \* 2^13
  ELSE IF k = 3 THEN 1048576             \* 2^20
  ELSE IF k = 4 THEN 134217728           \* 2^27
  ELSE IF k = 5 THEN 17179869184         \* 2^34
  ELSE IF k = 6 THEN 2199023255552       \* 2^41
  ELSE IF k = 7 THEN 281474976710656     \* 2^48
  ELSE IF k = 8 THEN 36028797018963968   \* 2^55
  ELSE 0

\* @type: (Int, Int) => Bool;
Fits(x, k) == k >= 1 /\ k <= 8 /\ 0 - Half(k) <= x /\ x <= Half(k) - 1

\* @type: (Int) => Bool;
InRange(x) == 0 - 36028797018963968 <= x /\ x <= 36028797018963968 - 1

\* k is the minimal width of x
\* @type: (Int, Int) => Bool;
Minimal(x, k) == Fits(x, k) /\ ~Fits(x, k - 1)

InitAny == v \in Int
InitRange == v \in Int /\ InRange(v)
Next == UNCHANGED v

Nested == \A k \in 1..7 : Fits(v, k) => Fits(v, k + 1)

Partition ==
  /\ \E k \in 1..8 : Minimal(v, k)
  /\ \A j \in 1..8 : \A k \in 1..8 : (Minimal(v, j) /\ Minimal(v, k)) => j = k
  \* the minimal width is the first width that fits (the definition Varint.tla uses)
  /\ \A k \in 1..8 : Minimal(v, k) <=> (Fits(v, k) /\ \A j \in 1..8 : j < k => ~Fits(v, j))

Total == (\E k \in 1..8 : Fits(v, k)) <=> InRange(v)

Bands ==
  \A k \in 1..8 :
    Minimal(v, k) <=> \/ (0 - Half(k) <= v /\ v < 0 - Half(k - 1))
                      \/ (Half(k - 1) <= v /\ v < Half(k))
=============================================================================
