------------------------------ MODULE TreeHash ------------------------------
(***************************************************************************)
(* The CLVM tree hash (properties C22, C24).                               *)
(*                                                                         *)
(* Trees are the JSON-shaped values of CONVENTIONS.md:                     *)
(*   atom [a |-> <<bytes>>]        pair [f |-> x, r |-> y]                  *)
(*                                                                         *)
(* Declarative definition (what the property refers to):                   *)
(*   TH(atom) = SHA256(<<1>> \o bytes)                                     *)
(*   TH(pair) = SHA256(<<2>> \o TH(f) \o TH(r))                            *)
(* SHA256 is Prim!SHA256, the one Java override (JDK MessageDigest).       *)
(*                                                                         *)
(* Then, written from the code, the four iterative hashers as small-step   *)
(* machines (one Step per iteration of the real `while let Some(op) =      *)
(* ops.pop()` loop).  MCHash carries them through `Next` and checks that   *)
(* every one of them computes TH:                                          *)
(*   HM  src/treehash.rs        tree_hash_costed (ops / hashes stacks,     *)
(*                              PRECOMPUTED_HASHES for inline small atoms) *)
(*   SM  src/serde/tools.rs     tree_hash_from_stream (byte cursor)        *)
(*   TM  src/serde/de_tree.rs   parse_triples with calculate_tree_hashes   *)
(*   (the ObjectCache machine works on node identities; it is in Intern.tla*)
(*    next to the source-heap model.)                                      *)
(***************************************************************************)
EXTENDS Prim, FiniteSets

IsAtom(t) == "a" \in DOMAIN t

\* Trees read from a trace may be in the FLAT form of CONVENTIONS.md ("Nesting limit"):
\* [t |-> << node, .. >>], node = [a |-> bytes] or [p |-> <<i, j>>] (1-based earlier
\* entries, root last).  TreeOf accepts both forms (same definition as Sexp!TreeOf).
RECURSIVE BuildFlat(_, _)
BuildFlat(tab, i) ==
  IF "a" \in DOMAIN tab[i] THEN [a |-> tab[i].a]
  ELSE [f |-> BuildFlat(tab, tab[i].p[1]), r |-> BuildFlat(tab, tab[i].p[2])]
TreeOf(j) == IF "t" \in DOMAIN j THEN BuildFlat(j.t, Len(j.t)) ELSE j

---------------------------------------------------------------------------
(* Declarative definition.                                                 *)

HashAtom(bytes)  == SHA256(<< 1 >> \o bytes)
HashPair(hl, hr) == SHA256(<< 2 >> \o hl \o hr)

RECURSIVE TH(_)
TH(t) == IF IsAtom(t) THEN HashAtom(t.a) ELSE HashPair(TH(t.f), TH(t.r))

\* The hashes of all sub-trees in pre-order (node, left sub-tree, right sub-tree);
\* PH(t)[1] = TH(t).  Every node is hashed exactly once (linear in the tree).
RECURSIVE PH(_)
PH(t) == IF IsAtom(t) THEN << HashAtom(t.a) >>
         ELSE LET l == PH(t.f)
                  r == PH(t.r)
              IN  << HashPair(l[1], r[1]) >> \o l \o r

RECURSIVE Size(_)
Size(t) == IF IsAtom(t) THEN 1 ELSE 1 + Size(t.f) + Size(t.r)

---------------------------------------------------------------------------
(* Classic serialization of a tree (src/serde/ser.rs, write_atom.rs): the  *)
(* input of the two byte-level hashers and the "identical serialization"   *)
(* clause of C24.  Length prefixes of up to 4 bytes (atoms < 2^27 bytes);  *)
(* longer atoms are outside what TLC holds (SerCap).                       *)

SerCap == 134217728       \* 0x8000000

AtomPrefix(bytes) ==
  LET n == Len(bytes) IN
  IF n = 0 THEN << 128 >>
  ELSE IF n = 1 /\ bytes[1] < 128 THEN << >>
  ELSE IF n < 64 THEN << 128 + n >>
  ELSE IF n < 8192 THEN << 192 + (n \div 256), n % 256 >>
  ELSE IF n < 1048576 THEN << 224 + (n \div 65536), (n \div 256) % 256, n % 256 >>
  ELSE << 240 + (n \div 16777216), (n \div 65536) % 256, (n \div 256) % 256, n % 256 >>

RECURSIVE Ser(_)
Ser(t) == IF IsAtom(t) THEN AtomPrefix(t.a) \o t.a
          ELSE << 255 >> \o Ser(t.f) \o Ser(t.r)

\* number of leading one bits of a byte
RECURSIVE LeadingOnes(_)
LeadingOnes(b) == IF b < 128 THEN 0 ELSE 1 + LeadingOnes((b * 2) % 256)

RECURSIVE BE(_)
BE(ds) == IF ds = << >> THEN 0 ELSE BE(SubSeq(ds, 1, Len(ds) - 1)) * 256 + ds[Len(ds)]

\* decode_size_with_offset: first byte b >= 0x80 at position p of bs
\* -> [off |-> prefix length, size |-> atom length]   (prefixes of <= 4 bytes)
DecodeSize(bs, p) ==
  LET k   == LeadingOnes(bs[p])
      top == bs[p] % (IF k = 1 THEN 128 ELSE IF k = 2 THEN 64 ELSE IF k = 3 THEN 32 ELSE 16)
  IN  [off |-> k, size |-> BE(<< top >> \o SubSeq(bs, p + 1, p + k - 1))]

---------------------------------------------------------------------------
(* Representation of an atom in the allocator: `fits_in_small_atom`.       *)
(* An atom created by new_atom is stored inline (NodeVisitor::U32) iff it  *)
(* is the canonical encoding of a non-negative integer below 2^26.         *)

FitsSmall(v) ==
  ~ ( /\ v # << >>
      /\ \/ Len(v) > 4
         \/ Len(v) = 1 /\ v[1] = 0
         \/ v[1] >= 128
         \/ v[1] = 0 /\ v[2] < 128          \* Len(v) >= 2 here
         \/ Len(v) = 4 /\ v[1] > 3 )

SmallVal(v) == BE(v)                          \* only for FitsSmall(v): < 2^26

\* `atom()` of an inline node: the bytes the allocator reports for value n (len_for_value)
SmallBytes(n) ==
  IF n = 0 THEN << >>
  ELSE IF n < 128 THEN << n >>
  ELSE IF n < 32768 THEN << n \div 256, n % 256 >>
  ELSE IF n < 8388608 THEN << n \div 65536, (n \div 256) % 256, n % 256 >>
  ELSE << n \div 16777216, (n \div 65536) % 256, (n \div 256) % 256, n % 256 >>

\* PRECOMPUTED_HASHES (src/more_ops.rs): entry i is documented as SHA256(1 .. i),
\* entry 0 as SHA256(1).  The table's *content* in the code is checked by the traces.
PrecomputedLen == 37
Precomputed(i) == IF i = 0 THEN SHA256(<< 1 >>) ELSE SHA256(<< 1, i >>)

---------------------------------------------------------------------------
(* HM: tree_hash_costed.  `inline` = atoms that fit are stored inline      *)
(* (U32 arm, uses the table); otherwise every atom is a heap buffer.       *)
(* Operation stack entries [k, n]; the code pushes Cons, left, right, so   *)
(* the RIGHT sub-tree is hashed first and Cons pops first, then rest.      *)

NilT == [a |-> << >>]

HMInit(t) == [ops |-> << [k |-> "sexp", n |-> t] >>, hashes |-> << >>]
HMDone(s) == s.ops = << >>
HMResult(s) == s.hashes                       \* the code asserts Len = 1

HMAtom(bytes, inline) ==
  IF inline /\ FitsSmall(bytes)
  THEN IF SmallVal(bytes) < PrecomputedLen THEN Precomputed(SmallVal(bytes))
       ELSE HashAtom(SmallBytes(SmallVal(bytes)))
  ELSE HashAtom(bytes)

HMStep(s, inline) ==
  LET n    == Len(s.ops)
      op   == s.ops[n]
      rest == SubSeq(s.ops, 1, n - 1)
      h    == Len(s.hashes)
  IN  IF op.k = "sexp"
      THEN IF IsAtom(op.n)
           THEN [ops |-> rest, hashes |-> Append(s.hashes, HMAtom(op.n.a, inline))]
           ELSE [ops |-> rest \o << [k |-> "cons", n |-> NilT],
                                    [k |-> "sexp", n |-> op.n.f],
                                    [k |-> "sexp", n |-> op.n.r] >>,
                 hashes |-> s.hashes]
      ELSE LET first == s.hashes[h]
               rst   == s.hashes[h - 1]
           IN  [ops |-> rest, hashes |-> Append(SubSeq(s.hashes, 1, h - 2), HashPair(first, rst))]

---------------------------------------------------------------------------
(* SM: tree_hash_from_stream over the byte string bs (cursor pos, 1-based  *)
(* index of the next byte).  ops entries are "sexp" / "cons"; the code     *)
(* pushes Cons, SExp, SExp: the LEFT sub-tree is parsed first; Cons pops   *)
(* v2 then v1.  `err` models the Err returns (truncated input).            *)

SMInit(bs) == [bs |-> bs, pos |-> 1, ops |-> << "sexp" >>, values |-> << >>, err |-> FALSE]
SMDone(s) == s.err \/ s.ops = << >>
SMResult(s) == s.values                       \* the code pops the last one

SMStep(s) ==
  LET n    == Len(s.ops)
      op   == s.ops[n]
      rest == SubSeq(s.ops, 1, n - 1)
      v    == Len(s.values)
  IN  IF op = "sexp"
      THEN IF s.pos > Len(s.bs) THEN [s EXCEPT !.err = TRUE]
           ELSE LET b == s.bs[s.pos] IN
                IF b = 255 THEN [s EXCEPT !.pos = s.pos + 1, !.ops = rest \o << "cons", "sexp", "sexp" >>]
                ELSE IF b = 128 THEN [s EXCEPT !.pos = s.pos + 1, !.ops = rest,
                                               !.values = Append(s.values, HashAtom(<< >>))]
                ELSE IF b < 128 THEN [s EXCEPT !.pos = s.pos + 1, !.ops = rest,
                                               !.values = Append(s.values, HashAtom(<< b >>))]
                ELSE LET k == LeadingOnes(b) IN
                     IF k > 4 \/ s.pos + k - 1 > Len(s.bs) THEN [s EXCEPT !.err = TRUE]
                     ELSE LET d     == DecodeSize(s.bs, s.pos)
                              start == s.pos + d.off
                          IN  IF start + d.size - 1 > Len(s.bs) THEN [s EXCEPT !.err = TRUE]
                              ELSE [s EXCEPT !.pos = start + d.size, !.ops = rest,
                                             !.values = Append(s.values,
                                                HashAtom(SubSeq(s.bs, start, start + d.size - 1)))]
      ELSE LET v2 == s.values[v]
               v1 == s.values[v - 1]
           IN  [s EXCEPT !.ops = rest, !.values = Append(SubSeq(s.values, 1, v - 2), HashPair(v1, v2))]

---------------------------------------------------------------------------
(* TM: parse_triples(f, calculate_tree_hashes = true).  r is the triple    *)
(* vector reduced to what the hashes depend on (is-pair, right_index);     *)
(* hs the hash vector, indexed like r (pre-order).  Indices are 1-based.   *)
(* Operations: [k |-> "parse"], [k |-> "end", i], [k |-> "right", i].      *)

ZeroHash == [i \in 1..32 |-> 0]

TMInit(bs) == [bs |-> bs, pos |-> 1, ops |-> << [k |-> "parse", i |-> 0] >>,
               r |-> << >>, hs |-> << >>, err |-> FALSE]
TMDone(s) == s.err \/ s.ops = << >>
TMResult(s) == s.hs

TMStep(s) ==
  LET n    == Len(s.ops)
      op   == s.ops[n]
      rest == SubSeq(s.ops, 1, n - 1)
  IN  IF op.k = "parse"
      THEN IF s.pos > Len(s.bs) THEN [s EXCEPT !.err = TRUE]
           ELSE LET b == s.bs[s.pos] IN
                IF b = 255
                THEN LET index == Len(s.r) + 1 IN
                     [s EXCEPT !.pos = s.pos + 1,
                               !.r   = Append(s.r, [pair |-> TRUE, right |-> 0]),
                               !.hs  = Append(s.hs, ZeroHash),
                               !.ops = rest \o << [k |-> "end", i |-> index], [k |-> "parse", i |-> 0],
                                                  [k |-> "right", i |-> index], [k |-> "parse", i |-> 0] >>]
                ELSE IF b < 128
                THEN [s EXCEPT !.pos = s.pos + 1, !.ops = rest,
                               !.r  = Append(s.r, [pair |-> FALSE, right |-> 0]),
                               !.hs = Append(s.hs, SHA256(<< 1, b >>))]
                ELSE LET k == LeadingOnes(b) IN
                     IF k > 4 \/ s.pos + k - 1 > Len(s.bs) THEN [s EXCEPT !.err = TRUE]
                     ELSE LET d     == DecodeSize(s.bs, s.pos)
                              start == s.pos + d.off
                          IN  IF start + d.size - 1 > Len(s.bs) THEN [s EXCEPT !.err = TRUE]
                              ELSE [s EXCEPT !.pos = start + d.size, !.ops = rest,
                                             !.r  = Append(s.r, [pair |-> FALSE, right |-> 0]),
                                             !.hs = Append(s.hs,
                                                HashAtom(SubSeq(s.bs, start, start + d.size - 1)))]
      ELSE IF op.k = "right"
      THEN [s EXCEPT !.ops = rest, !.r[op.i].right = Len(s.r) + 1]
      ELSE \* "end": left child is the next index, right child is right_index
           [s EXCEPT !.ops = rest,
                     !.hs[op.i] = HashPair(s.hs[op.i + 1], s.hs[s.r[op.i].right])]
=============================================================================
