-------------------------------- MODULE Ops --------------------------------
(***************************************************************************)
(* The CLVM operators of ChiaDialect, one definition per operator, in the  *)
(* code's order of checks (so that the error KIND and every early budget   *)
(* check is the code's), for both cost models.                             *)
(*                                                                         *)
(* An operator application  Op(args, max, flags)  takes the evaluated      *)
(* argument list (a CLVM list value), the remaining budget `max` (BigInt   *)
(* Nat) and the flag set, and returns one of                               *)
(*   [st |-> "ok",  cost |-> Nat, val |-> value, al |-> allocations]       *)
(*   [st |-> "err", kind |-> EvalErr variant name]                         *)
(*   [st |-> "abstain", why |-> ..]    the specification does not decide   *)
(*        this call (operand above the evaluation cap, or a cryptographic  *)
(*        primitive without a supplied witness)                            *)
(* `al` lists the allocator requests the call makes, in order:             *)
(*   <<"A", n>> new atom of n bytes (heap checked before atom count)       *)
(*   <<"C", n>> new_concat of n bytes (atom count checked before heap)     *)
(*   <<"S", 0>> new_substr (atom count only, shares the parent's bytes)    *)
(*   <<"P", 0>> new pair                                                   *)
(* Costs are BigInt Nats (they reach 2^64).                                *)
(***************************************************************************)
EXTENDS Sexp, Prim

Ok(cost, val, al) == [st |-> "ok", cost |-> cost, val |-> val, al |-> al]
Err(kind) == [st |-> "err", kind |-> kind]
Abstain(why) == [st |-> "abstain", why |-> why]
Over(cost, max) == NGt(cost, max)

NewCM(flags) == "NEW_COST_MODEL" \in flags

\* evaluation caps of the specification (bytes); beyond them a call is not decided
\* (pure-TLA+ bignum arithmetic costs about 0.1 s per 20-byte modular multiplication)
LinCap == 2200
QuadCap == 4096            \* product of operand lengths for * / % divmod
ModpowCap == 3000          \* esize * 8 * msize * msize

\* byte length of an atom; traces may carry a very large atom symbolically as
\* [a |-> <<>>, n |-> length] when only its length can matter (unknown operators)
ALen(t) == IF "n" \in DOMAIN t THEN t.n ELSE Len(t.a)
MallocCost(n) == N(10 * n)
AtomAl(bytes) == << << "A", Len(bytes) >> >>
NumAtom(z) == A(ZToAtom(z))

\* get_args::<N>: exactly N arguments (terminator ignored), else InvalidOpArg
\* (expressed at each use: Len(Items(args)) = N)

\* i32_atom: NONE when not representable
I32None == 100000000
I32Of(bytes) ==
  IF bytes = << >> THEN 0
  ELSE IF Len(bytes) > 4 THEN I32None
  ELSE LET z == ZFromAtom(bytes)
       IN  IF z[1] THEN 0 - NToInt(z[2]) ELSE NToInt(z[2])
\* note: a 4-byte atom is within +-2^31, which NToInt handles only below 2^31;
\* -2^31 (0x80000000) has magnitude 2^31: treat separately
I32Safe(bytes) ==
  IF Len(bytes) = 4 /\ bytes = << 128, 0, 0, 0 >> THEN 0 - 2147483647 - 1 ELSE I32Of(bytes)

---------------------------------------------------------------------------
(* core operators *)

OpIf(args, max, flags) ==
  LET it == Items(args)
  IN  IF Len(it) # 3 THEN Err("InvalidOpArg")
      ELSE Ok(N(IF NewCM(flags) THEN 330 ELSE 33), IF IsNil(it[1]) THEN it[3] ELSE it[2], << >>)

OpCons(args, max, flags) ==
  LET it == Items(args)
  IN  IF Len(it) # 2 THEN Err("InvalidOpArg")
      ELSE Ok(N(50), P(it[1], it[2]), << << "P", 0 >> >>)

OpFirst(args, max, flags) ==
  LET it == Items(args)
  IN  IF Len(it) # 1 THEN Err("InvalidOpArg")
      ELSE IF IsAtom(it[1]) THEN Err("InvalidOpArg")
      ELSE Ok(N(30), it[1].f, << >>)

OpRest(args, max, flags) ==
  LET it == Items(args)
  IN  IF Len(it) # 1 THEN Err("InvalidOpArg")
      ELSE IF IsAtom(it[1]) THEN Err("InvalidOpArg")
      ELSE Ok(N(30), it[1].r, << >>)

OpListp(args, max, flags) ==
  LET it == Items(args)
  IN  IF Len(it) # 1 THEN Err("InvalidOpArg")
      ELSE Ok(N(IF NewCM(flags) THEN 200 ELSE 19), Bool(IsPair(it[1])), << >>)

OpRaise(args, max, flags) == Err("Raise")

OpEq(args, max, flags) ==
  LET it == Items(args)
  IN  IF Len(it) # 2 THEN Err("InvalidOpArg")
      ELSE IF IsPair(it[1]) \/ IsPair(it[2]) THEN Err("InvalidOpArg")
      ELSE Ok(N(117 + ALen(it[1]) + ALen(it[2])), Bool(it[1].a = it[2].a), << >>)

---------------------------------------------------------------------------
(* byte-string operators *)

\* lexicographic comparison of byte strings (Rust slice ordering): x > y
RECURSIVE BytesGt(_, _, _)
BytesGt(x, y, i) ==
  IF i > Len(x) THEN FALSE
  ELSE IF i > Len(y) THEN TRUE
  ELSE IF x[i] > y[i] THEN TRUE
  ELSE IF x[i] < y[i] THEN FALSE
  ELSE BytesGt(x, y, i + 1)

OpGrBytes(args, max, flags) ==
  LET it == Items(args)
  IN  IF Len(it) # 2 THEN Err("InvalidOpArg")
      ELSE IF IsPair(it[1]) \/ IsPair(it[2]) THEN Err("InvalidOpArg")
      ELSE Ok(N(117 + ALen(it[1]) + ALen(it[2])), Bool(BytesGt(it[1].a, it[2].a, 1)), << >>)

\* sha256 / keccak-shaped loop: per argument  +perArg, pair -> error, +len*perByte, budget check
RECURSIVE HashLoop(_, _, _, _, _, _, _)
\* returns [st, cost, data]
HashLoop(it, i, cost, data, perArg, perByte, max) ==
  IF i > Len(it) THEN [st |-> "ok", cost |-> cost, data |-> data]
  ELSE IF IsPair(it[i]) THEN [st |-> "err", kind |-> "InvalidOpArg"]
  ELSE LET c == NAdd(cost, NAdd(N(perArg), NMulI(N(ALen(it[i])), perByte)))
       IN  IF Over(c, max) THEN [st |-> "err", kind |-> "CostExceeded"]
           ELSE HashLoop(it, i + 1, c, data \o it[i].a, perArg, perByte, max)

OpSha256(args, max, flags) ==
  LET new == NewCM(flags)
      r == HashLoop(Items(args), 1, N(IF new THEN 1000 ELSE 87), << >>,
                    IF new THEN 160 ELSE 134, IF new THEN 6 ELSE 2, max)
  IN  IF r.st = "err" THEN Err(r.kind)
      ELSE LET h == SHA256(r.data) IN Ok(NAdd(r.cost, MallocCost(32)), A(h), AtomAl(h))

OpStrlen(args, max, flags) ==
  LET it == Items(args)
  IN  IF Len(it) # 1 THEN Err("InvalidOpArg")
      ELSE IF IsPair(it[1]) THEN Err("InvalidOpArg")
      ELSE LET n == ALen(it[1])
               res == ZToAtom(ZI(n))
           IN  Ok(NAdd(N(173 + n), MallocCost(Len(res))), A(res), AtomAl(res))

OpSubstr(args, max, flags) ==
  LET it == Items(args)
      argc == Len(it)
  IN  IF argc > 3 THEN Err("InvalidOpArg")
      ELSE IF argc < 2 THEN Err("InvalidOpArg")
      ELSE IF IsPair(it[1]) THEN Err("InvalidOpArg")
      ELSE IF IsPair(it[2]) THEN Err("InvalidOpArg")
      ELSE LET size == ALen(it[1])
               start == I32Safe(it[2].a)
           IN  IF start = I32None THEN Err("InvalidOpArg")
               ELSE IF argc = 3 /\ IsPair(it[3]) THEN Err("InvalidOpArg")
               ELSE LET end == IF argc = 3 THEN I32Safe(it[3].a) ELSE size
                    IN  IF end = I32None THEN Err("InvalidOpArg")
                        ELSE IF end < 0 \/ start < 0 \/ end > size \/ end < start THEN Err("InvalidOpArg")
                        ELSE Ok(N(IF NewCM(flags) THEN 2000 ELSE 1),
                                A(SubSeq(it[1].a, start + 1, end)), << << "S", 0 >> >>)

RECURSIVE ConcatLoop(_, _, _, _, _)
ConcatLoop(it, i, cost, data, max) ==
  IF i > Len(it) THEN [st |-> "ok", cost |-> cost, data |-> data]
  ELSE IF IsPair(it[i]) THEN [st |-> "err", kind |-> "InvalidOpArg"]
  ELSE LET c == NAdd(cost, NAdd(N(135), NMulI(N(ALen(it[i])), 13)))
       IN  IF Over(c, max) THEN [st |-> "err", kind |-> "CostExceeded"]
           ELSE ConcatLoop(it, i + 1, c, data \o it[i].a, max)

OpConcat(args, max, flags) ==
  LET r == ConcatLoop(Items(args), 1, N(142), << >>, max)
  IN  IF r.st = "err" THEN Err(r.kind)
      ELSE Ok(r.cost, A(r.data), << << "C", Len(r.data) >> >>)

---------------------------------------------------------------------------
(* arithmetic *)

\* + : per argument  +perArg ; pair -> InvalidOpArg ; +bytes ; budget check
RECURSIVE AddLoop(_, _, _, _, _, _)
AddLoop(it, i, cost, acc, new, max) ==
  IF i > Len(it) THEN [st |-> "ok", cost |-> cost, acc |-> acc]
  ELSE IF IsPair(it[i]) THEN [st |-> "err", kind |-> "InvalidOpArg"]
  ELSE LET len == ALen(it[i])
           c == NAdd(cost, IF new THEN N(500 + 4 * Max2(ZLimbs(acc), len)) ELSE N(320 + 3 * len))
       IN  IF Over(c, max) THEN [st |-> "err", kind |-> "CostExceeded"]
           ELSE AddLoop(it, i + 1, c, ZAdd(acc, ZFromAtom(it[i].a)), new, max)

OpAdd(args, max, flags) ==
  LET r == AddLoop(Items(args), 1, N(99), ZZero, NewCM(flags), max)
  IN  IF r.st = "err" THEN Err(r.kind)
      ELSE LET res == ZToAtom(r.acc) IN Ok(NAdd(r.cost, MallocCost(Len(res))), A(res), AtomAl(res))

\* - : per argument  +perArg ; budget check ; pair -> InvalidOpArg ; +bytes ; budget check
RECURSIVE SubLoop(_, _, _, _, _, _)
SubLoop(it, i, cost, acc, new, max) ==
  IF i > Len(it) THEN [st |-> "ok", cost |-> cost, acc |-> acc]
  ELSE LET c1 == NAdd(cost, N(IF new THEN 500 ELSE 320))
       IN  IF Over(c1, max) THEN [st |-> "err", kind |-> "CostExceeded"]
           ELSE IF IsPair(it[i]) THEN [st |-> "err", kind |-> "InvalidOpArg"]
           ELSE LET len == ALen(it[i])
                    c == NAdd(c1, IF new THEN N(4 * Max2(ZLimbs(acc), len)) ELSE N(3 * len))
                    v == ZFromAtom(it[i].a)
                IN  IF Over(c, max) THEN [st |-> "err", kind |-> "CostExceeded"]
                    ELSE SubLoop(it, i + 1, c, IF i = 1 THEN v ELSE ZSub(acc, v), new, max)

OpSubtract(args, max, flags) ==
  LET r == SubLoop(Items(args), 1, N(99), ZZero, NewCM(flags), max)
  IN  IF r.st = "err" THEN Err(r.kind)
      ELSE LET res == ZToAtom(r.acc) IN Ok(NAdd(r.cost, MallocCost(Len(res))), A(res), AtomAl(res))

\* * : first argument loads the accumulator; every further one multiplies
RECURSIVE MulLoop(_, _, _, _, _, _, _, _)
MulLoop(it, i, cost, total, l0, new, limits, max) ==
  IF i > Len(it) THEN [st |-> "ok", cost |-> cost, acc |-> total]
  ELSE IF IsPair(it[i]) THEN [st |-> "err", kind |-> "InvalidOpArg"]
  ELSE LET l1 == ALen(it[i])
       IN  IF limits /\ l1 > 256 THEN [st |-> "err", kind |-> "InvalidOpArg"]
           ELSE LET c == NAdd(cost, NAdd(N(885),
                             NAdd(NMulI(N(l0 + l1), 6),
                                  NDivSmall(NMul(N(l0), N(l1)), IF new THEN 16 ELSE 128)[1])))
                IN  IF Over(c, max) THEN [st |-> "err", kind |-> "CostExceeded"]
                    ELSE IF l0 > QuadCap \/ l1 > QuadCap \/ l0 * l1 > QuadCap
                         THEN [st |-> "abstain", why |-> "multiply operands above cap"]
                    ELSE LET t == ZMul(total, ZFromAtom(it[i].a))
                             nl == ZLimbs(t)
                         IN  IF limits /\ nl > 1024 THEN [st |-> "err", kind |-> "InvalidOpArg"]
                             ELSE MulLoop(it, i + 1, c, t, nl, new, limits, max)

OpMultiply(args, max, flags) ==
  LET it == Items(args)
      new == NewCM(flags)
      limits == "LIMITS" \in flags /\ ~new
      base == N(IF new THEN 2000 ELSE 92)
  IN  IF it = << >> THEN Ok(NAdd(base, MallocCost(1)), One, AtomAl(<< 1 >>))
      ELSE IF IsPair(it[1]) THEN Err("InvalidOpArg")
      ELSE LET l0 == ALen(it[1])
           IN  IF limits /\ l0 > 256 THEN Err("InvalidOpArg")
               ELSE LET c0 == IF new THEN NAdd(base, NMulI(N(l0), 6)) ELSE base
                    IN  IF new /\ Over(c0, max) THEN Err("CostExceeded")
                        ELSE LET r == MulLoop(it, 2, c0, ZFromAtom(it[1].a), l0, new, limits, max)
                             IN  IF r.st = "err" THEN Err(r.kind)
                                 ELSE IF r.st = "abstain" THEN Abstain(r.why)
                                 ELSE LET res == ZToAtom(r.acc)
                                      IN  Ok(NAdd(r.cost, MallocCost(Len(res))), A(res), AtomAl(res))

\* shared front part of / divmod %  : argument and flag checks, cost, division by zero
NewDivCost(l0, l1) == NAdd(N(1000), NAdd(NMulI(N(l0 + l1), 50), NDivSmall(NMul(N(l0), N(l1)), 10)[1]))

DivFront(args, max, flags, oldBase, oldPerByte) ==
  LET it == Items(args)
  IN  IF Len(it) # 2 THEN Err("InvalidOpArg")
      ELSE IF IsPair(it[1]) \/ IsPair(it[2]) THEN Err("InvalidOpArg")
      ELSE LET l0 == ALen(it[1])
               l1 == ALen(it[2])
               new == NewCM(flags)
           IN  IF "DISABLE_OP" \in flags /\ ~new /\ l0 > 2048 THEN Err("InvalidOpArg")
               ELSE IF "LIMITS" \in flags /\ ~new /\ (l0 > 256 \/ l1 > 1024) THEN Err("InvalidOpArg")
               ELSE LET cost == IF new THEN NewDivCost(l0, l1) ELSE N(oldBase + (l0 + l1) * oldPerByte)
                    IN  IF Over(cost, max) THEN Err("CostExceeded")
                        ELSE LET b == ZFromAtom(it[2].a)
                             IN  IF ZIsZero(b) THEN Err("DivisionByZero")
                                 ELSE IF l0 > QuadCap \/ l1 > QuadCap \/ l0 * l1 > QuadCap
                                      THEN Abstain("division operands above cap")
                                 ELSE [st |-> "go", cost |-> cost, qr |-> ZDivModFloor(ZFromAtom(it[1].a), b)]

OpDiv(args, max, flags) ==
  LET f == DivFront(args, max, flags, 988, 4)
  IN  IF f.st # "go" THEN f
      ELSE LET res == ZToAtom(f.qr[1]) IN Ok(NAdd(f.cost, MallocCost(Len(res))), A(res), AtomAl(res))

OpMod(args, max, flags) ==
  LET f == DivFront(args, max, flags, 988, 4)
  IN  IF f.st # "go" THEN f
      ELSE LET res == ZToAtom(f.qr[2]) IN Ok(NAdd(f.cost, MallocCost(Len(res))), A(res), AtomAl(res))

OpDivmod(args, max, flags) ==
  LET f == DivFront(args, max, flags, 1116, 6)
  IN  IF f.st # "go" THEN f
      ELSE LET q == ZToAtom(f.qr[1])
               r == ZToAtom(f.qr[2])
           IN  Ok(NAdd(f.cost, MallocCost(Len(q) + Len(r))), P(A(q), A(r)),
                  << << "A", Len(q) >>, << "A", Len(r) >>, << "P", 0 >> >>)

OpGr(args, max, flags) ==
  LET it == Items(args)
  IN  IF Len(it) # 2 THEN Err("InvalidOpArg")
      ELSE IF IsPair(it[1]) \/ IsPair(it[2]) THEN Err("InvalidOpArg")
      ELSE LET new == NewCM(flags)
               cost == (IF new THEN 1000 ELSE 498) + (ALen(it[1]) + ALen(it[2])) * (IF new THEN 4 ELSE 2)
           IN  Ok(N(cost), Bool(ZCmp(ZFromAtom(it[1].a), ZFromAtom(it[2].a)) > 0), << >>)

ShiftCommon(args, base, signed) ==
  LET it == Items(args)
  IN  IF Len(it) # 2 THEN Err("InvalidOpArg")
      ELSE IF IsPair(it[1]) THEN Err("InvalidOpArg")
      ELSE IF IsPair(it[2]) THEN Err("InvalidOpArg")
      ELSE LET a1 == I32Safe(it[2].a)
           IN  IF a1 = I32None THEN Err("InvalidOpArg")
               ELSE IF a1 < -65535 \/ a1 > 65535 THEN Err("ShiftTooLarge")
               ELSE IF ALen(it[1]) > LinCap THEN Abstain("shift operand above cap")
               ELSE LET i0 == IF signed THEN ZFromAtom(it[1].a) ELSE Z(FALSE, NFromBE(it[1].a))
                        v == IF a1 > 0 THEN ZShl(i0, a1) ELSE ZShrFloor(i0, 0 - a1)
                        res == ZToAtom(v)
                    IN  Ok(NAdd(N(base + (ALen(it[1]) + ZLimbs(v)) * 3), MallocCost(Len(res))), A(res), AtomAl(res))

OpAsh(args, max, flags) == ShiftCommon(args, 596, TRUE)
OpLsh(args, max, flags) == ShiftCommon(args, 277, FALSE)

\* logand / logior / logxor : int_atom (pair -> error) ; +bytes ; apply ; +perArg ; budget check
BinApply(which, x, y) == CASE which = "and" -> ZAnd(x, y) [] which = "or" -> ZOr(x, y) [] which = "xor" -> ZXor(x, y)
RECURSIVE LogLoop(_, _, _, _, _, _, _)
LogLoop(it, i, cost, acc, which, new, max) ==
  IF i > Len(it) THEN [st |-> "ok", cost |-> cost, acc |-> acc]
  ELSE IF IsPair(it[i]) THEN [st |-> "err", kind |-> "InvalidOpArg"]
  ELSE LET len == ALen(it[i])
           c == NAdd(cost, N(264 + 3 * (IF new THEN Max2(len, ZLimbs(acc)) ELSE len)))
       IN  IF Over(c, max) THEN [st |-> "err", kind |-> "CostExceeded"]
           ELSE IF len > LinCap THEN [st |-> "abstain", why |-> "logic operand above cap"]
           ELSE LogLoop(it, i + 1, c, BinApply(which, acc, ZFromAtom(it[i].a)), which, new, max)

LogOp(args, max, flags, which, init) ==
  LET r == LogLoop(Items(args), 1, N(100), init, which, NewCM(flags), max)
  IN  IF r.st = "err" THEN Err(r.kind)
      ELSE IF r.st = "abstain" THEN Abstain(r.why)
      ELSE LET res == ZToAtom(r.acc) IN Ok(NAdd(r.cost, MallocCost(Len(res))), A(res), AtomAl(res))

OpLogand(args, max, flags) == LogOp(args, max, flags, "and", ZI(-1))
OpLogior(args, max, flags) == LogOp(args, max, flags, "or", ZZero)
OpLogxor(args, max, flags) == LogOp(args, max, flags, "xor", ZZero)

OpLognot(args, max, flags) ==
  LET it == Items(args)
  IN  IF Len(it) # 1 THEN Err("InvalidOpArg")
      ELSE IF IsPair(it[1]) THEN Err("InvalidOpArg")
      ELSE LET res == ZToAtom(ZNot(ZFromAtom(it[1].a)))
           IN  Ok(NAdd(N(331 + 3 * ALen(it[1])), MallocCost(Len(res))), A(res), AtomAl(res))

OpNot(args, max, flags) ==
  LET it == Items(args)
  IN  IF Len(it) # 1 THEN Err("InvalidOpArg") ELSE Ok(N(200), Bool(IsNil(it[1])), << >>)

\* any / all : 200 + 300 per argument, budget check after each argument (monotone => only the total matters)
BoolOp(args, max, isAny) ==
  LET it == Items(args)
      n == Len(it)
      cost == N(200 + 300 * n)
  IN  IF n > 0 /\ Over(cost, max) THEN Err("CostExceeded")      \* no check at all without arguments
      ELSE Ok(cost, Bool(IF isAny THEN \E k \in 1..n : ~IsNil(it[k]) ELSE \A k \in 1..n : ~IsNil(it[k])), << >>)
OpAny(args, max, flags) == BoolOp(args, max, TRUE)
OpAll(args, max, flags) == BoolOp(args, max, FALSE)

OpCoinid(args, max, flags) ==
  LET it == Items(args)
  IN  IF Len(it) # 3 THEN Err("InvalidOpArg")
      ELSE IF IsPair(it[1]) THEN Err("InvalidOpArg")
      ELSE IF ALen(it[1]) # 32 THEN Err("InvalidOpArg")
      ELSE IF IsPair(it[2]) THEN Err("InvalidOpArg")
      ELSE IF ALen(it[2]) # 32 THEN Err("InvalidOpArg")
      ELSE IF IsPair(it[3]) THEN Err("InvalidOpArg")
      ELSE LET am == it[3].a
               bad == /\ am # << >>
                      /\ \/ am[1] >= 128
                         \/ am = << 0 >>
                         \/ (Len(am) > 1 /\ am[1] = 0 /\ am[2] < 128)
                         \/ Len(am) > 9
                         \/ (Len(am) = 9 /\ am[1] # 0)
           IN  IF bad THEN Err("InvalidOpArg")
               ELSE LET h == SHA256(it[1].a \o it[2].a \o am)
                        base == IF NewCM(flags) THEN 1000 + 160 * 3 + 6 * 72 - 153 ELSE 87 + 134 * 3 + 2 * 72 - 153
                    IN  Ok(N(base + 320), A(h), AtomAl(h))

\* modpow
ModpowCost(b, e, m, new) ==
  IF new THEN NAdd(NAdd(N(17000), NMul(NMulI(N(e), 8), NAdd(NMul(N(m), N(m)), N(4000)))), NMul(N(b), N(m)))
  ELSE NAdd(N(17000), NAdd(NMulI(N(b), 38), NAdd(NMulI(NMul(N(e), N(e)), 3), NMulI(NMul(N(m), N(m)), 21))))

OpModpow(args, max, flags) ==
  LET it == Items(args)
  IN  IF Len(it) # 3 THEN Err("InvalidOpArg")
      ELSE IF IsPair(it[1]) \/ IsPair(it[2]) \/ IsPair(it[3]) THEN Err("InvalidOpArg")
      ELSE LET b == ALen(it[1])
               e == ALen(it[2])
               m == ALen(it[3])
               new == NewCM(flags)
               cost == ModpowCost(b, e, m, new)
           IN  IF ~NFitsU64(cost) THEN Err("CostExceeded")
               ELSE IF Over(cost, max) THEN Err("CostExceeded")
               ELSE IF "LIMITS" \in flags /\ ~new /\ (b > 256 \/ e > 256 \/ m > 256) THEN Err("InvalidOpArg")
               ELSE LET ze == ZFromAtom(it[2].a)
                        zm == ZFromAtom(it[3].a)
                    IN  IF ze[1] THEN Err("InvalidOpArg")
                        ELSE IF ZIsZero(zm) THEN Err("DivisionByZero")
                        ELSE IF e > 375 \/ m > 54 \/ b > QuadCap       \* (keeps the products below 2^31)
                                \/ e * 8 * m * m > ModpowCap \/ b * m > QuadCap THEN Abstain("modpow operands above cap")
                        ELSE LET res == ZToAtom(ZModPow(ZFromAtom(it[1].a), ze, zm))
                             IN  Ok(NAdd(cost, MallocCost(Len(res))), A(res), AtomAl(res))

---------------------------------------------------------------------------
(* sha256tree: base + per pair + per byte over the fully expanded tree     *)
(* the budget is checked after every node in the code's traversal order    *)
(* (node, then its RIGHT child's subtree is pushed last => left first).    *)

RECURSIVE TH(_)
TH(t) == IF IsAtom(t) THEN SHA256(<< 1 >> \o t.a) ELSE SHA256(<< 2 >> \o TH(t.f) \o TH(t.r))

\* the cost is monotone and every early check fails with CostExceeded, so the outcome
\* depends only on the total:  270 + 460 per pair + perByte * (len + 1) per atom + 320
RECURSIVE ShaTreeSum(_, _)
ShaTreeSum(t, perByte) ==
  IF IsAtom(t) THEN N((ALen(t) + 1) * perByte)
  ELSE NAdd(N(460), NAdd(ShaTreeSum(t.f, perByte), ShaTreeSum(t.r, perByte)))

OpSha256Tree(args, max, flags) ==
  LET it == Items(args)
  IN  IF Len(it) # 1 THEN Err("InvalidOpArg")
      ELSE LET total == NAdd(N(270 + 320), ShaTreeSum(it[1], IF NewCM(flags) THEN 6 ELSE 2))
           IN  IF Over(total, max) THEN Err("CostExceeded")
               ELSE LET h == TH(it[1]) IN Ok(total, A(h), AtomAl(h))

---------------------------------------------------------------------------
(* Unknown operators (the published opcode cost rule), op_unknown          *)

RECURSIVE UnkAddLoop(_, _, _, _, _, _)
UnkAddLoop(it, i, cost, acc, new, max) ==
  IF i > Len(it) THEN [st |-> "ok", cost |-> cost]
  ELSE IF IsPair(it[i]) THEN [st |-> "err", kind |-> "InvalidOpArg"]
  ELSE LET len == ALen(it[i])
           c == NAdd(cost, IF new THEN N(500 + 4 * Max2(acc, len)) ELSE N(320 + 3 * len))
       IN  IF Over(c, max) THEN [st |-> "err", kind |-> "CostExceeded"]
           ELSE UnkAddLoop(it, i + 1, c, Max2(acc, len), new, max)

RECURSIVE UnkMulLoop(_, _, _, _, _, _)
\* l0 is a Nat (it is a running SUM of lengths)
UnkMulLoop(it, i, cost, l0, new, max) ==
  IF i > Len(it) THEN [st |-> "ok", cost |-> cost]
  ELSE IF IsPair(it[i]) THEN [st |-> "err", kind |-> "InvalidOpArg"]
  ELSE LET len == N(ALen(it[i]))
           c == NAdd(cost, NAdd(N(885), NAdd(NMulI(NAdd(l0, len), 6),
                                              NDivSmall(NMul(l0, len), IF new THEN 16 ELSE 128)[1])))
       IN  IF Over(c, max) THEN [st |-> "err", kind |-> "CostExceeded"]
           ELSE UnkMulLoop(it, i + 1, c, NAdd(l0, len), new, max)

RECURSIVE UnkConcatLoop(_, _, _, _)
UnkConcatLoop(it, i, cost, max) ==
  IF i > Len(it) THEN [st |-> "ok", cost |-> cost]
  ELSE IF IsPair(it[i]) THEN [st |-> "err", kind |-> "InvalidOpArg"]
  ELSE LET c == NAdd(cost, N(135 + 3 * ALen(it[i])))
       IN  IF Over(c, max) THEN [st |-> "err", kind |-> "CostExceeded"]
           ELSE UnkConcatLoop(it, i + 1, c, max)

\* `wrap`: the pre-hard-fork code multiplies with wrap-around at 2^64 (finding F4);
\* the published rule is the exact product.  UnknownBase/Product are shared.
UnknownBase(op, args, max, new) ==
  LET fn == op[Len(op)] \div 64
      it == Items(args)
  IN  CASE fn = 0 -> [st |-> "ok", cost |-> N(1)]
        [] fn = 1 -> UnkAddLoop(it, 1, N(99), 0, new, max)
        [] fn = 2 -> IF it = << >> THEN [st |-> "ok", cost |-> N(IF new THEN 2000 ELSE 92)]
                     ELSE IF IsPair(it[1]) THEN [st |-> "err", kind |-> "InvalidOpArg"]
                     ELSE LET l0 == N(ALen(it[1]))
                              c0 == IF new THEN NAdd(N(2000), NMulI(l0, 6)) ELSE N(92)
                          IN  IF new /\ Over(c0, max) THEN [st |-> "err", kind |-> "CostExceeded"]
                              ELSE UnkMulLoop(it, 2, c0, l0, new, max)
        [] fn = 3 -> UnkConcatLoop(it, 1, N(142), max)

\* exact = TRUE: the published rule; exact = FALSE: the code (wrapping product before the hard fork)
OpUnknownGen(op, args, max, flags, exact) ==
  IF op = << >> \/ (Len(op) >= 2 /\ op[1] = 255 /\ op[2] = 255) THEN Err("Reserved")
  ELSE IF Len(op) > 5 THEN Err("Invalid")
  ELSE LET new == NewCM(flags)
           b == UnknownBase(op, args, max, new)
       IN  IF b.st = "err" THEN Err(b.kind)
           ELSE IF Over(b.cost, max) THEN Err("CostExceeded")
           ELSE LET mult == NAddI(NFromBE(SubSeq(op, 1, Len(op) - 1)), 1)
                    prod == NMul(b.cost, mult)
                    eff == IF exact \/ new THEN prod
                           ELSE NNorm(SubSeq(prod, 1, Min2(Len(prod), 8)))      \* mod 2^64
                IN  IF new /\ ~NFitsU64(prod) THEN Err("CostExceeded")
                    ELSE IF NGt(eff, U32Max) THEN Err("Invalid")
                    ELSE Ok(eff, Nil, << >>)

OpUnknown(op, args, max, flags) == OpUnknownGen(op, args, max, flags, FALSE)
OpUnknownPublished(op, args, max, flags) == OpUnknownGen(op, args, max, flags, TRUE)

UnknownOperator(op, args, max, flags) ==
  IF "NO_UNKNOWN_OPS" \in flags THEN Err("Unimplemented") ELSE OpUnknown(op, args, max, flags)

---------------------------------------------------------------------------
(* Cryptographic operators: not defined here.  They are decided only       *)
(* through a supplied witness (Interp passes the witness of the recorded   *)
(* run); without one the call is not decided.                              *)
CryptoOps == {29, 30, 49, 50, 51, 52, 53, 54, 55, 56, 57, 58, 59, 62, 64, 65}

---------------------------------------------------------------------------
(* Dispatch: ChiaDialect::op                                               *)

ExtFlags(flags, ext) ==
  IF ext \in {"keccak", "prehf"} THEN flags \cup {"ENABLE_KECCAK_OPS_OUTSIDE_GUARD"} ELSE flags

Secp256k1Op == << 19, 214, 31, 0 >>
Secp256r1Op == << 28, 58, 143, 0 >>

\* table of the one-byte operators the specification defines
Defined(o, args, max, fl) ==
  CASE o = 3 -> OpIf(args, max, fl) [] o = 4 -> OpCons(args, max, fl)
    [] o = 5 -> OpFirst(args, max, fl) [] o = 6 -> OpRest(args, max, fl)
    [] o = 7 -> OpListp(args, max, fl) [] o = 8 -> OpRaise(args, max, fl)
    [] o = 9 -> OpEq(args, max, fl) [] o = 10 -> OpGrBytes(args, max, fl)
    [] o = 11 -> OpSha256(args, max, fl) [] o = 12 -> OpSubstr(args, max, fl)
    [] o = 13 -> OpStrlen(args, max, fl) [] o = 14 -> OpConcat(args, max, fl)
    [] o = 16 -> OpAdd(args, max, fl) [] o = 17 -> OpSubtract(args, max, fl)
    [] o = 18 -> OpMultiply(args, max, fl) [] o = 19 -> OpDiv(args, max, fl)
    [] o = 20 -> OpDivmod(args, max, fl) [] o = 21 -> OpGr(args, max, fl)
    [] o = 22 -> OpAsh(args, max, fl) [] o = 23 -> OpLsh(args, max, fl)
    [] o = 24 -> OpLogand(args, max, fl) [] o = 25 -> OpLogior(args, max, fl)
    [] o = 26 -> OpLogxor(args, max, fl) [] o = 27 -> OpLognot(args, max, fl)
    [] o = 32 -> OpNot(args, max, fl) [] o = 33 -> OpAny(args, max, fl)
    [] o = 34 -> OpAll(args, max, fl) [] o = 48 -> OpCoinid(args, max, fl)
    [] o = 60 -> OpModpow(args, max, fl) [] o = 61 -> OpMod(args, max, fl)
    [] o = 63 -> OpSha256Tree(args, max, fl)

PlainOps == {3,4,5,6,7,8,9,10,11,12,13,14,16,17,18,19,20,21,22,23,24,25,26,27,32,33,34,48,61}

\* a symbolic atom (length only) has no content: only the unknown-operator rule can be decided on it
RECURSIVE HasSym(_)
HasSym(t) == IF IsPair(t) THEN HasSym(t.f) \/ HasSym(t.r) ELSE "n" \in DOMAIN t

\* ChiaDialect::op.  `crypto(o, args, max, fl)` decides the cryptographic operators
\* (it is supplied by the caller: witness-based in trace validation, Abstain otherwise).
ChiaOp(opb, args, max, flags, ext, crypto(_, _, _, _)) ==
  LET fl == ExtFlags(flags, ext)
  IN  IF Len(opb) = 4
      THEN IF opb = Secp256k1Op THEN crypto(64, args, max, fl)
           ELSE IF opb = Secp256r1Op THEN crypto(65, args, max, fl)
           ELSE UnknownOperator(opb, args, max, fl)
      ELSE IF Len(opb) # 1 THEN UnknownOperator(opb, args, max, fl)
      ELSE IF ~IsCanonicalSmall(opb) THEN UnknownOperator(opb, args, max, fl)
      ELSE LET o == opb[1]
               known == o \in PlainOps \cup {29, 30, 49, 50, 51, 52, 53, 54, 55, 56, 57, 58, 59, 60}
                          \/ (o = 62 /\ "ENABLE_KECCAK_OPS_OUTSIDE_GUARD" \in fl)
                          \/ (o = 63 /\ "ENABLE_SHA256_TREE" \in fl) \/ (o \in {64, 65} /\ "ENABLE_SECP_OPS" \in fl)
           IN  IF known /\ HasSym(args) THEN Abstain("symbolic atom passed to a defined operator")
               ELSE IF o \in PlainOps THEN Defined(o, args, max, fl)
               ELSE IF o \in {29, 30, 49, 50, 51, 52, 53, 54, 55, 56, 57, 58, 59} THEN crypto(o, args, max, fl)
               ELSE IF o = 60
                    THEN IF "DISABLE_OP" \in fl /\ ~NewCM(fl) THEN Err("Unimplemented") ELSE OpModpow(args, max, fl)
               ELSE IF o = 62 /\ "ENABLE_KECCAK_OPS_OUTSIDE_GUARD" \in fl THEN crypto(62, args, max, fl)
               ELSE IF o = 63 /\ "ENABLE_SHA256_TREE" \in fl THEN OpSha256Tree(args, max, fl)
               ELSE IF o \in {64, 65} /\ "ENABLE_SECP_OPS" \in fl THEN crypto(o, args, max, fl)
               ELSE UnknownOperator(opb, args, max, fl)

NoCrypto(o, args, max, fl) == Abstain("cryptographic operator without witness")
=============================================================================
