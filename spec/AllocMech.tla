----------------------------- MODULE AllocMech -----------------------------
(***************************************************************************)
(* The MECHANISM of clvm_rs's Allocator, transcribed from                  *)
(* /repo/src/allocator.rs (one operator per public method, the code's      *)
(* check order, the code's arithmetic):                                    *)
(*                                                                         *)
(*   u8vec    the byte arena u8_vec                                        *)
(*   atomvec  atom_vec: entries [s, e] = byte range start..end (0-based)   *)
(*   pairvec  pair_vec: entries [f, r] of NodePtrs                         *)
(*   ghostA / ghostP / ghostH   the ghost counters                         *)
(*   mcps     checkpoints taken by the client (Checkpoint /                *)
(*            TransparentCheckpoint objects: vector lengths + ghost values)*)
(*   NodePtr  [t |-> "small", i |-> 26-bit value]   inline small atom      *)
(*            [t |-> "bytes", i |-> index into atom_vec (0-based)]         *)
(*            [t |-> "pair",  i |-> index into pair_vec (0-based)]         *)
(*                                                                         *)
(* plus the client's view: `hnd` is the table of NodePtrs the client got   *)
(* back (handle k = k-th returned node; handles 1, 2 = nil(), one()), and  *)
(* `hlive` which of them the caller contract still allows to be used.      *)
(*                                                                         *)
(* Refinement.  Corr(M, A) relates a mechanism state M to a state A of the *)
(* property model Alloc.tla:                                               *)
(*     A.atoms = Len(atom_vec) + ghost_atoms                               *)
(*     A.pairs = Len(pair_vec) + ghost_pairs                               *)
(*     A.heap  = Len(u8_vec)   + ghost_heap                                *)
(*     node k of A = what the mechanism reads through handle k (bytes of   *)
(*                   the atom, whatever its representation; children of a  *)
(*                   pair, as handles)                                     *)
(*     checkpoints correspond (full ones carry the same three counts)      *)
(* MCAlloc checks that every mechanism step from corresponding states      *)
(* yields corresponding states and the same status as Alloc!Apply          *)
(* (forward simulation), when SubstrOfInlineAtomCopies = FALSE.            *)
(*                                                                         *)
(* Known deviation of the code, as a named switch:                         *)
(*   SubstrOfInlineAtomCopies = TRUE  (the code as it is)                  *)
(*     new_substr on an inline small atom whose slice is not itself a      *)
(*     canonical small integer appends the slice to u8_vec: heap_size      *)
(*     grows by the slice length, and no heap-limit check is made.         *)
(*   FALSE (idealised repair): the copied bytes are compensated in the     *)
(*     ghost heap (which may then become negative: a repaired              *)
(*     implementation needs a signed compensation), so that heap_size is   *)
(*     unchanged, as the property demands of substrings.                   *)
(*                                                                         *)
(* Library functions that are assumed, not transcribed: num-bigint /       *)
(* malachite to_signed_bytes_be (minimal two's complement, <<0>> for zero) *)
(* and from_signed_bytes_be (= BigInt!ZFromAtom).                          *)
(***************************************************************************)
EXTENDS Alloc

CONSTANTS SubstrOfInlineAtomCopies,   \* TRUE = code as is (finding F5)
          MinSavings,                 \* MIN_SAVINGS = 1024 in maybe_restore_with_node
          CloneAtomLimit              \* CLONE_ATOM_LIMIT = 48

VARIABLES u8vec, atomvec, pairvec, ghostA, ghostP, ghostH, mcps, hnd, hlive, mres

mvars == << u8vec, atomvec, pairvec, ghostA, ghostP, ghostH, mcps, hnd, hlive, mres >>

---------------------------------------------------------------------------
(* NodePtr and the small-atom arithmetic *)

Small(v)    == [t |-> "small", i |-> v]
BytesPtr(i) == [t |-> "bytes", i |-> i]
PairPtr(i)  == [t |-> "pair",  i |-> i]
NoPtr       == [t |-> "none",  i |-> 0]

RECURSIVE BEAcc(_, _, _)
BEAcc(v, i, acc) == IF i > Len(v) THEN acc ELSE BEAcc(v, i + 1, acc * 256 + v[i])

\* fits_in_small_atom: Some(value) / None (-1)
FitsInSmallAtom(v) ==
  IF /\ Len(v) # 0
     /\ \/ Len(v) > 4
        \/ (Len(v) = 1 /\ v[1] = 0)          \* a 1-byte 0 is not the canonical 0
        \/ v[1] >= 128                       \* negative
        \/ (v[1] = 0 /\ v[2] < 128)          \* redundant leading zero
        \/ (Len(v) = 4 /\ v[1] > 3)          \* more than 26 bits
  THEN -1
  ELSE BEAcc(v, 1, 0)

\* len_for_value (values here are < 2^26, the 5-byte case of the code is unreachable)
LenForValue(val) ==
  IF val = 0 THEN 0 ELSE IF val < 128 THEN 1 ELSE IF val < 32768 THEN 2
  ELSE IF val < 8388608 THEN 3 ELSE 4

Pow256(k) == CASE k = 0 -> 1 [] k = 1 -> 256 [] k = 2 -> 65536 [] k = 3 -> 16777216
\* val.to_be_bytes()[4 - len ..]
ValBytes(val) == LET n == LenForValue(val) IN [i \in 1..n |-> (val \div Pow256(n - i)) % 256]

---------------------------------------------------------------------------
(* mechanism state records *)

MFresh == [u8 |-> << >>, av |-> << >>, pv |-> << >>, gA |-> 2, gP |-> 0, gH |-> 1, cps |-> << >>,
           h |-> << Small(0), Small(1) >>, live |-> << TRUE, TRUE >>]

MAtoms(M) == Len(M.av) + M.gA          \* atom_count()
MPairs(M) == Len(M.pv) + M.gP          \* pair_count()
MHeap(M)  == Len(M.u8) + M.gH          \* heap_size()

MOk(M, p)   == [s |-> M, st |-> "ok", ret |-> p, out |-> ""]
MFail(M, e) == [s |-> M, st |-> e, ret |-> NoPtr, out |-> ""]

\* check_atom_limit (note: equality, not >=)
AtomLimitHit(M) == Len(M.av) + M.gA = MaxAtoms

\* atom(): the bytes read through a NodePtr
MAtomBytes(M, p) ==
  IF p.t = "small" THEN ValBytes(p.i)
  ELSE LET a == M.av[p.i + 1] IN SubSeq(M.u8, a.s + 1, a.e)
MAtomLen(M, p) ==
  IF p.t = "small" THEN LenForValue(p.i) ELSE LET a == M.av[p.i + 1] IN a.e - a.s

---------------------------------------------------------------------------
(* allocation *)

MNewAtom(M, v) ==
  IF Len(v) > HeapLimit - (Len(M.u8) + M.gH) THEN MFail(M, "OutOfMemory")
  ELSE IF AtomLimitHit(M) THEN MFail(M, "TooManyAtoms")
  ELSE LET sv == FitsInSmallAtom(v)
       IN  IF sv >= 0
           THEN MOk([M EXCEPT !.gA = @ + 1, !.gH = @ + Len(v)], Small(sv))
           ELSE MOk([M EXCEPT !.u8 = @ \o v,
                              !.av = Append(@, [s |-> Len(M.u8), e |-> Len(M.u8) + Len(v)])],
                    BytesPtr(Len(M.av)))

MNewSmallNumber(M, v) ==
  LET len == LenForValue(v)
  IN  IF len > HeapLimit - (Len(M.u8) + M.gH) THEN MFail(M, "OutOfMemory")
      ELSE IF AtomLimitHit(M) THEN MFail(M, "TooManyAtoms")
      ELSE MOk([M EXCEPT !.gA = @ + 1, !.gH = @ + len], Small(v))

P2(n) == NShl(<< 1 >>, n)
MinOf(set) == CHOOSE k \in set : \A j \in set : k <= j

\* new_u64: 9-byte buffer 00 || be(val), cut at the first byte that keeps the sign bit clear
MNewU64(M, mag) ==
  LET buf   == << 0 >> \o Rev(NPad(mag, 8))
      ks    == {k \in 1..8 : NLt(mag, P2(8 * k - 1))}
      start == IF mag = << >> THEN 9 ELSE IF ks = {} THEN 0 ELSE 9 - MinOf(ks)
  IN  MNewAtom(M, SubSeq(buf, start + 1, 9))

\* new_i64: non-negative values go to new_u64; negative: 8-byte two's complement, cut
MNewI64(M, z) ==
  IF ~z[1] THEN MNewU64(M, z[2])
  ELSE LET buf   == Rev(TwosComp(z[2], 8))
           ks    == {k \in 1..7 : NLe(z[2], P2(8 * k - 1))}
           start == IF ks = {} THEN 0 ELSE 8 - MinOf(ks)
       IN  MNewAtom(M, SubSeq(buf, start + 1, 8))

\* new_number / new_malachite_number
SignedBytesBE(z) == IF z[2] = << >> THEN << 0 >> ELSE ZToAtom(z)      \* library
RECURSIVE StripZeros(_)
StripZeros(sl) ==
  IF sl # << >> /\ sl[1] = 0
  THEN (IF Len(sl) > 1 /\ sl[2] >= 128 THEN sl ELSE StripZeros(Tail(sl)))
  ELSE sl
MNewNumber(M, z) ==
  IF ~z[1] /\ NLt(z[2], Two26) THEN MNewSmallNumber(M, NToInt(z[2]))
  ELSE MNewAtom(M, StripZeros(SignedBytesBE(z)))

MNewPair(M, f, r) ==
  IF Len(M.pv) >= MaxPairs - M.gP THEN MFail(M, "TooManyPairs")
  ELSE MOk([M EXCEPT !.pv = Append(@, [f |-> f, r |-> r])], PairPtr(Len(M.pv)))

MAddGhostPair(M, amt) ==
  IF MaxPairs - M.gP - Len(M.pv) < amt THEN MFail(M, "TooManyPairs") ELSE MOk([M EXCEPT !.gP = @ + amt], NoPtr)
MRemoveGhostPair(M, amt) == MOk([M EXCEPT !.gP = @ - amt], NoPtr)
MAddGhostAtom(M, amt) ==
  IF MaxAtoms - M.gA - Len(M.av) < amt THEN MFail(M, "TooManyAtoms") ELSE MOk([M EXCEPT !.gA = @ + amt], NoPtr)

BoundsBad(st, en, len) == st > len \/ en > len \/ en < st

MNewSubstr(M, node, st, en) ==
  IF AtomLimitHit(M) THEN MFail(M, "TooManyAtoms")
  ELSE IF node.t = "pair" THEN MFail(M, "InternalError")
  ELSE IF node.t = "bytes" THEN
    LET atom == M.av[node.i + 1]
    IN  IF BoundsBad(st, en, atom.e - atom.s) THEN MFail(M, "InvalidAllocArg")
        ELSE MOk([M EXCEPT !.av = Append(@, [s |-> atom.s + st, e |-> atom.s + en])], BytesPtr(Len(M.av)))
  ELSE
    LET val == node.i
        len == LenForValue(val)
    IN  IF BoundsBad(st, en, len) THEN MFail(M, "InvalidAllocArg")
        ELSE LET substr == SubSeq(ValBytes(val), st + 1, en)
                 nv     == FitsInSmallAtom(substr)
             IN  IF nv >= 0 THEN MOk([M EXCEPT !.gA = @ + 1], Small(nv))
                 ELSE LET copied == [M EXCEPT !.u8 = @ \o substr,
                                              !.av = Append(@, [s |-> Len(M.u8), e |-> Len(M.u8) + Len(substr)])]
                      IN  IF SubstrOfInlineAtomCopies
                          THEN MOk(copied, BytesPtr(Len(M.av)))                          \* the code: heap grows, unchecked
                          ELSE MOk([copied EXCEPT !.gH = @ - Len(substr)], BytesPtr(Len(M.av)))   \* idealised repair

\* the copy loop of new_concat over >= 2 nodes: [err, b]
RECURSIVE CatLoop(_, _, _, _, _, _)
CatLoop(M, ns, i, counter, acc, size) ==
  IF i > Len(ns) THEN [err |-> counter # size, b |-> acc]
  ELSE LET p == ns[i]
       IN  IF p.t = "pair" THEN [err |-> TRUE, b |-> << >>]
           ELSE IF p.t = "bytes" /\ counter + MAtomLen(M, p) > size THEN [err |-> TRUE, b |-> << >>]
           ELSE CatLoop(M, ns, i + 1, counter + MAtomLen(M, p), acc \o MAtomBytes(M, p), size)

MNewConcat(M, size, ns) ==
  IF AtomLimitHit(M) THEN MFail(M, "TooManyAtoms")
  ELSE IF size > HeapLimit - (Len(M.u8) + M.gH) THEN MFail(M, "OutOfMemory")
  ELSE IF Len(ns) = 0 THEN
    (IF size # 0 THEN MFail(M, "InternalError") ELSE MOk([M EXCEPT !.gA = @ + 1], Small(0)))
  ELSE IF Len(ns) = 1 THEN
    (IF MAtomLen(M, ns[1]) # size THEN MFail(M, "InternalError")
     ELSE MOk([M EXCEPT !.gH = @ + size, !.gA = @ + 1], ns[1]))
  ELSE LET c == CatLoop(M, ns, 1, 0, << >>, size)
       IN  IF c.err THEN MFail(M, "InternalError")            \* u8_vec.truncate(start): unchanged
           ELSE MOk([M EXCEPT !.u8 = @ \o c.b, !.av = Append(@, [s |-> Len(M.u8), e |-> Len(M.u8) + Len(c.b)])],
                    BytesPtr(Len(M.av)))

---------------------------------------------------------------------------
(* checkpoints *)

MCheckpoint(M, full) ==
  MOk([M EXCEPT !.cps = Append(@, [full |-> full, u8s |-> Len(M.u8), pairs |-> Len(M.pv), atoms |-> Len(M.av),
                                   gA |-> M.gA, gP |-> M.gP, gH |-> M.gH, n |-> Len(M.h)])], NoPtr)

\* restore_transparent_checkpoint: what is freed is added to the ghosts
TRestoreCore(M, cp) ==
  [M EXCEPT !.gH = @ + (Len(M.u8) - cp.u8s), !.gP = @ + (Len(M.pv) - cp.pairs), !.gA = @ + (Len(M.av) - cp.atoms),
            !.u8 = SubSeq(@, 1, cp.u8s), !.pv = SubSeq(@, 1, cp.pairs), !.av = SubSeq(@, 1, cp.atoms)]

KillH(lv, n, keep) == [i \in 1..Len(lv) |-> lv[i] /\ (i <= n \/ i = keep)]

\* client side of any restore: later checkpoints are gone, later handles are invalid
Client(M, i, keep) == [M EXCEPT !.cps = SubSeq(@, 1, i), !.live = KillH(@, M.cps[i].n, keep)]

MRestore(M, i) ==
  LET cp == M.cps[i]
  IN  MOk(Client([TRestoreCore(M, cp) EXCEPT !.gA = cp.gA, !.gP = cp.gP, !.gH = cp.gH], i, 0), NoPtr)

MTRestore(M, i) == MOk(Client(TRestoreCore(M, M.cps[i]), i, 0), NoPtr)

\* checkpoint_node_status
NodeStatus(M, cp, p) ==
  IF p.t = "pair" THEN (IF p.i < cp.pairs THEN "Before" ELSE "AfterNewBytes")
  ELSE IF p.t = "bytes" THEN
    (IF p.i < cp.atoms THEN "Before"
     ELSE IF M.av[p.i + 1].s < cp.u8s THEN "AfterOldBytes" ELSE "AfterNewBytes")
  ELSE "Before"

WithOut(r, o) == [r EXCEPT !.out = o]

\* maybe_restore_with_node(checkpoint i, node handle k) with thresholds ms / cl
MMaybeRestore(M, i, k, ms, cl) ==
  LET cp    == M.cps[i]
      p     == M.h[k]
      saved == (Len(M.u8) - cp.u8s) + (Len(M.av) - cp.atoms) * 8 + (Len(M.pv) - cp.pairs) * 8
      stat  == NodeStatus(M, cp, p)
  IN  IF saved < ms THEN WithOut(MOk(M, NoPtr), "Aborted")
      ELSE IF stat = "Before" THEN WithOut(MOk(Client(TRestoreCore(M, cp), i, k), NoPtr), "NoReplace")
      ELSE IF stat = "AfterOldBytes" THEN
        LET a  == M.av[p.i + 1]
            R  == Client(TRestoreCore(M, cp), i, 0)
        IN  IF R.gA = 0 THEN MFail(R, "InternalError")
            ELSE LET R2 == [R EXCEPT !.gA = @ - 1]
                 IN  IF a.e < a.s \/ a.e > Len(R2.u8) THEN MFail(R2, "InternalError")
                     ELSE WithOut(MOk([R2 EXCEPT !.av = Append(@, [s |-> a.s, e |-> a.e])], BytesPtr(Len(R2.av))),
                                  "Replace")
      ELSE \* AfterNewBytes
        IF p.t = "pair" THEN WithOut(MOk(M, NoPtr), "Aborted")
        ELSE LET buf == MAtomBytes(M, p)
             IN  IF Len(buf) > cl THEN WithOut(MOk(M, NoPtr), "Aborted")
                 ELSE LET R == Client(TRestoreCore(M, cp), i, 0)
                      IN  IF R.gA = 0 THEN MFail(R, "InternalError")
                          ELSE IF R.gH < Len(buf) THEN MFail([R EXCEPT !.gA = @ - 1], "InternalError")
                          ELSE LET na == MNewAtom([R EXCEPT !.gA = @ - 1, !.gH = @ - Len(buf)], buf)
                               IN  IF na.st = "ok" THEN WithOut(na, "Replace") ELSE na

---------------------------------------------------------------------------
(* dispatch: operations name nodes by handle *)

Ms(op) == IF "ms" \in DOMAIN op THEN op.ms ELSE MinSavings        \* nondeterministic-threshold variant:
Cl(op) == IF "cl" \in DOMAIN op THEN op.cl ELSE CloneAtomLimit    \* the operation carries the thresholds

MCore(M, op) ==
  CASE op.op = "new_atom"          -> MNewAtom(M, op.b)
    [] op.op = "new_small_number"  -> MNewSmallNumber(M, op.v)
    [] op.op \in {"new_number", "new_malachite_number"} -> MNewNumber(M, Z(op.neg, op.mag))
    [] op.op = "new_u64"           -> MNewU64(M, op.mag)
    [] op.op = "new_i64"           -> MNewI64(M, Z(op.neg, op.mag))
    [] op.op = "new_pair"          -> MNewPair(M, M.h[op.f], M.h[op.r])
    [] op.op = "new_substr"        -> MNewSubstr(M, M.h[op.n], op.s, op.e)
    [] op.op = "new_concat"        -> MNewConcat(M, op.size, [j \in 1..Len(op.ns) |-> M.h[op.ns[j]]])
    [] op.op = "checkpoint"        -> MCheckpoint(M, TRUE)
    [] op.op = "tcheckpoint"       -> MCheckpoint(M, FALSE)
    [] op.op = "restore"           -> MRestore(M, op.cp)
    [] op.op = "trestore"          -> MTRestore(M, op.cp)
    [] op.op = "maybe_restore"     -> MMaybeRestore(M, op.cp, op.n, Ms(op), Cl(op))
    [] op.op = "add_ghost_atom"    -> MAddGhostAtom(M, op.amt)
    [] op.op = "add_ghost_pair"    -> MAddGhostPair(M, op.amt)
    [] op.op = "remove_ghost_pair" -> MRemoveGhostPair(M, op.amt)

\* the client records every returned NodePtr under a new handle
MApply(M, op) ==
  LET r == MCore(M, op)
  IN  IF r.st = "ok" /\ r.ret.t # "none"
      THEN [r EXCEPT !.s.h = Append(@, r.ret), !.s.live = Append(@, TRUE)]
      ELSE r

\* mechanism-level caller contract on top of Alloc!Legal (remove_ghost_pair debug_asserts)
MLegal(M, op) == op.op = "remove_ghost_pair" => op.amt <= M.gP

---------------------------------------------------------------------------
(* readers (C14) *)

\* bytes_eq_int
BytesEqInt(M, a, val) ==
  LET len == LenForValue(val)
  IN  IF a.e - a.s # len THEN FALSE
      ELSE IF val = 0 THEN TRUE
      ELSE IF M.u8[a.s + 1] >= 128 THEN FALSE
      ELSE val = BEAcc(SubSeq(M.u8, a.s + 1, a.e), 1, 0)

MAtomEq(M, x, y) ==
  CASE x.t = "bytes" /\ y.t = "bytes" ->
         LET a == M.av[x.i + 1]  b == M.av[y.i + 1]
         IN  SubSeq(M.u8, a.s + 1, a.e) = SubSeq(M.u8, b.s + 1, b.e)
    [] x.t = "small" /\ y.t = "small" -> x.i = y.i
    [] x.t = "small" /\ y.t = "bytes" -> BytesEqInt(M, M.av[y.i + 1], x.i)
    [] x.t = "bytes" /\ y.t = "small" -> BytesEqInt(M, M.av[x.i + 1], y.i)

\* small_number(): Some(v) / None (-1)
MSmallNumber(M, p) ==
  IF p.t = "small" THEN p.i
  ELSE IF p.t = "bytes" THEN FitsInSmallAtom(MAtomBytes(M, p))
  ELSE -1

\* number()
MNumber(M, p) ==
  IF p.t = "small" THEN Z(FALSE, N(p.i))
  ELSE LET b == MAtomBytes(M, p) IN IF b = << >> THEN ZZero ELSE ZFromAtom(b)     \* library

\* what the client reads through handle k
MView(M, k) ==
  IF ~M.live[k] THEN Dead
  ELSE IF M.h[k].t = "pair" THEN [k |-> "pairptr", p |-> M.pv[M.h[k].i + 1]]
  ELSE Atom(MAtomBytes(M, M.h[k]))

---------------------------------------------------------------------------
(* the refinement relation *)

Corr(M, A) ==
  /\ A.atoms = MAtoms(M) /\ A.pairs = MPairs(M) /\ A.heap = MHeap(M)
  /\ Len(A.nodes) = Len(M.h) /\ Len(M.live) = Len(M.h)
  /\ \A k \in 1..Len(M.h) :
       LET nd == A.nodes[k]
       IN  /\ M.live[k] <=> nd.k # "dead"
           /\ nd.k = "atom" => M.h[k].t \in {"small", "bytes"} /\ MAtomBytes(M, M.h[k]) = nd.b
           /\ nd.k = "pair" => /\ M.h[k].t = "pair"
                               /\ M.h[k].i < Len(M.pv)
                               /\ M.pv[M.h[k].i + 1] = [f |-> M.h[nd.f], r |-> M.h[nd.r]]
  /\ Len(A.cps) = Len(M.cps)
  /\ \A i \in 1..Len(M.cps) :
       LET c == M.cps[i]  d == A.cps[i]
       IN  /\ c.full = d.full /\ c.n = d.n
           /\ c.full => d.atoms = c.atoms + c.gA /\ d.pairs = c.pairs + c.gP /\ d.heap = c.u8s + c.gH

---------------------------------------------------------------------------
(* the state machine *)

MS == [u8 |-> u8vec, av |-> atomvec, pv |-> pairvec, gA |-> ghostA, gP |-> ghostP, gH |-> ghostH,
       cps |-> mcps, h |-> hnd, live |-> hlive]

MSet(r) == /\ u8vec' = r.s.u8 /\ atomvec' = r.s.av /\ pairvec' = r.s.pv
           /\ ghostA' = r.s.gA /\ ghostP' = r.s.gP /\ ghostH' = r.s.gH
           /\ mcps' = r.s.cps  /\ hnd' = r.s.h     /\ hlive' = r.s.live
           /\ mres' = [st |-> r.st, ret |-> r.ret, out |-> r.out]

MInit == /\ u8vec = << >> /\ atomvec = << >> /\ pairvec = << >>
         /\ ghostA = 2 /\ ghostP = 0 /\ ghostH = 1           \* nil() and one() are ghosts
         /\ mcps = << >> /\ hnd = MFresh.h /\ hlive = MFresh.live
         /\ mres = [st |-> "ok", ret |-> NoPtr, out |-> ""]

\* one call of the client: the mechanism and the property model step together; for
\* maybe_restore the outcome the mechanism takes is the witness handed to the property model
Both(op) ==
  LET mr  == MApply(MS, op)
      aop == IF op.op = "maybe_restore" THEN [op EXCEPT !.out = mr.out] ELSE op
  IN  /\ Legal(S, aop) /\ MLegal(MS, op)
      /\ MSet(mr)
      /\ SetS(Apply(Lim, S, aop))

\* THEOREM  ~SubstrOfInlineAtomCopies =>
\*            (MInit /\ Init /\ [][\E op : Both(op)]_<<mvars, avars>>  =>  [](Corr(MS, S) /\ mres.st = res.st))
\* checked by TLC over bounded universes in MCAlloc.

Refines ==
  /\ Corr(MS, S)
  /\ mres.st = res.st /\ mres.out = res.out
  /\ IF res.ret = 0 THEN mres.ret.t = "none" \/ mres.st # "ok"
     ELSE res.ret = Len(hnd) /\ hnd[res.ret] = mres.ret

\* C13 on the mechanism
MCapsOk == MAtoms(MS) <= MaxAtoms /\ MPairs(MS) <= MaxPairs /\ MHeap(MS) <= HeapLimit

MFailedUnchanged ==
  [][mres'.st # "ok" => UNCHANGED << u8vec, atomvec, pairvec, ghostA, ghostP, ghostH, mcps, hnd, hlive >>]_<< mvars, avars >>

\* C14 on the mechanism: whatever is still valid reads the same, forever; handles are never reused
MImmutable ==
  [][/\ Len(hnd') >= Len(hnd)
     /\ \A k \in 1..Len(hnd) :
          /\ hnd'[k] = hnd[k]
          /\ hlive'[k] => hlive[k]
          /\ hlive'[k] => MView(MS, k)' = MView(MS, k)]_<< mvars, avars >>

\* C14: the readers agree with the bytes, whatever the representation
ReadsOk ==
  LET M == MS
      L == {k \in 1..Len(hnd) : hlive[k] /\ hnd[k].t # "pair"}
  IN  /\ \A k \in L :
           LET b == MAtomBytes(M, hnd[k])
           IN  /\ MSmallNumber(M, hnd[k]) = SmallView(b)
               /\ FitsInSmallAtom(b) = SmallView(b)
               /\ hnd[k].t = "small" => MNumber(M, hnd[k]) = ZFromAtom(b)    \* (for heap atoms number() IS ZFromAtom)
               /\ MAtomLen(M, hnd[k]) = Len(b)
               /\ hnd[k].t = "small" => hnd[k].i < 67108864 /\ SmallView(b) = hnd[k].i
      /\ \A x, y \in L : MAtomEq(M, hnd[x], hnd[y]) <=> MAtomBytes(M, hnd[x]) = MAtomBytes(M, hnd[y])
=============================================================================
