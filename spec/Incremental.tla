---------------------------- MODULE Incremental ----------------------------
(***************************************************************************)
(* The incremental back-reference serializer (src/serde/incremental.rs) at *)
(* the level property C19 talks about.                                     *)
(*                                                                         *)
(* A tree is split at a *sentinel*: add(T) serializes T up to the first    *)
(* sentinel (pre-order, left before right) and stops there; the next       *)
(* add(T') continues with T' in the place of that sentinel, and so on      *)
(* until no open sentinel position is left ("done").  restore(u) with the  *)
(* UndoState u returned by a retained add takes back that add and every    *)
(* later one (the repository's own tests restore across several adds and   *)
(* re-use a cloned UndoState; an UndoState of an add that has itself been  *)
(* undone is not a valid argument and is never generated).                 *)
(*                                                                         *)
(* Which back-references the serializer emits is NOT part of the property, *)
(* so the bytes are *observed* values: the abstract machine keeps the      *)
(* retained additions, a stack of snapshots (each carrying the value `obs` *)
(* observed before the add it belongs to), what the retained additions     *)
(* denote so far (`part`) and the done flag; the property                  *)
(* predicates relate observed bytes to this state:                         *)
(*    UndoRestores   bytes after an undo  = bytes observed before the add  *)
(*    FinalDecodes   DecodeBR(final bytes) = Assemble(retained additions)  *)
(*    SaltIndependent  two Serializers, same history => same bytes         *)
(* F6a / F6b are the two input-derived history classes of DESIGN.md C19;   *)
(* F6c is a third class found while building this engine (allocator nodes  *)
(* shared between additions).  IncrementalMech.tla models the shadow tree  *)
(* itself and derives the three classes from the design of the code.       *)
(*                                                                         *)
(* Trees: atom [a |-> <<bytes>>], pair [f |-> x, r |-> y]  (CONVENTIONS).  *)
(* Self-contained on purpose (own classic encoder and back-reference       *)
(* decoder); all recursion is structural over small data.                  *)
(***************************************************************************)
EXTENDS Naturals, Sequences

IsAtom(t) == "a" \in DOMAIN t
Atom(b) == [a |-> b]
Pair(x, y) == [f |-> x, r |-> y]
Nil == Atom(<< >>)

\* Trees in traces: a deep tree is written in the FLAT form [t |-> << node, .. >>] with node = [a |-> bytes]
\* or [p |-> <<i, j>>] (1-based indices of earlier entries, root last) - CONVENTIONS "nesting limit".
\* TreeOf accepts both forms (same definition as in Sexp.tla, copied to keep this module self-contained).
RECURSIVE BuildFlat(_, _)
BuildFlat(tab, i) ==
  IF "a" \in DOMAIN tab[i] THEN [a |-> tab[i].a]
  ELSE [f |-> BuildFlat(tab, tab[i].p[1]), r |-> BuildFlat(tab, tab[i].p[2])]
TreeOf(j) == IF "t" \in DOMAIN j THEN BuildFlat(j.t, Len(j.t)) ELSE j

\* tree equality that never compares records of different shape
RECURSIVE TEq(_, _)
TEq(x, y) ==
  IF IsAtom(x) THEN IsAtom(y) /\ x.a = y.a
  ELSE ~IsAtom(y) /\ TEq(x.f, y.f) /\ TEq(x.r, y.r)

---------------------------------------------------------------------------
(* Sentinels, substitution, assembly                                       *)

\* number of positions of t holding the sentinel S
RECURSIVE Count(_, _)
Count(t, S) ==
  IF TEq(t, S) THEN 1 ELSE IF IsAtom(t) THEN 0 ELSE Count(t.f, S) + Count(t.r, S)

\* p with its first (pre-order) sentinel position replaced by t (p unchanged if it has none);
\* one pass: Sub returns the new tree and whether the position was found
RECURSIVE Sub(_, _, _)
Sub(p, S, t) ==
  IF TEq(p, S) THEN [t |-> t, hit |-> TRUE]
  ELSE IF IsAtom(p) THEN [t |-> p, hit |-> FALSE]
  ELSE LET l == Sub(p.f, S, t) IN
       IF l.hit THEN [t |-> Pair(l.t, p.r), hit |-> TRUE]
       ELSE LET r == Sub(p.r, S, t) IN [t |-> Pair(p.f, r.t), hit |-> r.hit]
SubstFirst(p, S, t) == Sub(p, S, t).t

\* the tree the retained additions denote so far; open positions still hold S
RECURSIVE Partial(_, _)
Partial(ret, S) ==
  IF ret = << >> THEN S
  ELSE SubstFirst(Partial(SubSeq(ret, 1, Len(ret) - 1), S), S, ret[Len(ret)])

Open(ret, S) == Count(Partial(ret, S), S)       \* sentinel positions still to be filled
Complete(ret, S) == Open(ret, S) = 0
Assemble(ret, S) == Partial(ret, S)             \* meaningful when Complete(ret, S)

---------------------------------------------------------------------------
(* The abstract machine.  State record:                                    *)
(*   sent   the sentinel value                                             *)
(*   ret    retained additions (sequence of trees, sentinels in place)     *)
(*   part   what they denote so far (= Partial(ret, sent), kept            *)
(*          incrementally; the equality is an invariant checked by MC)     *)
(*   snaps  one snapshot per retained addition: the state before that add  *)
(*          [n, done, part, obs]; n = number of retained additions then,   *)
(*          obs = what was observed then (the visible bytes)               *)
(*   done   serialization complete                                         *)
(*   added  every tree ever added (history), undone: those taken back      *)
(*   calls  number of calls so far                                         *)

InitState(S) ==
  [sent |-> S, ret |-> << >>, part |-> S, snaps |-> << >>, done |-> FALSE,
   added |-> << >>, undone |-> << >>, calls |-> 0]

CanAdd(s) == ~s.done
CanUndo(s, k) == k >= 1 /\ k <= Len(s.ret)

\* add(t) observed in a serializer whose visible bytes were `obs` before the call
AddS(s, t, obs) ==
  LET p2 == SubstFirst(s.part, s.sent, t) IN
  [s EXCEPT !.ret   = Append(@, t),
            !.part  = p2,
            !.snaps = Append(@, [n |-> Len(s.ret), done |-> s.done, part |-> s.part, obs |-> obs]),
            !.done  = Count(p2, s.sent) = 0,
            !.added = Append(@, t),
            !.calls = @ + 1]

\* restore(undo state of the k-th most recent retained add): k additions are taken back
Snap(s, k) == s.snaps[Len(s.ret) - k + 1]
UndoS(s, k) ==
  LET n == Len(s.ret) - k
      sn == Snap(s, k)
  IN  [s EXCEPT !.ret    = SubSeq(@, 1, n),
                !.part   = sn.part,
                !.snaps  = SubSeq(@, 1, n),
                !.done   = sn.done,
                !.undone = @ \o SubSeq(s.ret, n + 1, Len(s.ret)),
                !.calls  = @ + 1]

\* the machine's own invariants (checked by MCIncremental on every reachable state)
MachineInv(s) ==
  /\ Len(s.snaps) = Len(s.ret)
  /\ TEq(s.part, Partial(s.ret, s.sent))                  \* Assemble is what the machine carries
  /\ \A i \in 1..Len(s.ret) : /\ s.snaps[i].n = i - 1
                               /\ TEq(s.snaps[i].part, Partial(SubSeq(s.ret, 1, i - 1), s.sent))
                               /\ ~s.snaps[i].done         \* nothing is ever added after completion
  /\ s.done = Complete(s.ret, s.sent)
  /\ Len(s.added) = Len(s.ret) + Len(s.undone)
\* undo is a left inverse of add on the abstract state (history bookkeeping aside)
Core(s) == [ret |-> s.ret, part |-> s.part, snaps |-> s.snaps, done |-> s.done]
UndoInvertsAdd(s, t) == CanAdd(s) => Core(UndoS(AddS(s, t, 0), 1)) = Core(s)
\* with one sentinel per added tree: done iff the last retained addition has no sentinel
SingleSentinel(s) == \A i \in 1..Len(s.added) : Count(s.added[i], s.sent) <= 1
DoneIffLastClosed(s) ==
  SingleSentinel(s) =>
    (s.done <=> (s.ret # << >> /\ Count(s.ret[Len(s.ret)], s.sent) = 0))

---------------------------------------------------------------------------
(* Classic serialization (lengths and bytes)                               *)

AtomPrefix(n) ==
  IF n < 64 THEN << 128 + n >>
  ELSE IF n < 8192 THEN << 192 + (n \div 256), n % 256 >>
  ELSE IF n < 1048576 THEN << 224 + (n \div 65536), (n \div 256) % 256, n % 256 >>
  ELSE << 240 + (n \div 16777216), (n \div 65536) % 256, (n \div 256) % 256, n % 256 >>   \* < 2^27

EncAtom(b) ==
  IF b = << >> THEN << 128 >>
  ELSE IF Len(b) = 1 /\ b[1] < 128 THEN b
  ELSE AtomPrefix(Len(b)) \o b

RECURSIVE Encode(_)
Encode(t) == IF IsAtom(t) THEN EncAtom(t.a) ELSE << 255 >> \o Encode(t.f) \o Encode(t.r)

RECURSIVE SerLen(_)
SerLen(t) == IF IsAtom(t) THEN Len(EncAtom(t.a)) ELSE 1 + SerLen(t.f) + SerLen(t.r)

---------------------------------------------------------------------------
(* Back-reference decoder: classic atoms, 0xff cons, `0xfe path` resolved  *)
(* in the parse stack seen as a CLVM list (top of stack first), with       *)
(* traverse_path semantics.  The parse stack is a sequence, top = last.    *)

Bad == [ok |-> FALSE]

\* an atom whose first byte is at b[i]; [ok, val, next]
AtomAt(b, i) ==
  IF i > Len(b) THEN Bad
  ELSE LET x == b[i] IN
    IF x < 128 THEN [ok |-> TRUE, val |-> << x >>, next |-> i + 1]
    ELSE IF x >= 252 THEN Bad                        \* 6-byte prefix (>= 2^31, never produced here), 0xfe, 0xff
    ELSE LET k == IF x < 192 THEN 1 ELSE IF x < 224 THEN 2 ELSE IF x < 240 THEN 3 ELSE IF x < 248 THEN 4 ELSE 5
             top == IF k = 1 THEN x - 128 ELSE IF k = 2 THEN x - 192 ELSE IF k = 3 THEN x - 224
                    ELSE IF k = 4 THEN x - 240 ELSE x - 248
         IN IF i + k - 1 > Len(b) THEN Bad
            ELSE IF k = 5 THEN Bad                     \* sizes >= 2^27 are outside this model
            ELSE LET RECURSIVE Sz(_, _)
                     Sz(j, acc) == IF j > i + k - 1 THEN acc ELSE Sz(j + 1, acc * 256 + b[j])
                     n == Sz(i + 1, top)
                 IN IF i + k - 1 + n > Len(b) THEN Bad
                    ELSE [ok |-> TRUE, val |-> SubSeq(b, i + k, i + k - 1 + n), next |-> i + k + n]

\* the parse stack as a CLVM list: (top . (next . ( ... . nil)))
RECURSIVE StackList(_, _)
StackList(stk, n) == IF n = 0 THEN Nil ELSE Pair(stk[n], StackList(stk, n - 1))
\* built bottom-up to keep the recursion shallow in the common case
RECURSIVE StackListUp(_, _, _)
StackListUp(stk, i, acc) == IF i > Len(stk) THEN acc ELSE StackListUp(stk, i + 1, Pair(stk[i], acc))

BitLen(x) == IF x >= 128 THEN 8 ELSE IF x >= 64 THEN 7 ELSE IF x >= 32 THEN 6 ELSE IF x >= 16 THEN 5
             ELSE IF x >= 8 THEN 4 ELSE IF x >= 4 THEN 3 ELSE IF x >= 2 THEN 2 ELSE IF x >= 1 THEN 1 ELSE 0
Pow2(n) == IF n = 0 THEN 1 ELSE IF n = 1 THEN 2 ELSE IF n = 2 THEN 4 ELSE IF n = 3 THEN 8
           ELSE IF n = 4 THEN 16 ELSE IF n = 5 THEN 32 ELSE IF n = 6 THEN 64 ELSE 128

RECURSIVE FirstNonZero(_, _)
FirstNonZero(p, i) == IF i > Len(p) \/ p[i] # 0 THEN i ELSE FirstNonZero(p, i + 1)

\* traverse_path(path, env): bits from the least significant one, 0 = first, 1 = rest; the most
\* significant set bit terminates; the empty / all-zero path is nil; stepping into an atom fails
Traverse(p, env) ==
  LET nz == FirstNonZero(p, 1) IN
  IF nz > Len(p) THEN [ok |-> TRUE, t |-> Nil]
  ELSE LET steps == 8 * (Len(p) - nz) + BitLen(p[nz]) - 1
           Bit(j) == (p[Len(p) - (j \div 8)] \div Pow2(j % 8)) % 2        \* j = 0 is the lowest bit
           RECURSIVE Walk(_, _)
           Walk(t, j) == IF j = steps THEN [ok |-> TRUE, t |-> t]
                         ELSE IF IsAtom(t) THEN Bad
                         ELSE Walk(IF Bit(j) = 1 THEN t.r ELSE t.f, j + 1)
       IN Walk(env, 0)

\* parse one node starting at b[i] with parse stack stk; on success the node is pushed: [ok, next, stk]
RECURSIVE DecNode(_, _, _)
DecNode(b, i, stk) ==
  IF i > Len(b) THEN Bad
  ELSE IF b[i] = 255 THEN
    LET l == DecNode(b, i + 1, stk) IN
    IF ~l.ok THEN Bad
    ELSE LET r == DecNode(b, l.next, l.stk) IN
      IF ~r.ok THEN Bad
      ELSE LET n == Len(r.stk) IN
        [ok |-> TRUE, next |-> r.next,
         stk |-> Append(SubSeq(r.stk, 1, n - 2), Pair(r.stk[n - 1], r.stk[n]))]
  ELSE IF b[i] = 254 THEN
    LET p == AtomAt(b, i + 1) IN
    IF ~p.ok THEN Bad
    ELSE LET v == Traverse(p.val, StackListUp(stk, 1, Nil)) IN
      IF ~v.ok THEN Bad ELSE [ok |-> TRUE, next |-> p.next, stk |-> Append(stk, v.t)]
  ELSE
    LET q == AtomAt(b, i) IN
    IF ~q.ok THEN Bad ELSE [ok |-> TRUE, next |-> q.next, stk |-> Append(stk, Atom(q.val))]

\* [ok, tree, used]
DecodeBR(b) ==
  LET d == DecNode(b, 1, << >>) IN
  IF ~d.ok THEN [ok |-> FALSE, tree |-> Nil, used |-> 0]
  ELSE [ok |-> TRUE, tree |-> d.stk[1], used |-> d.next - 1]

---------------------------------------------------------------------------
(* The property predicates (C19).  Bytes are observed values.              *)

\* clause 1: after restore(k) the visible bytes are those observed before the undone add
UndoRestores(s, k, obsAfter) == obsAfter = Snap(s, k).obs
\* clause 2: once complete, the bytes decode to the tree assembled from the retained additions
\* (s.part = Assemble(s.ret, s.sent) by MachineInv)
FinalDecodes(s, bytes) ==
  LET d == DecodeBR(bytes) IN d.ok /\ TEq(d.tree, s.part)
\* (diagnostic) and nothing follows the encoded tree
FinalExact(bytes) == LET d == DecodeBR(bytes) IN d.ok => d.used = Len(bytes)
\* clause 3: a second Serializer (another salt) given the same history holds the same bytes
SaltIndependent(bytes1, bytes2) == bytes1 = bytes2

---------------------------------------------------------------------------
(* History classes of the two known defects (DESIGN.md C19, section 7).    *)
(* Both are computed from the history alone, never from the outcome.       *)

RECURSIVE Occurs(_, _)
Occurs(v, t) == TEq(v, t) \/ (~IsAtom(t) /\ (Occurs(v, t.f) \/ Occurs(v, t.r)))

\* some sub-tree value of x that does not contain the sentinel and whose classic serialization
\* is at least 4 bytes long occurs in `fin`
RECURSIVE SharesValue(_, _, _)
SharesValue(x, S, fin) ==
  \/ Count(x, S) = 0 /\ SerLen(x) >= 4 /\ Occurs(x, fin)
  \/ ~IsAtom(x) /\ ~TEq(x, S) /\ (SharesValue(x.f, S, fin) \/ SharesValue(x.r, S, fin))

\* F6a: some undone add(X) has such a sub-tree value that also occurs in the finally assembled tree
\* (for a history that never completes: in what the retained additions denote at its end)
F6a(s) == \E i \in 1..Len(s.undone) : SharesValue(s.undone[i], s.sent, Partial(s.ret, s.sent))

\* the same predicate in one bottom-up pass (MCIncremental checks F6aFast = F6a on every state)
AtomSerLen(b) == IF Len(b) = 0 \/ (Len(b) = 1 /\ b[1] < 128) THEN 1 ELSE Len(AtomPrefix(Len(b))) + Len(b)
RECURSIVE SV(_, _, _)       \* [clean: no sentinel inside, len: classic length if clean, hit]
SV(x, S, fin) ==
  IF TEq(x, S) THEN [clean |-> FALSE, len |-> 0, hit |-> FALSE]
  ELSE IF IsAtom(x)
    THEN LET n == AtomSerLen(x.a) IN [clean |-> TRUE, len |-> n, hit |-> n >= 4 /\ Occurs(x, fin)]
  ELSE LET l == SV(x.f, S, fin) IN
    IF l.hit THEN [clean |-> FALSE, len |-> 0, hit |-> TRUE]
    ELSE LET r == SV(x.r, S, fin)
             c == l.clean /\ r.clean
             n == 1 + l.len + r.len
         IN [clean |-> c, len |-> n, hit |-> r.hit \/ (c /\ n >= 4 /\ Occurs(x, fin))]
F6aFast(s) == \E i \in 1..Len(s.undone) : SV(s.undone[i], s.sent, s.part).hit
\* F6b: some added tree (retained or not) contains the sentinel at two or more positions
F6b(s) == \E i \in 1..Len(s.added) : Count(s.added[i], s.sent) >= 2


\* F6c (found by this engine, not in DESIGN.md): the caller passes the SAME allocator node for equal
\* sub-tree values (`reuse`, as the repository's own tests do when they add one `list` node ten times) and
\* some sentinel-bearing sub-tree value other than the sentinel itself occurs at two or more positions of
\* the added trees.  The shadow tree keys its entries by NodePtr, so the second occurrence is not traversed
\* again (no new sentinel entry, parent links of the first occurrence are kept) although it denotes a
\* different tree once its sentinel position is filled.
RECURSIVE Bearing(_, _)      \* the sentinel-bearing proper sub-trees of t, pre-order, with repetitions
Bearing(t, S) ==
  IF TEq(t, S) \/ IsAtom(t) \/ Count(t, S) = 0 THEN << >>
  ELSE << t >> \o Bearing(t.f, S) \o Bearing(t.r, S)
RECURSIVE BearingAll(_, _)
BearingAll(added, S) ==
  IF added = << >> THEN << >> ELSE BearingAll(SubSeq(added, 1, Len(added) - 1), S) \o Bearing(added[Len(added)], S)
F6c(s, reuse) ==
  reuse /\ LET b == BearingAll(s.added, s.sent)
           IN \E i \in 1..Len(b) : \E j \in (i + 1)..Len(b) : TEq(b[i], b[j])

Class(s, reuse) ==
  IF F6b(s) THEN "F6b" ELSE IF F6aFast(s) THEN "F6a" ELSE IF F6c(s, reuse) THEN "F6c" ELSE "none"
=============================================================================
