------------------------------ MODULE MCHash ------------------------------
(***************************************************************************)
(* Bounded model of the tree hashers and of interning (C22, C24 at design  *)
(* level) and CASE emission for the replay into the implementation.        *)
(*                                                                         *)
(* Universe: every case is a source heap + root (+ whether fitting atoms   *)
(* are stored inline):                                                     *)
(*   - all trees of <= MaxNodes nodes over the alphabet Alpha (nil, 01,    *)
(*     0x24 = last entry of the precomputed table, 0x25 = first one past   *)
(*     it, 7f, 80, 0001 = non-canonical 1, 00 = non-canonical 0), each as  *)
(*     an unshared heap and as a maximally shared heap;                    *)
(*   - all DAG heaps of <= DagNodes nodes over a 3-atom alphabet (every    *)
(*     sharing pattern, including partially shared and duplicated nodes).  *)
(* One initial state per case; Next advances the five machines             *)
(*   HM tree_hash_costed, SM tree_hash_from_stream, TM parse_triples,      *)
(*   OM ObjectCache/treehash, IM intern_tree                               *)
(* in lockstep, one loop iteration each per TLC state.  When all are done  *)
(* the invariant compares them with the declarative definitions and emits  *)
(* one CASE line.                                                          *)
(***************************************************************************)
EXTENDS Intern, Json, IOUtils

VARIABLES c, m

Tier == IF "TIER" \in DOMAIN IOEnv THEN IOEnv.TIER ELSE "quick"

Alpha == { << >>, << 1 >>, << 36 >>, << 37 >>, << 127 >>, << 128 >>, << 0, 1 >>, << 0 >> }
A == {[a |-> b] : b \in Alpha}

T1 == A
T3 == {[f |-> x, r |-> y] : x \in T1, y \in T1}
T5 == {[f |-> x, r |-> y] : x \in T1, y \in T3} \cup {[f |-> x, r |-> y] : x \in T3, y \in T1}
\* 7 nodes (thorough): a reduced alphabet keeps the count at 5 * 4^4 = 1280
B == {[a |-> b] : b \in {<< >>, << 1 >>, << 37 >>, << 0, 1 >>}}
B3 == {[f |-> x, r |-> y] : x \in B, y \in B}
B5 == {[f |-> x, r |-> y] : x \in B, y \in B3} \cup {[f |-> x, r |-> y] : x \in B3, y \in B}
B7 == {[f |-> x, r |-> y] : x \in B, y \in B5} \cup {[f |-> x, r |-> y] : x \in B5, y \in B}
        \cup {[f |-> x, r |-> y] : x \in B3, y \in B3}
Trees == T1 \cup T3 \cup T5 \cup (IF Tier = "thorough" THEN B7 ELSE {})

\* DAG heaps: node i is an atom or a pair of two earlier nodes; the root is the last node
DagAlpha == {[a |-> << >>], [a |-> << 1 >>], [a |-> << 0, 1 >>]}
NodeChoices(i) == DagAlpha \cup {[f |-> j, r |-> k] : j \in 1..(i - 1), k \in 1..(i - 1)}
RECURSIVE Heaps(_)
Heaps(n) == IF n = 0 THEN {<< >>} ELSE {Append(h, x) : h \in Heaps(n - 1), x \in NodeChoices(n)}
DagNodes == IF Tier = "thorough" THEN 5 ELSE 4

TreeCases ==
  {[heap |-> Flat(t), root |-> Len(Flat(t)), inline |-> i, kind |-> "unshared"] : t \in Trees, i \in BOOLEAN}
  \cup {[heap |-> MaxShared(t).heap, root |-> MaxShared(t).idx, inline |-> TRUE, kind |-> "maxshared"] : t \in Trees}
DagCases ==
  UNION {{[heap |-> h, root |-> n, inline |-> TRUE, kind |-> "dag"] : h \in Heaps(n)} : n \in 1..DagNodes}
Cases == TreeCases \cup DagCases

Machines(cs) ==
  LET t  == Unfold(cs.heap, cs.root)
      bs == Ser(t)
  IN  [t  |-> t, steps |-> 0,
       hm |-> HMInit(t), sm |-> SMInit(bs), tm |-> TMInit(bs),
       om |-> OMInit(cs.root), im |-> IMInit(cs.root)]

AllDone == HMDone(m.hm) /\ SMDone(m.sm) /\ TMDone(m.tm) /\ OMDone(m.om) /\ IMDone(m.im)

Init == c \in Cases /\ m = Machines(c)
Next == /\ ~AllDone
        /\ m' = [t  |-> m.t, steps |-> m.steps + 1,
                 hm |-> IF HMDone(m.hm) THEN m.hm ELSE HMStep(m.hm, c.inline),
                 sm |-> IF SMDone(m.sm) THEN m.sm ELSE SMStep(m.sm),
                 tm |-> IF TMDone(m.tm) THEN m.tm ELSE TMStep(m.tm),
                 om |-> IF OMDone(m.om) THEN m.om ELSE OMStep(c.heap, m.om),
                 im |-> IF IMDone(m.im) THEN m.im ELSE IMStep(c.heap, m.im)]
        /\ UNCHANGED c

Emit(r) == PrintT(<< "CASE", ToJson(r) >>)

\* C22 at design level: every machine computes the recursive definition
HashLaws ==
  LET t == m.t  th == TH(t) IN
  /\ Len(th) = 32 /\ \A i \in 1..32 : th[i] \in 0..255          \* TH well defined
  /\ PH(t)[1] = th /\ Len(PH(t)) = Size(t)
  /\ HMResult(m.hm) = << th >>
  /\ ~m.sm.err /\ SMResult(m.sm) = << th >> /\ m.sm.pos = Len(m.sm.bs) + 1
  /\ ~m.tm.err /\ TMResult(m.tm) = PH(t) /\ m.tm.pos = Len(m.tm.bs) + 1
  /\ c.root \in DOMAIN m.om.cache /\ m.om.cache[c.root] = th
  /\ \A i \in DOMAIN m.om.cache : m.om.cache[i] = TH(Unfold(c.heap, i))

\* C24 at design level: the machine result is the declarative result
InternLaws ==
  LET t == m.t  at == m.im.atoms  pr == m.im.pairs  rt == IMRoot(m.im, c.root) IN
  /\ InternRefines(at, pr, rt, t)
  /\ Ser(IVal(at, pr, rt)) = Ser(t) /\ TH(IVal(at, pr, rt)) = TH(t)
  /\ Len(at) <= SrcAtoms(c.heap, c.root) /\ Len(pr) <= SrcPairs(c.heap, c.root)
  /\ SrcAtoms(c.heap, c.root) <= AtomPositions(t) /\ SrcPairs(c.heap, c.root) <= PairPositions(t)
  \* hash-consing the value gives exactly one node per distinct value
  /\ Len(MaxShared(t).heap) = Len(at) + Len(pr)

Laws ==
  AllDone =>
    /\ HashLaws
    /\ InternLaws
    /\ IF c.kind = "unshared" /\ ~c.inline THEN TRUE
       ELSE Emit([kind |-> c.kind, heap |-> c.heap, root |-> c.root, tree |-> m.t,
                  th |-> TH(m.t), ser |-> Ser(m.t),
                  atoms |-> m.im.atoms, pairs |-> m.im.pairs, iroot |-> IMRoot(m.im, c.root),
                  n_atoms |-> Cardinality(DistinctAtoms(m.t)),
                  n_pairs |-> Cardinality(DistinctPairs(m.t)),
                  steps |-> m.steps])

\* The linear formulations used by TraceHash for big trees agree with the literal clauses on
\* every small interned structure, well formed or not minimal: duplicate atoms, duplicate
\* pairs, unreachable entries, any root.
LemmaAtoms == {<< x >> : x \in {<< >>, << 1 >>}} \cup {<< x, y >> : x \in {<< >>, << 1 >>}, y \in {<< >>, << 1 >>}}
RECURSIVE LemmaPairs(_, _)
LemmaPairs(na, n) ==
  IF n = 0 THEN {<< >>}
  ELSE LET refs == {-k : k \in 1..na} \cup 1..(n - 1)
       IN  {Append(p, [l |-> x, r |-> y]) : p \in LemmaPairs(na, n - 1), x \in refs, y \in refs}
FastLemma ==
  \A at \in LemmaAtoms : \A n \in 0..3 : \A pr \in LemmaPairs(Len(at), n) :
    \A root \in {-k : k \in 1..Len(at)} \cup 1..n :
      LET t == IVal(at, pr, root) IN
      /\ WellFormed(at, pr, root)
      /\ PairsDistinctFast(at, pr) = PairsDistinct(at, pr)
      /\ PairsMaximalFast(at, pr, root, t) = PairsMaximal(pr, t)
ASSUME FastLemma

\* every machine terminates (a machine that loops would otherwise just revisit a state and
\* silently never reach AllDone), and stacks stay consistent
StepSanity ==
  /\ m.steps <= 4 * Size(m.t) + 4
  /\ ~HMDone(m.hm) => Len(m.hm.ops) >= 1
  /\ HMDone(m.hm) => Len(m.hm.hashes) = 1
  /\ Len(m.tm.hs) = Len(m.tm.r)
=============================================================================
